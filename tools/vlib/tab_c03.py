"""C03 extractors (registered in extract.GENERATORS).

Tab_TriQuad.v : the tabulated triangle quadrature rules of optimism/QuadratureRule.create_quadrature_rule_on_triangle,
                one entry per `degree` branch in source order with the branch condition, numbers taken from the decimal
                *source text* (never through float()) as exact rationals over the common denominator 10^S.
Tab_FsGeom.v  : the index/sign structure of the three small geometric kernels of optimism/FunctionSpace.py
                (cross-product Jacobian, Jacobian columns of the gradient map, axisymmetric factor) and of
                Mesh.compute_edge_vectors, recognised syntactically.
Both are fail-closed: an unrecognised structure produces a stub that does not compile."""
import ast
import os
import re

_NUM = re.compile(r'^([0-9]*)(?:\.([0-9]*))?(?:[eE]([+-]?[0-9]+))?$')


class Unrecognised(Exception):
    pass


def _dec(src, node):
    """numeric literal node (possibly under unary minus) -> (mantissa:int, exp10:int) from the source text"""
    sign = 1
    while isinstance(node, ast.UnaryOp) and isinstance(node.op, (ast.USub, ast.UAdd)):
        if isinstance(node.op, ast.USub):
            sign = -sign
        node = node.operand
    if not (isinstance(node, ast.Constant) and isinstance(node.value, (int, float)) and not isinstance(node.value, bool)):
        raise Unrecognised('expected a numeric literal at line %d' % getattr(node, 'lineno', -1))
    txt = ast.get_source_segment(src, node).strip().replace('_', '')
    m = _NUM.match(txt)
    if not m or (m.group(1) == '' and not m.group(2)):
        raise Unrecognised('numeric literal %r not understood' % txt)
    ip, fp, ex = m.group(1) or '', m.group(2) or '', int(m.group(3) or 0)
    return sign * int((ip + fp) or '0'), ex - len(fp)


def _np_array(node):
    if not (isinstance(node, ast.Call) and isinstance(node.func, ast.Attribute) and node.func.attr == 'array'
            and isinstance(node.func.value, ast.Name) and node.func.value.id in ('np', 'onp', 'jnp')
            and len(node.args) == 1 and not node.keywords and isinstance(node.args[0], ast.List)):
        raise Unrecognised('expected np.array([...]) at line %d' % getattr(node, 'lineno', -1))
    return node.args[0].elts


def _find_func(tree, name):
    for n in tree.body:
        if isinstance(n, ast.FunctionDef) and n.name == name:
            return n
    raise Unrecognised('function %s not found' % name)


def _strip_doc(body):
    if body and isinstance(body[0], ast.Expr) and isinstance(body[0].value, ast.Constant) and isinstance(body[0].value.value, str):
        return body[1:]
    return body


def parse_tri_tables(src):
    """-> list of (is_le:bool, bound:int, points:[((m,e),(m,e))], weights:[(m,e)])"""
    tree = ast.parse(src)
    fn = _find_func(tree, 'create_quadrature_rule_on_triangle')
    if [a.arg for a in fn.args.args] != ['degree'] or fn.args.vararg or fn.args.kwarg or fn.args.kwonlyargs or fn.args.defaults:
        raise Unrecognised('signature of create_quadrature_rule_on_triangle changed')
    body = _strip_doc(fn.body)
    if len(body) != 2 or not isinstance(body[0], ast.If) or not isinstance(body[1], ast.Return):
        raise Unrecognised('body is not `if-chain; return`')
    ret = body[1].value
    if not (isinstance(ret, ast.Call) and isinstance(ret.func, ast.Name) and ret.func.id == 'QuadratureRule'
            and [getattr(a, 'id', None) for a in ret.args] == ['xi', 'w'] and not ret.keywords):
        raise Unrecognised('return value is not QuadratureRule(xi, w)')
    branches = []
    node = body[0]
    while True:
        t = node.test
        if not (isinstance(t, ast.Compare) and isinstance(t.left, ast.Name) and t.left.id == 'degree' and len(t.ops) == 1
                and isinstance(t.ops[0], (ast.LtE, ast.Eq)) and isinstance(t.comparators[0], ast.Constant)
                and type(t.comparators[0].value) is int):
            raise Unrecognised('branch test at line %d is not `degree <= n` / `degree == n`' % node.lineno)
        is_le = isinstance(t.ops[0], ast.LtE)
        bound = t.comparators[0].value
        if len(node.body) != 2:
            raise Unrecognised('branch at line %d does not consist of exactly two assignments' % node.lineno)
        vals = {}
        for st in node.body:
            if not (isinstance(st, ast.Assign) and len(st.targets) == 1 and isinstance(st.targets[0], ast.Name)):
                raise Unrecognised('unexpected statement at line %d' % st.lineno)
            vals[st.targets[0].id] = st.value
        if set(vals) != {'xi', 'w'}:
            raise Unrecognised('branch at line %d does not assign exactly xi and w' % node.lineno)
        pts = []
        for row in _np_array(vals['xi']):
            if not (isinstance(row, ast.List) and len(row.elts) == 2):
                raise Unrecognised('xi row at line %d is not a pair' % row.lineno)
            pts.append((_dec(src, row.elts[0]), _dec(src, row.elts[1])))
        ws = [_dec(src, e) for e in _np_array(vals['w'])]
        branches.append((is_le, bound, pts, ws))
        if len(node.orelse) != 1:
            raise Unrecognised('else part at line %d is not a single statement' % node.lineno)
        nxt = node.orelse[0]
        if isinstance(nxt, ast.If):
            node = nxt
            continue
        if isinstance(nxt, ast.Raise):
            break
        raise Unrecognised('chain does not end in `raise`')
    return branches


def _q(me, S):
    m, e = me
    if e + S < 0:
        raise Unrecognised('internal: scale too small')
    return '((%d) # %d)' % (m * 10 ** (e + S), 10 ** S)


def tri_tables_text(src):
    br = parse_tri_tables(src)
    allnums = [x for (_, _, pts, ws) in br for p in pts for x in p] + [w for (_, _, _, ws) in br for w in ws]
    S = max([0] + [-e for (_, e) in allnums])
    out = ['(* GENERATED from optimism/QuadratureRule.py (create_quadrature_rule_on_triangle) by tools/vlib/tab_c03.py -- do not edit.',
           '   One entry per branch of the if/elif chain, in source order: ((is_le, n), (points, weights)) where (true, n)',
           '   is `degree <= n` and (false, n) is `degree == n`; numbers are the decimal source text over the denominator 10^%d. *)' % S,
           'From Coq Require Import ZArith QArith List.', 'Import ListNotations.', 'Local Open Scope Q_scope.', '',
           'Definition tri_scale : Z := %d%%Z.' % S,
           'Definition tri_branches : list ((bool * Z) * (list (Q * Q) * list Q)) :=', '  [']
    items = []
    for (is_le, bound, pts, ws) in br:
        items.append('    ((%s, (%d)%%Z),\n     ([%s],\n      [%s]))' % (
            'true' if is_le else 'false', bound,
            ';\n       '.join('(%s, %s)' % (_q(x, S), _q(y, S)) for (x, y) in pts),
            ';\n       '.join(_q(w, S) for w in ws)))
    out.append(';\n'.join(items))
    out.append('  ].')
    return '\n'.join(out) + '\n', 'ok: %d branches, %d points, scale 10^-%d' % (len(br), sum(len(b[2]) for b in br), S)


# ----------------------------------------------------------------------------- geometry kernels of FunctionSpace / Mesh

def _is_name(n, s):
    return isinstance(n, ast.Name) and n.id == s


def _vidx(n, base):
    """`base[k]` -> k"""
    if isinstance(n, ast.Subscript) and _is_name(n.value, base) and isinstance(n.slice, ast.Constant) and type(n.slice.value) is int:
        return n.slice.value
    raise Unrecognised('expected %s[k]' % base)


def _vdiff(n, base):
    """`base[i] - base[j]` -> (i, j)"""
    if isinstance(n, ast.BinOp) and isinstance(n.op, ast.Sub):
        return (_vidx(n.left, base), _vidx(n.right, base))
    raise Unrecognised('expected %s[i] - %s[j]' % (base, base))


def _attr_call(n, mods, attr, nargs):
    if (isinstance(n, ast.Call) and not n.keywords and len(n.args) == nargs and isinstance(n.func, ast.Attribute) and n.func.attr == attr
            and isinstance(n.func.value, ast.Name) and n.func.value.id in mods):
        return n.args
    raise Unrecognised('expected %s.%s(...) with %d arguments' % ('/'.join(mods), attr, nargs))


def _assigns(fn):
    """straight-line body: list of (target-name, value) and the return value"""
    out = []
    body = _strip_doc(fn.body)
    for st in body[:-1]:
        if not (isinstance(st, ast.Assign) and len(st.targets) == 1 and isinstance(st.targets[0], ast.Name)):
            raise Unrecognised('%s: unexpected statement at line %d' % (fn.name, st.lineno))
        out.append((st.targets[0].id, st.value))
    if not isinstance(body[-1], ast.Return):
        raise Unrecognised('%s: does not end in return' % fn.name)
    return out, body[-1].value


def _dump(n):
    return ast.dump(n, annotate_fields=False)


def _expect(fn, got, want_src):
    want = ast.parse(want_src, mode='eval').body
    if _dump(got) != _dump(want):
        raise Unrecognised('%s: expected `%s`, found `%s`' % (fn, want_src, ast.unparse(got)))


def parse_fs_geom(fs_src, mesh_src):
    fs = ast.parse(fs_src)
    res = {}
    # compute_element_volumes
    fn = _find_func(fs, 'compute_element_volumes')
    if [a.arg for a in fn.args.args] != ['coordField', 'nodeOrdinals', 'parentElement', 'shapes', 'weights']:
        raise Unrecognised('compute_element_volumes: signature changed')
    asg, ret = _assigns(fn)
    if [a for a, _ in asg] != ['Xn', 'v', 'jac']:
        raise Unrecognised('compute_element_volumes: statements changed')
    _expect(fn.name, asg[0][1], 'coordField.take(nodeOrdinals,0)')
    _expect(fn.name, asg[1][1], 'Xn[parentElement.vertexNodes]')
    a, b = _attr_call(asg[2][1], ('np', 'jnp'), 'cross', 2)
    res['vol_cross'] = (_vdiff(a, 'v'), _vdiff(b, 'v'))
    _expect(fn.name, ret, 'jac*weights')
    # map_element_shape_grads
    fn = _find_func(fs, 'map_element_shape_grads')
    if [a.arg for a in fn.args.args] != ['coordField', 'nodeOrdinals', 'parentElement', 'shapeGradients']:
        raise Unrecognised('map_element_shape_grads: signature changed')
    asg, ret = _assigns(fn)
    if [a for a, _ in asg] != ['Xn', 'v', 'J']:
        raise Unrecognised('map_element_shape_grads: statements changed')
    _expect(fn.name, asg[0][1], 'coordField.take(nodeOrdinals,0)')
    _expect(fn.name, asg[1][1], 'Xn[parentElement.vertexNodes]')
    (tup,) = _attr_call(asg[2][1], ('np', 'jnp'), 'column_stack', 1)
    if not (isinstance(tup, ast.Tuple) and len(tup.elts) == 2):
        raise Unrecognised('map_element_shape_grads: J is not column_stack of two vectors')
    res['J_cols'] = (_vdiff(tup.elts[0], 'v'), _vdiff(tup.elts[1], 'v'))
    _expect(fn.name, ret, 'jax.vmap(lambda dN: solve(J.T, dN.T).T)(shapeGradients)')
    imp = [n for n in fs.body if isinstance(n, ast.ImportFrom) and any(al.name == 'solve' for al in n.names)]
    if not (len(imp) == 1 and imp[0].module == 'jax.scipy.linalg'):
        raise Unrecognised('map_element_shape_grads: `solve` is not jax.scipy.linalg.solve')
    # compute_element_volumes_axisymmetric
    fn = _find_func(fs, 'compute_element_volumes_axisymmetric')
    asg, ret = _assigns(fn)
    if [a for a, _ in asg] != ['vols', 'Xn', 'Rs']:
        raise Unrecognised('compute_element_volumes_axisymmetric: statements changed')
    _expect(fn.name, asg[0][1], 'compute_element_volumes(coordField, nodeOrdinals, parentElement, shapes, weights)')
    _expect(fn.name, asg[1][1], 'coordField.take(nodeOrdinals,0)')
    _expect(fn.name, asg[2][1], 'shapes@Xn[:,0]')
    _expect(fn.name, ret, '2*np.pi*Rs*vols')
    # interpolation / gradient contraction
    fn = _find_func(fs, 'interpolate_to_point')
    _, ret = _assigns(fn)
    _expect(fn.name, ret, 'np.dot(shape, elementNodalValues)')
    fn = _find_func(fs, 'compute_quadrature_point_field_gradient')
    asg, ret = _assigns(fn)
    _expect(fn.name, asg[0][1], 'np.tensordot(u, shapeGrad, axes=[0,0])')
    # Mesh.compute_edge_vectors
    ms = ast.parse(mesh_src)
    fn = _find_func(ms, 'compute_edge_vectors')
    asg, ret = _assigns(fn)
    if [a for a, _ in asg] != ['Xv', 'tangent', 'normal', 'jac']:
        raise Unrecognised('compute_edge_vectors: statements changed')
    _expect(fn.name, asg[0][1], 'edgeCoords[mesh.parentElement1d.vertexNodes, :]')
    res['edge_tangent'] = _vdiff(asg[1][1], 'Xv')
    _expect(fn.name, asg[2][1], 'np.array([tangent[1], -tangent[0]])')
    _expect(fn.name, asg[3][1], 'np.linalg.norm(tangent)')
    _expect(fn.name, ret, '(tangent/jac, normal/jac, jac)')
    return res


def fs_geom_text(fs_src, mesh_src):
    r = parse_fs_geom(fs_src, mesh_src)
    pair = lambda p: '(%d, %d)%%nat' % p
    out = ['(* GENERATED from optimism/FunctionSpace.py and optimism/Mesh.py by tools/vlib/tab_c03.py -- do not edit.',
           '   Index structure of the geometric kernels, recognised syntactically (everything else in those functions is',
           '   matched literally against the expected text, otherwise this file is a stub that does not compile):',
           '   compute_element_volumes:  jac = cross(v[a] - v[b], v[c] - v[d]); return jac*weights',
           '   map_element_shape_grads:  J = column_stack((v[a] - v[b], v[c] - v[d])); solve(J.T, dN.T).T',
           '   compute_element_volumes_axisymmetric: 2*np.pi*(shapes@Xn[:,0])*vols',
           '   Mesh.compute_edge_vectors: tangent = Xv[a] - Xv[b]; normal = (t[1], -t[0]); jac = |t|. *)',
           'Definition vol_cross_idx : (nat * nat) * (nat * nat) := (%s, %s).' % (pair(r['vol_cross'][0]), pair(r['vol_cross'][1])),
           'Definition jac_cols_idx : (nat * nat) * (nat * nat) := (%s, %s).' % (pair(r['J_cols'][0]), pair(r['J_cols'][1])),
           'Definition edge_tangent_idx : nat * nat := %s.' % pair(r['edge_tangent'])]
    return '\n'.join(out) + '\n', 'ok'


def _emit(outdir, name, fn, srcfiles):
    from . import extract
    path = os.path.join(outdir, name + '.v')
    try:
        text, msg = fn()
        res = (True, msg, path)
    except Unrecognised as ex:
        m = str(ex).replace('*)', '* )').replace('"', "'")
        text = '(* GENERATED: extraction from %s FAILED: %s *)\nDefinition broken : True := 0.\n' % (srcfiles, m)
        res = (False, str(ex), path)
    except Exception as ex:   # unreadable / unparsable source: fail closed
        m = repr(ex).replace('*)', '* )').replace('"', "'")
        text = '(* GENERATED: cannot read/parse %s: %s *)\nDefinition broken : True := 0.\n' % (srcfiles, m)
        res = (False, repr(ex), path)
    extract.write_if_changed(path, text)
    return res


def generate(repo, outdir):
    rd = lambda rel: open(os.path.join(repo, rel)).read()
    return {
        'Tab_TriQuad': _emit(outdir, 'Tab_TriQuad', lambda: tri_tables_text(rd('optimism/QuadratureRule.py')), 'optimism/QuadratureRule.py'),
        'Tab_FsGeom': _emit(outdir, 'Tab_FsGeom', lambda: fs_geom_text(rd('optimism/FunctionSpace.py'), rd('optimism/Mesh.py')),
                            'optimism/FunctionSpace.py, optimism/Mesh.py'),
    }
