"""C01 extractor (fail closed), registered in extract.GENERATORS.

gen_cfg_tr -> coq/gen/CFG_TR.v : the abstract syntax of EquationSolver.trust_region_minimize, is_converged, is_on_boundary and
              nonlinear_equation_solve as terms of the little Python-subset IR of model/M_C01_CFG.v, plus the module-level string
              constants, regenerated from the AST on every run.  The translation is purely syntactic (no decisions are taken here):
              every expression / statement form that the IR does not have makes the generator write a stub that does not compile.
              Dropped (they cannot influence the result): docstrings, `pass`, and expression statements that call print /
              print_banner / print_min_banner.  Names assigned anywhere in a function (or parameters) are locals (EName), every
              other name is a module-level / library name (EGlobal), exactly Python's scoping rule for functions without
              global/nonlocal declarations (which are rejected)."""
import ast
import os
from decimal import Decimal
from fractions import Fraction

from .extract import write_if_changed


class ExtractError(Exception):
    pass


FILE = 'optimism/EquationSolver.py'
FUNCS = ['trust_region_minimize', 'is_converged', 'is_on_boundary', 'nonlinear_equation_solve']
PRINTERS = {'print', 'print_banner', 'print_min_banner'}
BINOPS = {ast.Add: 'BAdd', ast.Sub: 'BSub', ast.Mult: 'BMul', ast.Div: 'BDiv', ast.MatMult: 'BMatMul', ast.Pow: 'BPow'}
CMPOPS = {ast.Lt: 'CLt', ast.LtE: 'CLe', ast.Gt: 'CGt', ast.GtE: 'CGe', ast.Eq: 'CEq'}


def cstr(s):
    if any(ord(ch) < 32 or ord(ch) > 126 for ch in s):
        raise ExtractError('non-printable character in a string constant')
    return '"%s"' % s.replace('"', '""')


def clist(items, sep='; '):
    return '[' + sep.join(items) + ']'


def float_lit(node, src):
    seg = ast.get_source_segment(src, node) or repr(node.value)
    fl = float(seg)
    if fl != fl or fl in (float('inf'), float('-inf')):
        raise ExtractError('non-finite literal at line %d' % node.lineno)
    fr = Fraction(Decimal(seg))
    if fl == 0.0:
        m, e = 0, 0
    else:
        m, e = fl.as_integer_ratio()[0], 0
        d = fl.as_integer_ratio()[1]
        while d > 1:
            d //= 2
            e -= 1
        while m % 2 == 0:
            m //= 2
            e += 1
    num, den = fr.numerator, fr.denominator
    return 'EFloat (%s # %d) ((%d)%%Z, (%d)%%Z)' % (('(%d)' % num) if num < 0 else str(num), den, m, e)


class Fun:
    def __init__(self, fn, src):
        self.fn, self.src = fn, src
        a = fn.args
        if a.vararg or a.kwarg or a.kwonlyargs or a.posonlyargs:
            raise ExtractError('%s: unsupported parameter kinds' % fn.name)
        self.params = [x.arg for x in a.args]
        self.locals = set(self.params)
        for n in ast.walk(fn):
            if isinstance(n, (ast.Global, ast.Nonlocal, ast.FunctionDef, ast.AsyncFunctionDef, ast.ClassDef)) and n is not fn:
                raise ExtractError('%s: nested def / global / nonlocal at line %d' % (fn.name, n.lineno))
            if isinstance(n, ast.Name) and isinstance(n.ctx, (ast.Store, ast.Del)):
                self.locals.add(n.id)
            if isinstance(n, (ast.NamedExpr, ast.ListComp, ast.SetComp, ast.DictComp, ast.GeneratorExp)):
                raise ExtractError('%s: comprehension / walrus at line %d' % (fn.name, n.lineno))

    # ---- expressions
    def e(self, x, bound=()):
        P = lambda t: '(%s)' % t
        if isinstance(x, ast.Name):
            return 'EName %s' % cstr(x.id) if (x.id in self.locals or x.id in bound) else 'EGlobal %s' % cstr(x.id)
        if isinstance(x, ast.Attribute):
            return 'EAttr %s %s' % (P(self.e(x.value, bound)), cstr(x.attr))
        if isinstance(x, ast.Constant):
            v = x.value
            if v is None:
                return 'ENone'
            if isinstance(v, bool):
                return 'EBool %s' % ('true' if v else 'false')
            if isinstance(v, int):
                if v < 0 or v > 10 ** 6:
                    raise ExtractError('integer literal out of range at line %d' % x.lineno)
                return 'EInt %d' % v
            if isinstance(v, float):
                return float_lit(x, self.src)
            if isinstance(v, str):
                return 'EStr %s' % cstr(v)
            raise ExtractError('unsupported constant at line %d' % x.lineno)
        if isinstance(x, ast.UnaryOp):
            if isinstance(x.op, ast.USub):
                # python: minus an int literal is an int; -0 is the int 0
                if isinstance(x.operand, ast.Constant) and isinstance(x.operand.value, int) and not isinstance(x.operand.value, bool) and x.operand.value == 0:
                    return 'EInt 0'
                return 'ENeg %s' % P(self.e(x.operand, bound))
            if isinstance(x.op, ast.Not):
                return 'ENot %s' % P(self.e(x.operand, bound))
            raise ExtractError('unsupported unary operator at line %d' % x.lineno)
        if isinstance(x, ast.BinOp):
            if type(x.op) not in BINOPS:
                raise ExtractError('unsupported binary operator at line %d' % x.lineno)
            return 'EBin %s %s %s' % (BINOPS[type(x.op)], P(self.e(x.left, bound)), P(self.e(x.right, bound)))
        if isinstance(x, ast.Compare):
            if len(x.ops) != 1 or type(x.ops[0]) not in CMPOPS:
                raise ExtractError('unsupported comparison at line %d' % x.lineno)
            return 'ECmp %s %s %s' % (CMPOPS[type(x.ops[0])], P(self.e(x.left, bound)), P(self.e(x.comparators[0], bound)))
        if isinstance(x, ast.BoolOp):
            c = 'EAnd' if isinstance(x.op, ast.And) else 'EOr'
            vals = [self.e(v, bound) for v in x.values]
            out = vals[-1]
            for v in reversed(vals[:-1]):
                out = '%s %s %s' % (c, P(v), P(out))
            return out
        if isinstance(x, ast.IfExp):
            return 'EIfExp %s %s %s' % (P(self.e(x.test, bound)), P(self.e(x.body, bound)), P(self.e(x.orelse, bound)))
        if isinstance(x, ast.Lambda):
            a = x.args
            if a.vararg or a.kwarg or a.kwonlyargs or a.posonlyargs or a.defaults:
                raise ExtractError('unsupported lambda parameters at line %d' % x.lineno)
            ps = [p.arg for p in a.args]
            return 'ELambda %s %s' % (clist([cstr(p) for p in ps]), P(self.e(x.body, tuple(bound) + tuple(ps))))
        if isinstance(x, ast.Call):
            if any(isinstance(a, ast.Starred) for a in x.args) or any(k.arg is None for k in x.keywords):
                raise ExtractError('star arguments at line %d' % x.lineno)
            kws = clist(['(%s, %s)' % (cstr(k.arg), self.e(k.value, bound)) for k in x.keywords])
            return 'ECall %s %s %s' % (P(self.e(x.func, bound)), clist([self.e(a, bound) for a in x.args]), kws)
        if isinstance(x, ast.Tuple):
            return 'ETuple %s' % clist([self.e(v, bound) for v in x.elts])
        raise ExtractError('%s: unsupported expression %s at line %d' % (self.fn.name, type(x).__name__, x.lineno))

    # ---- statements
    def block(self, stmts, ind):
        out = []
        for st in stmts:
            out += self.stmt(st, ind)
        pad = '\n' + ' ' * ind
        return '[' + (';' + pad + ' ').join(out) + ']'

    def stmt(self, st, ind):
        if isinstance(st, ast.Expr) and isinstance(st.value, ast.Constant) and isinstance(st.value.value, str):
            return []
        if isinstance(st, ast.Pass):
            return []
        if isinstance(st, ast.Expr):
            v = st.value
            if isinstance(v, ast.Call) and isinstance(v.func, ast.Name) and v.func.id in PRINTERS and v.func.id not in self.locals:
                for n in ast.walk(v):      # the dropped statement must be free of calls other than the printer itself (no hidden effects)
                    if isinstance(n, ast.Call) and n is not v and not (isinstance(n.func, ast.Attribute) and n.func.attr == 'sqrt'):
                        raise ExtractError('%s: a call inside a print statement at line %d' % (self.fn.name, st.lineno))
                return []
            return ['SExpr (%s)' % self.e(v)]
        if isinstance(st, ast.Assign):
            if len(st.targets) != 1:
                raise ExtractError('%s: chained assignment at line %d' % (self.fn.name, st.lineno))
            t = st.targets[0]
            if isinstance(t, ast.Name):
                return ['SAssign %s (%s)' % (clist([cstr(t.id)]), self.e(st.value))]
            if isinstance(t, ast.Tuple) and all(isinstance(x, ast.Name) for x in t.elts):
                return ['SAssign %s (%s)' % (clist([cstr(x.id) for x in t.elts]), self.e(st.value))]
            if isinstance(t, ast.Attribute) and isinstance(t.value, ast.Name):
                return ['SSetAttr %s %s (%s)' % (cstr(t.value.id), cstr(t.attr), self.e(st.value))]
            raise ExtractError('%s: unsupported assignment target at line %d' % (self.fn.name, st.lineno))
        if isinstance(st, ast.AugAssign):
            if not isinstance(st.target, ast.Name) or type(st.op) not in BINOPS:
                raise ExtractError('%s: unsupported augmented assignment at line %d' % (self.fn.name, st.lineno))
            return ['SAug %s %s (%s)' % (BINOPS[type(st.op)], cstr(st.target.id), self.e(st.value))]
        if isinstance(st, ast.If):
            pad = '\n' + ' ' * (ind + 2)
            return ['SIf (%s)%s%s%s%s' % (self.e(st.test), pad, self.block(st.body, ind + 2), pad, self.block(st.orelse, ind + 2))]
        if isinstance(st, ast.While):
            if st.orelse:
                raise ExtractError('%s: while/else at line %d' % (self.fn.name, st.lineno))
            return ['SWhile (%s)\n%s%s' % (self.e(st.test), ' ' * (ind + 2), self.block(st.body, ind + 2))]
        if isinstance(st, ast.For):
            it = st.iter
            ok = (not st.orelse and isinstance(st.target, ast.Name) and isinstance(it, ast.Call) and isinstance(it.func, ast.Name)
                  and it.func.id == 'range' and 'range' not in self.locals and len(it.args) == 1 and not it.keywords)
            if not ok:
                raise ExtractError('%s: unsupported for loop at line %d' % (self.fn.name, st.lineno))
            for n in ast.walk(st):
                if isinstance(n, (ast.Break, ast.Continue)):
                    raise ExtractError('%s: break/continue at line %d' % (self.fn.name, n.lineno))
            return ['SFor %s (%s)\n%s%s' % (cstr(st.target.id), self.e(it.args[0]), ' ' * (ind + 2), self.block(st.body, ind + 2))]
        if isinstance(st, ast.Return):
            return ['SReturn (%s)' % (self.e(st.value) if st.value is not None else 'ENone')]
        raise ExtractError('%s: unsupported statement %s at line %d' % (self.fn.name, type(st).__name__, st.lineno))

    def emit(self):
        for n in ast.walk(self.fn):
            if isinstance(n, (ast.Break, ast.Continue)) :
                raise ExtractError('%s: break/continue at line %d' % (self.fn.name, n.lineno))
        defaults = self.fn.args.defaults
        nd = len(defaults)
        drows = []
        for p, d in zip(self.params[len(self.params) - nd:], defaults):
            drows.append('(%s, %s)' % (cstr(p), self.e(d)))
        return ('{| f_params := %s;\n     f_defaults := %s;\n     f_body :=\n  %s |}'
                % (clist([cstr(p) for p in self.params]), clist(drows), self.block(self.fn.body, 2)))


STUB = '(* GENERATED -- extraction FAILED (fail closed): %s *)\nDefinition extraction_failed : False := I.\n'


def gen_cfg_tr(repo, outdir):
    path = os.path.join(outdir, 'CFG_TR.v')
    try:
        src = open(os.path.join(repo, FILE)).read()
        tree = ast.parse(src)
        parts = ['(* GENERATED on every run by /verif/tools/vlib/extract_tr.py from the AST of %s in /repo -- do not edit.\n'
                 '   Vocabulary and interpreter: model/M_C01_CFG.v. *)\n'
                 'From Coq Require Import List String ZArith QArith.\nImport ListNotations.\nFrom OV.model Require Import M_C01_CFG.\n'
                 'Open Scope string_scope.\n' % FILE]
        defs = {}
        for st in tree.body:
            if isinstance(st, ast.FunctionDef):
                if st.name in defs:
                    raise ExtractError('def %s occurs twice' % st.name)
                defs[st.name] = st
        for name in FUNCS:
            if name not in defs:
                raise ExtractError('def %s not found' % name)
            parts.append('Definition cfg_%s : fundef :=\n  %s.\n' % (name, Fun(defs[name], src).emit()))
        # module-level string constants (the step-type tags); a name bound twice at module level is rejected
        consts, seen = [], set()
        for st in tree.body:
            if isinstance(st, ast.Assign):
                for t in st.targets:
                    for n in ast.walk(t):
                        if isinstance(n, ast.Name):
                            if n.id in seen:
                                raise ExtractError('module-level name %s is bound twice' % n.id)
                            seen.add(n.id)
                if len(st.targets) == 1 and isinstance(st.targets[0], ast.Name) and isinstance(st.value, ast.Constant) and isinstance(st.value.value, str):
                    consts.append('(%s, %s)' % (cstr(st.targets[0].id), cstr(st.value.value)))
        parts.append('Definition cfg_string_constants : list (string * string) :=\n  %s.\n' % clist(consts, ';\n   '))
        parts.append('Definition cfg_functions : list (string * fundef) :=\n  %s.\n'
                     % clist(['(%s, cfg_%s)' % (cstr(n), n) for n in FUNCS], ';\n   '))
        write_if_changed(path, '\n'.join(parts))
        return {'CFG_TR': (True, 'ok', path)}
    except (ExtractError, SyntaxError, OSError, ValueError) as ex:
        write_if_changed(path, STUB % str(ex).replace('*)', '* )'))
        return {'CFG_TR': (False, str(ex), path)}
