"""C02: static reference / free-name / hook-arity table of optimism/Mechanics.py, extracted from the AST on every run and written
to coq/gen/Refs_Mechanics.v (fail closed).  The Coq side decides `refs_all_ok` by computation."""
import ast
import builtins
import os

MODULE = 'optimism/Mechanics.py'
HOOK_PREFIX = 'modify_element_gradient'


def _top_names(repo, rel, seen=None):
    """names bound at the top level of optimism/<rel> (defs, classes, assignments, imports; star imports inside optimism followed)"""
    seen = seen if seen is not None else set()
    if rel in seen:
        return set()
    seen.add(rel)
    tree = ast.parse(open(os.path.join(repo, rel)).read())
    names = set()
    for n in tree.body:
        if isinstance(n, (ast.FunctionDef, ast.ClassDef, ast.AsyncFunctionDef)):
            names.add(n.name)
        elif isinstance(n, (ast.Assign, ast.AnnAssign, ast.AugAssign)):
            for t in (n.targets if isinstance(n, ast.Assign) else [n.target]):
                for m in ast.walk(t):
                    if isinstance(m, ast.Name):
                        names.add(m.id)
        elif isinstance(n, ast.Import):
            for a in n.names:
                names.add((a.asname or a.name).split('.')[0])
        elif isinstance(n, ast.ImportFrom):
            for a in n.names:
                if a.name == '*':
                    if n.module and n.module.startswith('optimism'):
                        sub = n.module.replace('.', '/') + '.py'
                        if os.path.exists(os.path.join(repo, sub)):
                            names |= _top_names(repo, sub, seen)
                else:
                    names.add(a.asname or a.name)
        elif isinstance(n, (ast.If, ast.Try)):
            for m in ast.walk(n):
                if isinstance(m, ast.Name) and isinstance(m.ctx, ast.Store):
                    names.add(m.id)
                elif isinstance(m, (ast.FunctionDef, ast.ClassDef)):
                    names.add(m.name)
    return names


def _bound_in(fn):
    """names bound anywhere inside function node fn (parameters, stores, nested defs, imports, lambda/comprehension variables)"""
    b = set()
    for m in ast.walk(fn):
        if isinstance(m, (ast.FunctionDef, ast.AsyncFunctionDef, ast.Lambda)):
            a = m.args
            for x in a.posonlyargs + a.args + a.kwonlyargs + ([a.vararg] if a.vararg else []) + ([a.kwarg] if a.kwarg else []):
                b.add(x.arg)
            if not isinstance(m, ast.Lambda):
                b.add(m.name)
        elif isinstance(m, ast.ClassDef):
            b.add(m.name)
        elif isinstance(m, ast.Name) and isinstance(m.ctx, (ast.Store, ast.Del)):
            b.add(m.id)
        elif isinstance(m, (ast.Import, ast.ImportFrom)):
            for al in m.names:
                b.add((al.asname or al.name).split('.')[0])
        elif isinstance(m, ast.ExceptHandler) and m.name:
            b.add(m.name)
    return b


def table(repo):
    src = open(os.path.join(repo, MODULE)).read()
    tree = ast.parse(src)
    # modules imported as `from optimism import X` (or `import optimism.X as X`)
    mods = {}
    for n in tree.body:
        if isinstance(n, ast.ImportFrom) and n.module == 'optimism':
            for a in n.names:
                rel = 'optimism/%s.py' % a.name
                if os.path.exists(os.path.join(repo, rel)):
                    mods[a.asname or a.name] = rel
    modnames = {k: _top_names(repo, rel) for k, rel in mods.items()}
    glob = _top_names(repo, MODULE) | set(dir(builtins))
    attr_refs = []
    for m in ast.walk(tree):
        if isinstance(m, ast.Attribute) and isinstance(m.value, ast.Name) and m.value.id in mods:
            attr_refs.append((m.value.id, m.attr, m.lineno, m.attr in modnames[m.value.id]))
    attr_refs.sort(key=lambda t: (t[2], t[0], t[1]))
    # free names: loaded names of each top-level function (with its nested functions) bound nowhere
    free = []
    for fn in tree.body:
        if isinstance(fn, (ast.FunctionDef, ast.AsyncFunctionDef)):
            bound = _bound_in(fn) | glob
            seen = set()
            for m in ast.walk(fn):
                if isinstance(m, ast.Name) and isinstance(m.ctx, ast.Load) and m.id not in bound and (m.id, m.lineno) not in seen:
                    seen.add((m.id, m.lineno))
                    free.append((fn.name, m.id, m.lineno))
    free.sort(key=lambda t: t[2])
    # hook arity: nested defs used as the element-gradient hook must take as many positional parameters as the default hook
    fs_tree = ast.parse(open(os.path.join(repo, 'optimism/FunctionSpace.py')).read())
    default = [n for n in fs_tree.body if isinstance(n, ast.FunctionDef) and n.name == 'default_modify_element_gradient']
    if not default:
        raise ValueError('FunctionSpace.default_modify_element_gradient not found')
    expected = len(default[0].args.args)
    hooks = []
    for fn in tree.body:
        if isinstance(fn, ast.FunctionDef):
            for m in ast.walk(fn):
                if isinstance(m, ast.FunctionDef) and m is not fn and m.name.startswith(HOOK_PREFIX):
                    hooks.append(('%s.%s' % (fn.name, m.name), m.lineno, len(m.args.args), expected))
    if not attr_refs:
        raise ValueError('no module attribute references found in %s' % MODULE)
    out = dict(attr_refs=attr_refs, free=free, hooks=hooks)
    out.update(_sites(tree, expected))
    return out


PP_PARAM = 'pressureProjectionDegree'
MODE_PARAM = 'mode2D'
PP_KERNEL = 'volume_average_J_gradient_transformation'
HOOK_CALL_NAMES = ('modify_element_gradient', 'grad_2D_to_3D')


def _params(fn):
    a = fn.args
    return [x.arg for x in a.posonlyargs + a.args]


def _tests_of(fn):
    """every expression evaluated for its truth value inside fn: if/while/ternary/assert tests, operands of and/or/not, comprehension filters"""
    out = []
    for m in ast.walk(fn):
        if isinstance(m, (ast.If, ast.While, ast.IfExp, ast.Assert)):
            out.append(m.test)
        elif isinstance(m, ast.comprehension):
            out.extend(m.ifs)
        elif isinstance(m, ast.BoolOp):
            out.extend(m.values)
        elif isinstance(m, ast.UnaryOp) and isinstance(m.op, ast.Not):
            out.append(m.operand)
    # and/or/not nodes themselves are represented by their operands
    return [t for t in out if not isinstance(t, ast.BoolOp) and not (isinstance(t, ast.UnaryOp) and isinstance(t.op, ast.Not))]


def _mentions(expr, name):
    return any(isinstance(m, ast.Name) and m.id == name for m in ast.walk(expr))


def _is_none_compare(t, name):
    return (isinstance(t, ast.Compare) and isinstance(t.left, ast.Name) and t.left.id == name and len(t.ops) == 1
            and isinstance(t.ops[0], (ast.Is, ast.IsNot)) and isinstance(t.comparators[0], ast.Constant) and t.comparators[0].value is None)


def _passes(call, fn_callee, pname_callee, name):
    """does `call` (to the top-level function fn_callee) pass the bare name `name` in the slot of fn_callee's parameter pname_callee?"""
    ps = _params(fn_callee)
    if pname_callee not in ps:
        return False
    i = ps.index(pname_callee)
    if i < len(call.args) and isinstance(call.args[i], ast.Name) and call.args[i].id == name:
        return True
    return any(k.arg == pname_callee and isinstance(k.value, ast.Name) and k.value.id == name for k in call.keywords)


def _sites(tree, hook_arity):
    tops = {n.name: n for n in tree.body if isinstance(n, ast.FunctionDef)}
    calls_in = lambda fn: [m for m in ast.walk(fn) if isinstance(m, ast.Call) and isinstance(m.func, ast.Name)]
    # ---- pressure-projection sites: every top-level function with a parameter pressureProjectionDegree
    pp_funcs = [fn for fn in tops.values() if PP_PARAM in _params(fn)]
    direct = {fn.name: any(c.func.id == PP_KERNEL for c in calls_in(fn)) for fn in pp_funcs}
    reaches = dict(direct)
    for _ in range(len(pp_funcs) + 1):          # closure under delegation with the parameter passed through unchanged
        for fn in pp_funcs:
            if not reaches[fn.name]:
                reaches[fn.name] = any(c.func.id in reaches and reaches[c.func.id] and c.func.id != fn.name
                                       and _passes(c, tops[c.func.id], PP_PARAM, PP_PARAM) for c in calls_in(fn))
    pp_sites = []
    for fn in pp_funcs:
        tests = [t for t in _tests_of(fn) if _mentions(t, PP_PARAM)]
        rebinds = sum(1 for m in ast.walk(fn) if isinstance(m, ast.Name) and m.id == PP_PARAM and isinstance(m.ctx, (ast.Store, ast.Del)))
        pp_sites.append((fn.name, fn.lineno, len(tests), sum(1 for t in tests if _is_none_compare(t, PP_PARAM)), rebinds, bool(reaches[fn.name]),
                         bool(direct[fn.name])))
    # ---- 2D-mode sites: every top-level function with a parameter mode2D
    mode_funcs = [fn for fn in tops.values() if MODE_PARAM in _params(fn)]

    def literals(fn):
        lits = set()
        for m in ast.walk(fn):
            if isinstance(m, ast.Compare) and isinstance(m.left, ast.Name) and m.left.id == MODE_PARAM:
                for c in m.comparators:
                    if isinstance(c, ast.Constant) and isinstance(c.value, str):
                        lits.add(c.value)
        return lits
    own = {fn.name: literals(fn) for fn in mode_funcs}
    mode_sites = []
    for fn in mode_funcs:
        deleg = any(c.func.id in own and c.func.id != fn.name and {'plane strain', 'axisymmetric'} <= own[c.func.id]
                    and _passes(c, tops[c.func.id], MODE_PARAM, MODE_PARAM) for c in calls_in(fn))
        mode_sites.append((fn.name, fn.lineno, 'plane strain' in own[fn.name], 'axisymmetric' in own[fn.name], bool(deleg)))
    # ---- call arities: every call by bare name of a top-level function of this module (no star arguments), and every call of an
    # element-gradient hook variable (must pass as many positional arguments as FunctionSpace.default_modify_element_gradient takes)
    call_arities = []
    for fn in tops.values():
        for c in calls_in(fn):
            star = any(isinstance(a, ast.Starred) for a in c.args) or any(k.arg is None for k in c.keywords)
            if c.func.id in tops and not star:
                callee = tops[c.func.id]
                ps = _params(callee)
                nreq = len(ps) - len(callee.args.defaults)
                kwnames = set(ps) | {x.arg for x in callee.args.kwonlyargs}
                kw_ok = all(k.arg in kwnames and (k.arg not in ps or ps.index(k.arg) >= len(c.args)) for k in c.keywords)
                nmax = len(ps) + len(callee.args.kwonlyargs) if not callee.args.vararg else 10 ** 6
                given = len(c.args) + len(c.keywords)
                # required parameters must be covered by the positionals or by keyword
                covered = all(i < len(c.args) or any(k.arg == p_ for k in c.keywords) for i, p_ in enumerate(ps[:nreq]))
                call_arities.append((fn.name, c.func.id, c.lineno, given, nreq if covered else given + 1, nmax, bool(kw_ok)))
            elif c.func.id in HOOK_CALL_NAMES and c.func.id not in tops and not star:
                call_arities.append((fn.name, c.func.id + ' (hook variable)', c.lineno, len(c.args) + len(c.keywords), hook_arity, hook_arity,
                                     not c.keywords))
    call_arities.sort(key=lambda t: (t[2], t[1]))
    if len([x for x in pp_sites if x[0].startswith('create_')]) < 3:
        raise ValueError('fewer than three factories with a %s parameter found in %s' % (PP_PARAM, MODULE))
    return dict(pp_sites=pp_sites, mode_sites=mode_sites, call_arities=call_arities)


def text(repo):
    t = table(repo)
    q = lambda s: '"%s"' % s
    b = lambda x: 'true' if x else 'false'
    out = ['(* GENERATED from %s (and the top-level names of the optimism modules it references) by tools/vlib/refs_c02.py -- do not edit. *)' % MODULE,
           'From Coq Require Import String List Bool Arith.', 'Import ListNotations.', 'Open Scope string_scope.', '',
           '(* (module, attribute, line, does the attribute exist at the top level of that module?) *)',
           'Definition attr_refs : list (string * string * nat * bool) :=',
           '  [ ' + '\n  ; '.join('(%s, %s, %d, %s)' % (q(m), q(a), ln, b(ok)) for (m, a, ln, ok) in t['attr_refs']) + ' ].', '',
           '(* (top-level function, name read somewhere in it, line) for names bound in no enclosing scope, module scope or builtins *)',
           'Definition free_names : list (string * string * nat) :=',
           '  [ ' + '\n  ; '.join('(%s, %s, %d)' % (q(f), q(n), ln) for (f, n, ln) in t['free']) + ' ].', '',
           '(* (site, line, positional parameters, parameters of FunctionSpace.default_modify_element_gradient) for nested element-gradient hooks *)',
           'Definition hook_arities : list (string * nat * nat * nat) :=',
           '  [ ' + '\n  ; '.join('(%s, %d, %d, %d)' % (q(s), ln, n, e) for (s, ln, n, e) in t['hooks']) + ' ].', '',
           'Definition attr_ok (r : string * string * nat * bool) : bool := snd r.',
           'Definition hook_ok (h : string * nat * nat * nat) : bool := Nat.eqb (snd (fst h)) (snd h).',
           'Definition refs_all_ok : bool :=',
           '  forallb attr_ok attr_refs && (match free_names with [] => true | _ => false end) && forallb hook_ok hook_arities.',
           'Definition broken_counts : list nat :=',
           '  [length (filter (fun r => negb (attr_ok r)) attr_refs); length free_names; length (filter (fun h => negb (hook_ok h)) hook_arities)].',
           '',
           '(* pressure-projection sites: (function with a parameter pressureProjectionDegree, line, tests that mention the parameter,',
           '   those of the form `pressureProjectionDegree is [not] None`, rebindings of the parameter, reaches',
           '   volume_average_J_gradient_transformation (directly, or by passing the parameter unchanged to a function that does), directly) *)',
           'Definition pp_sites : list (string * nat * nat * nat * nat * bool * bool) :=',
           '  [ ' + '\n  ; '.join('(%s, %d, %d, %d, %d, %s, %s)' % (q(f), ln, nt, nn, rb, b(re), b(di)) for (f, ln, nt, nn, rb, re, di) in t['pp_sites']) + ' ].', '',
           '(* 2D-mode sites: (function with a parameter mode2D, line, compares it with "plane strain", with "axisymmetric",',
           '   passes it unchanged to a function that compares it with both) *)',
           'Definition mode_sites : list (string * nat * bool * bool * bool) :=',
           '  [ ' + '\n  ; '.join('(%s, %d, %s, %s, %s)' % (q(f), ln, b(p_), b(a), b(d)) for (f, ln, p_, a, d) in t['mode_sites']) + ' ].', '',
           '(* calls inside Mechanics.py of its own top-level functions and of element-gradient hook variables:',
           '   (caller, callee, line, arguments given, fewest accepted, most accepted, keywords name parameters not already given) *)',
           'Definition call_arities : list (string * string * nat * nat * nat * nat * bool) :=',
           '  [ ' + '\n  ; '.join('(%s, %s, %d, %d, %d, %d, %s)' % (q(f), q(g), ln, n, lo, hi, b(k)) for (f, g, ln, n, lo, hi, k) in t['call_arities']) + ' ].', '',
           'Definition pp_ok (s : string * nat * nat * nat * nat * bool * bool) : bool :=',
           '  match s with (_, _, nt, nn, rb, re, _) => Nat.eqb nt nn && Nat.eqb rb 0 && re end.',
           'Definition mode_ok (s : string * nat * bool * bool * bool) : bool :=',
           '  match s with (_, _, p, a, d) => d || (p && a) end.',
           'Definition call_ok (c : string * string * nat * nat * nat * nat * bool) : bool :=',
           '  match c with (_, _, _, n, lo, hi, k) => Nat.leb lo n && Nat.leb n hi && k end.',
           'Definition sites_all_ok : bool := forallb pp_ok pp_sites && forallb mode_ok mode_sites && forallb call_ok call_arities.',
           'Definition site_broken_counts : list nat :=',
           '  [length (filter (fun s => negb (pp_ok s)) pp_sites); length (filter (fun s => negb (mode_ok s)) mode_sites);',
           '   length (filter (fun c => negb (call_ok c)) call_arities)].']
    return '\n'.join(out) + '\n', 'ok (%d attribute references, %d free names, %d hooks, %d pressure-projection sites, %d mode sites, %d calls)' % (
        len(t['attr_refs']), len(t['free']), len(t['hooks']), len(t['pp_sites']), len(t['mode_sites']), len(t['call_arities']))


def generate(repo, outdir):
    from . import extract
    path = os.path.join(outdir, 'Refs_Mechanics.v')
    try:
        txt, msg = text(repo)
        res = (True, msg, path)
    except Exception as ex:   # unreadable / unparsable source: fail closed
        m = repr(ex).replace('*)', '* )').replace('"', "'")
        txt = '(* GENERATED: cannot extract the reference table of %s: %s *)\nDefinition broken : True := 0.\n' % (MODULE, m)
        res = (False, repr(ex), path)
    extract.write_if_changed(path, txt)
    return {'Refs_Mechanics': res}
