"""C02: static reference / free-name / hook-arity table of optimism/Mechanics.py, extracted from the AST on every run and written
to coq/gen/Refs_Mechanics.v (fail closed).  The Coq side decides `refs_all_ok` by computation."""
import ast
import builtins
import os

MODULE = 'optimism/Mechanics.py'
HOOK_PREFIX = 'modify_element_gradient'


def _top_names(repo, rel, seen=None):
    """names bound at the top level of optimism/<rel> (defs, classes, assignments, imports; star imports inside optimism followed)"""
    seen = seen if seen is not None else set()
    if rel in seen:
        return set()
    seen.add(rel)
    tree = ast.parse(open(os.path.join(repo, rel)).read())
    names = set()
    for n in tree.body:
        if isinstance(n, (ast.FunctionDef, ast.ClassDef, ast.AsyncFunctionDef)):
            names.add(n.name)
        elif isinstance(n, (ast.Assign, ast.AnnAssign, ast.AugAssign)):
            for t in (n.targets if isinstance(n, ast.Assign) else [n.target]):
                for m in ast.walk(t):
                    if isinstance(m, ast.Name):
                        names.add(m.id)
        elif isinstance(n, ast.Import):
            for a in n.names:
                names.add((a.asname or a.name).split('.')[0])
        elif isinstance(n, ast.ImportFrom):
            for a in n.names:
                if a.name == '*':
                    if n.module and n.module.startswith('optimism'):
                        sub = n.module.replace('.', '/') + '.py'
                        if os.path.exists(os.path.join(repo, sub)):
                            names |= _top_names(repo, sub, seen)
                else:
                    names.add(a.asname or a.name)
        elif isinstance(n, (ast.If, ast.Try)):
            for m in ast.walk(n):
                if isinstance(m, ast.Name) and isinstance(m.ctx, ast.Store):
                    names.add(m.id)
                elif isinstance(m, (ast.FunctionDef, ast.ClassDef)):
                    names.add(m.name)
    return names


def _bound_in(fn):
    """names bound anywhere inside function node fn (parameters, stores, nested defs, imports, lambda/comprehension variables)"""
    b = set()
    for m in ast.walk(fn):
        if isinstance(m, (ast.FunctionDef, ast.AsyncFunctionDef, ast.Lambda)):
            a = m.args
            for x in a.posonlyargs + a.args + a.kwonlyargs + ([a.vararg] if a.vararg else []) + ([a.kwarg] if a.kwarg else []):
                b.add(x.arg)
            if not isinstance(m, ast.Lambda):
                b.add(m.name)
        elif isinstance(m, ast.ClassDef):
            b.add(m.name)
        elif isinstance(m, ast.Name) and isinstance(m.ctx, (ast.Store, ast.Del)):
            b.add(m.id)
        elif isinstance(m, (ast.Import, ast.ImportFrom)):
            for al in m.names:
                b.add((al.asname or al.name).split('.')[0])
        elif isinstance(m, ast.ExceptHandler) and m.name:
            b.add(m.name)
    return b


def table(repo):
    src = open(os.path.join(repo, MODULE)).read()
    tree = ast.parse(src)
    # modules imported as `from optimism import X` (or `import optimism.X as X`)
    mods = {}
    for n in tree.body:
        if isinstance(n, ast.ImportFrom) and n.module == 'optimism':
            for a in n.names:
                rel = 'optimism/%s.py' % a.name
                if os.path.exists(os.path.join(repo, rel)):
                    mods[a.asname or a.name] = rel
    modnames = {k: _top_names(repo, rel) for k, rel in mods.items()}
    glob = _top_names(repo, MODULE) | set(dir(builtins))
    attr_refs = []
    for m in ast.walk(tree):
        if isinstance(m, ast.Attribute) and isinstance(m.value, ast.Name) and m.value.id in mods:
            attr_refs.append((m.value.id, m.attr, m.lineno, m.attr in modnames[m.value.id]))
    attr_refs.sort(key=lambda t: (t[2], t[0], t[1]))
    # free names: loaded names of each top-level function (with its nested functions) bound nowhere
    free = []
    for fn in tree.body:
        if isinstance(fn, (ast.FunctionDef, ast.AsyncFunctionDef)):
            bound = _bound_in(fn) | glob
            seen = set()
            for m in ast.walk(fn):
                if isinstance(m, ast.Name) and isinstance(m.ctx, ast.Load) and m.id not in bound and (m.id, m.lineno) not in seen:
                    seen.add((m.id, m.lineno))
                    free.append((fn.name, m.id, m.lineno))
    free.sort(key=lambda t: t[2])
    # hook arity: nested defs used as the element-gradient hook must take as many positional parameters as the default hook
    fs_tree = ast.parse(open(os.path.join(repo, 'optimism/FunctionSpace.py')).read())
    default = [n for n in fs_tree.body if isinstance(n, ast.FunctionDef) and n.name == 'default_modify_element_gradient']
    if not default:
        raise ValueError('FunctionSpace.default_modify_element_gradient not found')
    expected = len(default[0].args.args)
    hooks = []
    for fn in tree.body:
        if isinstance(fn, ast.FunctionDef):
            for m in ast.walk(fn):
                if isinstance(m, ast.FunctionDef) and m is not fn and m.name.startswith(HOOK_PREFIX):
                    hooks.append(('%s.%s' % (fn.name, m.name), m.lineno, len(m.args.args), expected))
    if not attr_refs:
        raise ValueError('no module attribute references found in %s' % MODULE)
    return dict(attr_refs=attr_refs, free=free, hooks=hooks)


def text(repo):
    t = table(repo)
    q = lambda s: '"%s"' % s
    b = lambda x: 'true' if x else 'false'
    out = ['(* GENERATED from %s (and the top-level names of the optimism modules it references) by tools/vlib/refs_c02.py -- do not edit. *)' % MODULE,
           'From Coq Require Import String List Bool Arith.', 'Import ListNotations.', 'Open Scope string_scope.', '',
           '(* (module, attribute, line, does the attribute exist at the top level of that module?) *)',
           'Definition attr_refs : list (string * string * nat * bool) :=',
           '  [ ' + '\n  ; '.join('(%s, %s, %d, %s)' % (q(m), q(a), ln, b(ok)) for (m, a, ln, ok) in t['attr_refs']) + ' ].', '',
           '(* (top-level function, name read somewhere in it, line) for names bound in no enclosing scope, module scope or builtins *)',
           'Definition free_names : list (string * string * nat) :=',
           '  [ ' + '\n  ; '.join('(%s, %s, %d)' % (q(f), q(n), ln) for (f, n, ln) in t['free']) + ' ].', '',
           '(* (site, line, positional parameters, parameters of FunctionSpace.default_modify_element_gradient) for nested element-gradient hooks *)',
           'Definition hook_arities : list (string * nat * nat * nat) :=',
           '  [ ' + '\n  ; '.join('(%s, %d, %d, %d)' % (q(s), ln, n, e) for (s, ln, n, e) in t['hooks']) + ' ].', '',
           'Definition attr_ok (r : string * string * nat * bool) : bool := snd r.',
           'Definition hook_ok (h : string * nat * nat * nat) : bool := Nat.eqb (snd (fst h)) (snd h).',
           'Definition refs_all_ok : bool :=',
           '  forallb attr_ok attr_refs && (match free_names with [] => true | _ => false end) && forallb hook_ok hook_arities.',
           'Definition broken_counts : list nat :=',
           '  [length (filter (fun r => negb (attr_ok r)) attr_refs); length free_names; length (filter (fun h => negb (hook_ok h)) hook_arities)].']
    return '\n'.join(out) + '\n', 'ok (%d attribute references, %d free names, %d hooks)' % (len(t['attr_refs']), len(t['free']), len(t['hooks']))


def generate(repo, outdir):
    from . import extract
    path = os.path.join(outdir, 'Refs_Mechanics.v')
    try:
        txt, msg = text(repo)
        res = (True, msg, path)
    except Exception as ex:   # unreadable / unparsable source: fail closed
        m = repr(ex).replace('*)', '* )').replace('"', "'")
        txt = '(* GENERATED: cannot extract the reference table of %s: %s *)\nDefinition broken : True := 0.\n' % (MODULE, m)
        res = (False, repr(ex), path)
    extract.write_if_changed(path, txt)
    return {'Refs_Mechanics': res}
