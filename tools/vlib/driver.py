"""Uniform check driver: known findings -> regenerate models -> re-check theorems -> correspondence -> evidence / violation."""
import argparse
import importlib
import json
import os
import time
import traceback

from . import common as C


def main(argv):
    ap = argparse.ArgumentParser()
    ap.add_argument('prop')
    ap.add_argument('--tier', default=os.environ.get('VERIF_TIER', 'quick'), choices=['quick', 'thorough'])
    ap.add_argument('--replay', default=None)
    a = ap.parse_args(argv)
    prop = a.prop.upper()
    seed = int(os.environ.get('VERIF_SEED', '20260929'))
    ctx = C.Ctx(prop, a.tier, seed)
    mod = importlib.import_module('props.' + prop.lower())
    if a.replay:
        return mod.replay(ctx, a.replay)
    try:
        return run(ctx, mod)
    except Exception:
        # a crash of the machinery itself is not a verdict about the code; say so loudly and fail
        traceback.print_exc()
        print('CHECK-ERROR property=%s (harness crashed; no verdict)' % prop)
        return 2


def run(ctx, mod):
    prop = ctx.prop
    reasons = []       # why the property is no longer shown to hold (broken tie / proof / correspondence)
    os.makedirs(C.RUN, exist_ok=True)

    # ---- 0. source fingerprints: a changed anchored file is not a verdict, it only buys the larger exploration budget -------------
    from . import anchors
    changed_files, recorded = anchors.changed(prop, mod)
    ctx.cov['source_fingerprint'] = dict(recorded=recorded, changed_files=changed_files, files=anchors.files_of(prop, mod))
    if changed_files and ctx.tier == 'quick' and not os.environ.get('VERIF_NO_ESCALATE'):
        ctx.escalate()
        ctx.log('anchored source changed since the models were validated (%s): running correspondence/conclusion streams with the thorough budget'
                % ', '.join(changed_files))

    # ---- 1. regenerate models from /repo and rebuild the theorems ------------------------------------
    with C.BuildLock():
        gen = C.regen()
        for m in mod.GEN:
            ok, msg, _ = gen.get(m, (False, 'no such generated module', None))
            if not ok:
                reasons.append(dict(kind='translator', what='model of %s cannot be regenerated from the source: %s' % (m, msg)))
        ctx.log('regenerated %d model files (%d relevant here)' % (len(gen), len(mod.GEN)))
        rc, out, dt = C.make(mod.TARGETS, timeout=getattr(mod, 'BUILD_TIMEOUT', 1500))
        build_ok = rc == 0
        if not build_ok:
            err = [l for l in out.splitlines() if 'Error' in l or l.startswith('File ')][-12:]
            reasons.append(dict(kind='proof', what='make %s failed: %s' % (' '.join(mod.TARGETS), ' | '.join(err)[-1500:])))
        ctx.log('make %s: rc=%d in %.1fs' % (' '.join(mod.TARGETS), rc, dt))
        pfile = os.path.join(C.COQ, 'props', 'P_%s.v' % prop)
        axioms, closed, thm_names = set(), 0, []
        props_ok = False
        if build_ok:
            rc2, pout, dt2 = C.coqc(pfile, timeout=600)
            props_ok = rc2 == 0
            if not props_ok:
                reasons.append(dict(kind='proof', what='props/P_%s.v no longer checks: %s' % (prop, pout[-1500:])))
            else:
                axioms, closed = C.parse_assumptions(pout)
            ctx.log('coqc props/P_%s.v: rc=%d in %.1fs; axioms=%s' % (prop, rc2, dt2, sorted(axioms)))
    coqchk = None
    if ctx.requested_tier == 'thorough' and build_ok and props_ok and not os.environ.get('VERIF_NO_COQCHK'):
        # independent re-check of the compiled closure of the property file (separate checker binary)
        import subprocess
        t1 = time.time()
        # re-check every module of THIS development in the property's closure; the installed libraries (Coq stdlib,
        # Coquelicot, Interval, mathcomp, Flocq ...) are loaded but not re-checked (-norec), which keeps this to a minute or two.
        # No build lock: coqchk only reads .vo files.
        mods = []
        for f in list(mod.COQ_FILES) + ['gen/Gen_%s.v' % m if not m.startswith(('Tab_', 'CFG_', 'Refs')) else 'gen/%s.v' % m for m in mod.GEN]:
            d, b = os.path.split(f)
            if os.path.exists(os.path.join(C.COQ, f[:-2] + '.vo')):
                mods.append('OV.%s.%s' % (d, b[:-2]))
        args = []
        for m in sorted(set(mods)):
            args += ['-norec', m]
        p = subprocess.run(['timeout', '900', 'coqchk', '-silent', '-o'] + C.QFLAGS[:15] + args,
                           cwd=C.COQ, stdout=subprocess.PIPE, stderr=subprocess.STDOUT, text=True)
        axs = []
        if '* Axioms:' in p.stdout:
            blk = p.stdout.split('* Axioms:')[1].split('\n* ')[0]
            axs = sorted(l.strip() for l in blk.splitlines() if l.strip() and l.strip() != '<none>')
        ours = [a for a in axs if a.startswith('OV.')]
        coqchk = dict(rc=p.returncode, wall_s=round(time.time() - t1, 1), modules_rechecked=sorted(set(mods)),
                      axioms_of_loaded_libraries=axs, axioms_declared_by_this_development=ours,
                      type_in_type_none='type-in-type: <none>' in p.stdout, unsafe_fixpoints_none='unsafe (co)fixpoints: <none>' in p.stdout,
                      positivity_assumed_none='positivity is assumed: <none>' in p.stdout)
        ctx.log('coqchk -o -norec <%d OV modules>: rc=%d in %.0fs, %d library axioms/primitives, %d ours' % (len(set(mods)), p.returncode, time.time() - t1, len(axs), len(ours)))
        if p.returncode == 124:
            ctx.notes.append('coqchk did not finish within its time limit; no verdict from the independent checker on this run')
        elif p.returncode != 0 or ours:
            reasons.append(dict(kind='proof', what='coqchk rejects the compiled development or finds axioms declared by it: rc=%d %s %s' % (p.returncode, ours, p.stdout[-800:])))
    files = [os.path.join(C.COQ, f) for f in mod.COQ_FILES] + [os.path.join(C.COQ, 'gen', 'Gen_%s.v' % m) for m in mod.GEN if not m.startswith(('Tab_', 'CFG_', 'Refs'))]
    files += [os.path.join(C.COQ, 'gen', '%s.v' % m) for m in mod.GEN if m.startswith(('Tab_', 'CFG_', 'Refs'))]
    nqed, names = C.count_qed(files)
    bad = C.hygiene([f for f in files if '/gen/' not in f])
    if bad:
        reasons.append(dict(kind='hygiene', what='forbidden vernacular: ' + '; '.join(bad[:5])))
    foreign = sorted(x for x in axioms if x not in C.STD_AXIOMS and not x.startswith(C.PRIM_PREFIXES))
    if foreign:
        reasons.append(dict(kind='hygiene', what='assumptions outside the declared trusted base: ' + ', '.join(foreign)))
    _, pnames = C.count_qed([pfile])

    # ---- 2. known findings: replay each stored witness on the implementation ------------------------
    findings = [f for f in C.load_known_findings() if f['property'] == prop]
    known_lines = []
    for f in findings:
        try:
            still = mod.finding_fails(ctx, f)
        except Exception as ex:
            still = None
            ctx.notes.append('finding %s could not be replayed: %r' % (f['id'], ex))
        if f['status'] == 'open':
            if still:
                known_lines.append('KNOWN-FINDING: property=%s %s' % (prop, f['what']))
            else:
                ctx.notes.append('known finding %s no longer reproduces' % f['id'])
        elif f['status'] == 'fixed' and still:
            ctx.fail('regression', 'fixed finding %s fails again: %s' % (f['id'], f['what']), case=f.get('witness'), concrete=True)
    for l in known_lines:
        print(l)

    # ---- 3. correspondence between the executable models and the implementation ---------------------
    model_ok = build_ok and not any(r['kind'] == 'translator' for r in reasons)
    try:
        mod.correspondence(ctx, model_ok)
    except C.CoqError as ex:
        reasons.append(dict(kind='correspondence', what='model evaluation failed: %s' % str(ex)[-1200:]))
    except Exception as ex:
        # An exception that escapes the harness while the implementation is on the stack means the implementation raised on an input
        # the generators consider admissible (or returned something the comparison cannot digest).  On the unchanged tree this does not
        # happen, so when the implementation is on the stack, or the anchored source differs from the validated fingerprint, the
        # correspondence is reported as broken (the search below then looks for a concrete failing input).  Otherwise it is a harness
        # defect and no verdict is given (CHECK-ERROR).
        tb = traceback.extract_tb(ex.__traceback__)
        in_repo = [fr for fr in tb if os.path.abspath(fr.filename).startswith(os.path.abspath(C.REPO) + os.sep)]
        if not in_repo and not changed_files:
            raise
        where = ('%s:%d in %s' % (os.path.relpath(in_repo[-1].filename, C.REPO), in_repo[-1].lineno, in_repo[-1].name)) if in_repo else \
                ('%s:%d in %s' % (os.path.basename(tb[-1].filename), tb[-1].lineno, tb[-1].name))
        traceback.print_exc()
        reasons.append(dict(kind='correspondence', what='the correspondence run could not be completed: %s: %s raised at %s (%s)'
                            % (type(ex).__name__, str(ex)[:400], where,
                               'implementation raised on a generated input' if in_repo else 'harness could not digest the behaviour of the changed source'),
                            case=dict(exception=type(ex).__name__, message=str(ex)[:400], where=where,
                                      traceback=[('%s:%d %s' % (fr.filename, fr.lineno, fr.name)) for fr in tb][-12:])))
    # failures that are exactly an open known finding are not violations
    open_f = [f for f in findings if f['status'] == 'open']
    fresh = []
    for fl in ctx.failures:
        if any(mod.matches_finding(fl, f) for f in open_f):
            ctx.count('failures_matching_known_findings')
            continue
        fresh.append(fl)
    for fl in fresh:
        reasons.append(dict(kind=fl['kind'], what=fl['what'], case=fl.get('case'), concrete=fl.get('concrete', False)))

    # ---- 4. verdict --------------------------------------------------------------------------------
    violation = bool(reasons)
    replay_path = None
    if violation:
        concrete = [r for r in reasons if r.get('concrete')]
        found = None
        if not concrete:
            ctx.log('something no longer checks (%s); searching for a concrete failing input' % ', '.join(sorted({r['kind'] for r in reasons})))
            try:
                found = mod.search(ctx, reasons)
            except Exception as ex:
                ctx.notes.append('search crashed: %r' % ex)
            if found is not None and any(mod.matches_finding(found, f) for f in open_f):
                found = None
        replay = dict(property=prop, seed=ctx.seed, tier=ctx.tier, requested_tier=ctx.requested_tier, reasons=reasons,
                      failing_input=(concrete[0].get('case') if concrete else (found or {}).get('case')),
                      failing_what=(concrete[0]['what'] if concrete else (found or {}).get('what')),
                      broken=[r['what'] for r in reasons if not r.get('concrete')])
        os.makedirs(os.path.join(C.VERIF, 'replays'), exist_ok=True)
        replay_path = os.path.join(C.VERIF, 'replays', '%s_%d.json' % (prop, int(time.time())))
        C.write_json(replay_path, replay)
        tail = '' if (concrete or found) else ' no-failing-input-found'
        for r in reasons[:8]:
            print('  reason[%s]: %s' % (r['kind'], str(r['what'])[:600]))
        print('VIOLATION property=%s replay=%s%s' % (prop, replay_path, tail))

    # ---- 5. evidence --------------------------------------------------------------------------------
    discharged = nqed if (build_ok and props_ok) else 0
    cov = dict(
        obligations=max(nqed, 1), discharged=discharged,
        checker_cmd='cd /verif/coq && make -j16 %s && coqc <flags> props/P_%s.v  (Coq 8.16.1, full .vo build, vm_compute only)' % (' '.join(mod.TARGETS), prop),
        trusted_base=sorted(axioms) + list(mod.TRUSTED),
        theorems=pnames, assumptions_closed_count=closed,
        evaluations=int(ctx.counts.get('evaluations', 0)),
        distinct_nontrivial=int(ctx.counts.get('distinct_nontrivial', 0)),
        rule=getattr(mod, 'RULE', ''), samples=ctx.samples or pnames[:3],
        counts=ctx.counts, generated_models={m: gen.get(m, (False, 'missing'))[1] for m in mod.GEN},
        known_findings=known_lines, notes=ctx.notes, coqchk=coqchk, exhaustive=bool(getattr(mod, 'EXHAUSTIVE', False)),
    )
    cov.update(ctx.cov)
    ev = dict(property_id=prop, tier=ctx.requested_tier, seed=ctx.seed, level='proof', coverage=cov,
              assumptions=list(mod.ASSUMPTIONS), wall_s=round(time.time() - ctx.t0, 2), violations=1 if violation else 0)
    C.write_json(os.path.join(C.VERIF, 'evidence', '%s.json' % prop), ev)
    ctx.log('done: %s; obligations %d/%d; evaluations %d' % ('VIOLATION' if violation else 'ok', discharged, nqed, cov['evaluations']))
    return 1 if violation else 0
