"""C20 extractor (fail closed), registered in extract.GENERATORS.

gen_cfg_vtk -> coq/gen/CFG_vtk.v : the OUTPUT STRUCTURE of optimism/VTKWriter.py (vocabulary: model/M_C20_CFG.v): for `write` and
every `_write_*` method of class VTKWriter the sequence of vtkFile.write(..) events (words of the literal / format text, holes
for formatted values), tables (write_matrix_as_table), calls of other section writers, and the for / if statements that
contain output; plus the string constants assigned to self attributes in __init__ that are written verbatim.

Anything not recognised (a write whose argument cannot be resolved, a format spec other than '{}', a while loop or a `with`
around output, output in a try block, a return inside a section writer before its output...) makes the generator write a
stub that does not compile and report the reason."""
import ast
import os

from .extract import write_if_changed

STUB = '(* GENERATED -- extraction FAILED (fail closed): %s *)\nDefinition extraction_failed : False := I.\n'
FILE = 'optimism/VTKWriter.py'
HOLE = '\x00'
ATTR = '\x01'


class ExtractError(Exception):
    pass


def cstr(s):
    return '"%s"' % str(s).replace('"', '""')


def clist(items):
    return '[' + '; '.join(items) + ']'


def is_self_attr(e, name=None):
    return isinstance(e, ast.Attribute) and isinstance(e.value, ast.Name) and e.value.id == 'self' and (name is None or e.attr == name)


class Method:
    def __init__(self, fn):
        self.fn = fn
        params = [a.arg for a in fn.args.args]
        self.file_names = {p for p in params if p == 'vtkFile'}
        self.params = params
        self.assign = {}        # local name -> list of assigned value expressions
        for node in ast.walk(fn):
            if isinstance(node, ast.Assign) and len(node.targets) == 1 and isinstance(node.targets[0], ast.Name):
                self.assign.setdefault(node.targets[0].id, []).append(node.value)
            if isinstance(node, ast.Assign) and isinstance(node.value, ast.Call) and isinstance(node.value.func, ast.Name) \
                    and node.value.func.id == 'open' and isinstance(node.targets[0], ast.Name):
                self.file_names.add(node.targets[0].id)

    def where(self, node):
        return '%s line %d' % (self.fn.name, getattr(node, 'lineno', 0))

    # ---- output events
    def is_file_write(self, call):
        return (isinstance(call, ast.Call) and isinstance(call.func, ast.Attribute) and call.func.attr == 'write'
                and isinstance(call.func.value, ast.Name) and call.func.value.id in self.file_names)

    def is_self_call(self, call):
        if isinstance(call, ast.Call) and is_self_attr(call.func) and call.func.attr.startswith('_write'):
            return True
        # a module-level helper that is handed the file (e.g. write_table(vtkFile, A)) produces output too
        return (isinstance(call, ast.Call) and isinstance(call.func, ast.Name)
                and any(isinstance(a, ast.Name) and a.id in self.file_names for a in call.args))

    def has_output(self, node):
        return any(self.is_file_write(n) or self.is_self_call(n) for n in ast.walk(node))

    def resolve(self, e, depth=0):
        """a local name assigned exactly once -> its value"""
        if isinstance(e, ast.Name) and e.id in self.assign and depth < 4:
            vals = self.assign[e.id]
            if len(vals) != 1:
                raise ExtractError('%s: local %s written to the file is assigned %d times' % (self.where(e), e.id, len(vals)))
            return self.resolve(vals[0], depth + 1)
        return e

    def template(self, e):
        """text written by one vtkFile.write(e) as a template string with HOLE / ATTR<name>ATTR markers; None for a table"""
        e = self.resolve(e)
        if isinstance(e, ast.Constant) and isinstance(e.value, str):
            return e.value
        if isinstance(e, ast.BinOp) and isinstance(e.op, ast.Add):
            a, b = self.template(e.left), self.template(e.right)
            if a is None or b is None:
                raise ExtractError('%s: table concatenated with text' % self.where(e))
            return a + b
        if isinstance(e, ast.Call) and isinstance(e.func, ast.Name) and e.func.id == 'str' and len(e.args) == 1:
            return HOLE
        if is_self_attr(e):
            return ATTR + e.attr + ATTR
        if isinstance(e, ast.Call) and isinstance(e.func, ast.Attribute) and e.func.attr == 'format' \
                and isinstance(e.func.value, ast.Constant) and isinstance(e.func.value.value, str):
            fmt = e.func.value.value
            if fmt.count('{}') != len(e.args) or fmt.replace('{}', '').count('{') or fmt.replace('{}', '').count('}') or e.keywords:
                raise ExtractError('%s: format string %r with %d arguments is not a plain {} template' % (self.where(e), fmt, len(e.args)))
            return fmt.replace('{}', HOLE)
        if isinstance(e, ast.Call) and isinstance(e.func, ast.Name) and e.func.id == 'write_matrix_as_table' and len(e.args) == 1:
            return None
        raise ExtractError('%s: unrecognised argument of vtkFile.write: %s' % (self.where(e), ast.unparse(e)[:80]))

    def pieces(self, tpl):
        out = []
        for w in tpl.split():
            if w == HOLE:
                out.append('PHole')
            elif w.startswith(ATTR) and w.endswith(ATTR) and w.count(ATTR) == 2:
                out.append('PAttr %s' % cstr(w[1:-1]))
            elif HOLE in w or ATTR in w:
                raise ExtractError('%s: a formatted value is glued to other text in %r' % (self.fn.name, w))
            else:
                out.append('PText %s' % cstr(w))
        return out

    # ---- conditions
    def cond(self, e):
        e = self.resolve(e)
        if isinstance(e, ast.UnaryOp) and isinstance(e.op, ast.Not):
            return 'CNot (%s)' % self.cond(e.operand)
        if isinstance(e, ast.BoolOp):
            parts = [self.cond(v) for v in e.values]
            acc = parts[0]
            for p in parts[1:]:
                acc = '%s (%s) (%s)' % ('COr' if isinstance(e.op, ast.Or) else 'CAnd', acc, p)
            return acc
        if is_self_attr(e):
            return 'CNonEmpty %s' % cstr(e.attr)
        if isinstance(e, ast.Compare) and len(e.ops) == 1:
            l, op, r = e.left, e.ops[0], e.comparators[0]
            # len(self.x) > 0
            if isinstance(op, ast.Gt) and isinstance(r, ast.Constant) and r.value == 0 and isinstance(l, ast.Call) \
                    and isinstance(l.func, ast.Name) and l.func.id == 'len' and len(l.args) == 1 and is_self_attr(l.args[0]):
                return 'CNonEmpty %s' % cstr(l.args[0].attr)
            # fieldType == VTKFieldType.X   (fieldType resolved: fieldRecord.fieldType)
            if isinstance(op, ast.Eq) and isinstance(r, ast.Attribute) and isinstance(r.value, ast.Name) and r.value.id == 'VTKFieldType':
                ll = self.resolve(l)
                if isinstance(ll, ast.Attribute) and ll.attr == 'fieldType':
                    return 'CFieldType %s' % cstr(r.attr)
        return 'COther %s' % cstr(ast.unparse(e)[:120])

    # ---- statements
    def dict_origin(self, e):
        """the self attribute a passed dict was copied from: name = dict(self.X) (possibly updated afterwards)"""
        if isinstance(e, ast.Name) and e.id in self.assign:
            for v in self.assign[e.id]:
                if isinstance(v, ast.Call) and isinstance(v.func, ast.Name) and v.func.id == 'dict' and len(v.args) == 1 and is_self_attr(v.args[0]):
                    return v.args[0].attr
        if is_self_attr(e):
            return e.attr
        return ''

    def block(self, stmts):
        out = []
        for st in stmts:
            if not self.has_output(st):
                if isinstance(st, ast.Return) and out:
                    raise ExtractError('%s: return after output' % self.where(st))
                continue
            if isinstance(st, ast.Expr) and isinstance(st.value, ast.Call):
                call = st.value
                if self.is_file_write(call):
                    if len(call.args) != 1:
                        raise ExtractError('%s: vtkFile.write with %d arguments' % (self.where(st), len(call.args)))
                    tpl = self.template(call.args[0])
                    out.append('STable' if tpl is None else 'SWrite %s' % clist(self.pieces(tpl)))
                    continue
                if self.is_self_call(call):
                    dicts = [self.dict_origin(a) for a in call.args if not (isinstance(a, ast.Name) and a.id in self.file_names)]
                    if len(dicts) > 1:
                        raise ExtractError('%s: section writer called with %d data arguments' % (self.where(st), len(dicts)))
                    if isinstance(call.func, ast.Name):      # module-level helper: its own row describes what it writes
                        out.append('SCall %s %s' % (cstr(call.func.id), cstr('')))
                        continue
                    out.append('SCall %s %s' % (cstr(call.func.attr), cstr(dicts[0] if dicts else '')))
                    continue
            if isinstance(st, ast.For) and not st.orelse:
                it = st.iter
                over = it.attr if is_self_attr(it) else (it.id if isinstance(it, ast.Name) and it.id in self.params else None)
                if over is None:        # a loop the model has no counterpart for: kept verbatim, never equal to the model's table
                    over = 'UNMODELLED: ' + ast.unparse(it)[:80]
                out.append('SFor %s %s' % (cstr(over), self.block(st.body)))
                continue
            if isinstance(st, ast.If):
                out.append('SIf (%s) %s %s' % (self.cond(st.test), self.block(st.body), self.block(st.orelse)))
                continue
            raise ExtractError('%s: output inside an unrecognised statement (%s)' % (self.where(st), type(st).__name__))
        return clist(out)


def gen_cfg_vtk(repo, outdir):
    path = os.path.join(outdir, 'CFG_vtk.v')
    try:
        tree = ast.parse(open(os.path.join(repo, FILE)).read())
        cls = [n for n in tree.body if isinstance(n, ast.ClassDef) and n.name == 'VTKWriter']
        if len(cls) != 1:
            raise ExtractError('class VTKWriter not found')
        methods = [n for n in cls[0].body if isinstance(n, ast.FunctionDef)]
        rows = []
        for fn in methods:
            if fn.name == 'write' or fn.name.startswith('_write'):
                rows.append('(%s, %s)' % (cstr(fn.name), Method(fn).block(fn.body)))
            else:
                m = Method(fn)
                m.file_names = {'vtkFile'}
                if m.has_output(fn):
                    raise ExtractError('%s produces output' % fn.name)
        # module-level helpers that receive the file
        for fn in [n for n in tree.body if isinstance(n, ast.FunctionDef)]:
            m = Method(fn)
            if m.file_names and m.has_output(fn):
                rows.append('(%s, %s)' % (cstr(fn.name), m.block(fn.body)))
        names = [fn.name for fn in methods]
        if 'write' not in names:
            raise ExtractError('VTKWriter.write not found')
        consts = []
        init = [fn for fn in methods if fn.name == '__init__']
        for node in (ast.walk(init[0]) if init else []):
            if isinstance(node, ast.Assign) and len(node.targets) == 1 and is_self_attr(node.targets[0]) \
                    and isinstance(node.value, ast.Constant) and isinstance(node.value.value, str):
                consts.append('(%s, %s)' % (cstr(node.targets[0].attr), cstr(node.value.value)))
        # any other store to such an attribute anywhere in the class makes it non-constant
        cnames = {c.split('"')[1] for c in consts}
        for fn in methods:
            for node in ast.walk(fn):
                if isinstance(node, (ast.Assign, ast.AugAssign)) and fn.name != '__init__':
                    tg = node.targets if isinstance(node, ast.Assign) else [node.target]
                    for t in tg:
                        if is_self_attr(t) and t.attr in cnames:
                            raise ExtractError('self.%s is re-assigned in %s' % (t.attr, fn.name))
        text = ('(* GENERATED on every run by /verif/tools/vlib/extract_vtk.py from the AST of %s in /repo -- do not edit.\n'
                '   Vocabulary: model/M_C20_CFG.v. *)\n'
                'From Coq Require Import List String.\nImport ListNotations.\nFrom OV.model Require Import M_C20_CFG.\nOpen Scope string_scope.\n\n'
                'Definition cfg_vtk : cfg :=\n  [ %s ].\n\nDefinition consts_vtk : list (string * string) := %s.\n'
                % (FILE, '\n  ; '.join(rows), clist(consts)))
        write_if_changed(path, text)
        return {'CFG_vtk': (True, 'ok', path)}
    except (ExtractError, SyntaxError, OSError) as ex:
        write_if_changed(path, STUB % str(ex).replace('*)', '* )'))
        return {'CFG_vtk': (False, str(ex), path)}
