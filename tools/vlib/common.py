"""Shared harness machinery: environment, float<->(mantissa,exponent), Coq runner, build, evidence, violations."""
import fcntl
import hashlib
import json
import math
import os
import random
import re
import subprocess
import sys
import time
from concurrent.futures import ThreadPoolExecutor

VERIF = os.path.abspath(os.path.join(os.path.dirname(__file__), '..', '..'))
REPO = os.environ.get('VERIF_REPO', '/repo')
COQ = os.path.join(VERIF, 'coq')
RUN = os.path.join(COQ, 'run')
QFLAGS = ['-Q', 'base', 'OV.base', '-Q', 'gen', 'OV.gen', '-Q', 'model', 'OV.model',
          '-Q', 'proofs', 'OV.proofs', '-Q', 'props', 'OV.props',
          '-w', '-notation-overridden,-deprecated-hint-without-locality,-deprecated-instance-without-locality,-ambiguous-paths']

STD_AXIOMS = {
    'ClassicalDedekindReals.sig_not_dec', 'ClassicalDedekindReals.sig_forall_dec',
    'FunctionalExtensionality.functional_extensionality_dep', 'Classical_Prop.classic',
    'Eqdep.Eq_rect_eq.eq_rect_eq', 'ProofIrrelevance.proof_irrelevance', 'JMeq.JMeq_eq',
    'PropExtensionality.propositional_extensionality', 'ClassicalEpsilon.constructive_indefinite_description',
    'Classical_Prop.proof_irrelevance', 'ProofIrrelevanceFacts.proof_irrelevance',
}
PRIM_PREFIXES = ('PrimFloat.', 'PrimInt63.', 'Uint63.', 'FloatAxioms.', 'Sint63.', 'Uint63Axioms.', 'Int63.', 'FloatOps.',
                 'CarryType.', 'PrimArray.')


# ----------------------------------------------------------------------------- floats

def f2me(x):
    """python float -> (mantissa, exponent) ints with x == m * 2**e; specials as in Num.v fenc"""
    x = float(x)
    if x != x:
        return (0, 7777)
    if x == math.inf:
        return (1, 7778)
    if x == -math.inf:
        return (-1, 7778)
    if x == 0.0:
        return (0, 0)
    m, e = math.frexp(x)
    mi = int(m * (1 << 53))
    e -= 53
    while mi % 2 == 0:
        mi //= 2
        e += 1
    return (mi, e)


def me2f(m, e):
    if e == 7777:
        return math.nan
    if e == 7778:
        return math.inf if m > 0 else -math.inf
    try:
        return math.ldexp(float(m), e)
    except OverflowError:
        return math.inf if m > 0 else -math.inf


def cf(x):
    """Coq term of type float for python float x (exact)"""
    m, e = f2me(x)
    if e == 7777:
        return 'PrimFloat.nan'
    if e == 7778:
        return 'PrimFloat.infinity' if m > 0 else 'PrimFloat.neg_infinity'
    return '(F (%d) (%d))' % (m, e)


def cq(x):
    """Coq term of type Q for an exact python float / Fraction / int"""
    from fractions import Fraction
    fr = Fraction(x)
    n, d = fr.numerator, fr.denominator
    return '((%d) # %d)' % (n, d)


def cz(n):
    return '(%d)%%Z' % int(n)


def clist(items):
    return '[' + '; '.join(items) + ']'


def dec_floats(zs):
    """list of ints (pairs) -> list of floats"""
    return [me2f(zs[i], zs[i + 1]) for i in range(0, len(zs), 2)]


def close(a, b, rtol=1e-9, atol=1e-12):
    if a != a or b != b:
        return (a != a) and (b != b)
    if math.isinf(a) or math.isinf(b):
        return a == b
    return abs(a - b) <= atol + rtol * max(abs(a), abs(b))


def ulp(x):
    return math.ulp(x)


# ----------------------------------------------------------------------------- coq

class CoqError(Exception):
    pass


def coqc(path, timeout=300):
    t0 = time.time()
    p = subprocess.run(['timeout', str(int(timeout)), 'coqc'] + QFLAGS + [os.path.relpath(path, COQ)],
                       cwd=COQ, stdout=subprocess.PIPE, stderr=subprocess.STDOUT, text=True)
    return p.returncode, p.stdout, time.time() - t0


_ZLIST = re.compile(r'=\s*(\[.*?\])\s*:\s*list \(list Z\)', re.S)


def parse_zlists(out):
    """parse `= [[1; -2]; [3]] : list (list Z)` blocks printed by Eval vm_compute"""
    res = []
    for m in _ZLIST.finditer(out):
        txt = m.group(1).replace('%Z', '').replace(';', ',')
        txt = re.sub(r'\s+', ' ', txt)
        res += json.loads(txt)
    return res


def coq_eval(imports, exprs, tag, shard=300, timeout=600, jobs=8, preamble=''):
    """Evaluate Coq expressions of type `list Z` with vm_compute; returns list of list of int, in order.
    imports: list of 'From X Require Import Y.' lines.  Sharded over several coqc processes."""
    os.makedirs(RUN, exist_ok=True)
    shards = [exprs[i:i + shard] for i in range(0, len(exprs), shard)] or [[]]
    paths = []
    for k, sh in enumerate(shards):
        path = os.path.join(RUN, 'cases_%s_%d_%d.v' % (tag, os.getpid(), k))
        with open(path, 'w') as fh:
            fh.write('From Coq Require Import ZArith QArith List Floats.PrimFloat.\nImport ListNotations.\n')
            fh.write('From OV.base Require Import Num.\n')
            fh.write('\n'.join(imports) + '\n')
            fh.write('Set Printing Width 1000000.\nSet Printing Depth 10000000.\nOpen Scope Z_scope.\n')
            fh.write(preamble + '\n')
            fh.write('Definition results : list (list Z) :=\n  [ ' + '\n  ; '.join(sh) + ' ].\n')
            fh.write('Eval vm_compute in results.\n')
        paths.append(path)

    def one(path):
        rc, out, dt = coqc(path, timeout)
        return rc, out

    with ThreadPoolExecutor(max_workers=jobs) as ex:
        outs = list(ex.map(one, paths))
    res = []
    for (rc, out), path, sh in zip(outs, paths, shards):
        if rc != 0:
            raise CoqError('coqc failed on %s (rc=%d):\n%s' % (path, rc, out[-3000:]))
        r = parse_zlists(out)
        if len(r) != len(sh):
            raise CoqError('expected %d results from %s, parsed %d\n%s' % (len(sh), path, len(r), out[-2000:]))
        res += r
    for path in paths:
        for ext in ('.v', '.vo', '.vok', '.vos', '.glob'):
            try:
                os.remove(path[:-2] + ext)
            except OSError:
                pass
        try:
            os.remove(os.path.join(RUN, '.' + os.path.basename(path)[:-2] + '.aux'))
        except OSError:
            pass
    return res


class BuildLock:
    def __enter__(self):
        self.fh = open(os.path.join(VERIF, '.build.lock'), 'w')
        fcntl.flock(self.fh, fcntl.LOCK_EX)
        return self

    def __exit__(self, *a):
        fcntl.flock(self.fh, fcntl.LOCK_UN)
        self.fh.close()


def regen():
    """re-translate every kernel from REPO's working tree; returns dict module -> (ok, msg, path)"""
    sys.path.insert(0, os.path.join(VERIF, 'tools'))
    from vlib import py2coq, kernels
    os.makedirs(os.path.join(COQ, 'gen'), exist_ok=True)
    res = py2coq.generate(REPO, kernels.SPECS, os.path.join(COQ, 'gen'))
    from vlib import extract
    res.update(extract.generate_all(REPO, os.path.join(COQ, 'gen')))
    subprocess.run([os.path.join(VERIF, 'tools', 'mkproject.sh')], check=True)
    return res


def make(targets, timeout=1800, jobs=16):
    t0 = time.time()
    p = subprocess.run(['timeout', str(int(timeout)), 'make', '-j%d' % jobs, '-k'] + targets, cwd=COQ,
                       stdout=subprocess.PIPE, stderr=subprocess.STDOUT, text=True)
    return p.returncode, p.stdout, time.time() - t0


_AX = re.compile(r'^([A-Za-z_][\w\.\']*)\s*$|^([A-Za-z_][\w\.\']*)\s+:', re.M)


def parse_assumptions(out):
    """-> (set of axiom names, closed_count)"""
    axioms = set()
    closed = out.count('Closed under the global context')
    for block in re.split(r'^Axioms:\s*$', out, flags=re.M)[1:]:
        for line in block.splitlines():
            if not line or line[0].isspace():
                continue
            m = re.match(r'^([A-Za-z_][\w\.\']*)', line)
            if m and not line.startswith(('File ', 'Warning', 'Closed')):
                axioms.add(m.group(1))
            elif line.startswith('Closed'):
                break
    return axioms, closed


def count_qed(paths):
    n = 0
    names = []
    for p in paths:
        try:
            txt = open(p).read()
        except OSError:
            continue
        txt = re.sub(r'\(\*.*?\*\)', '', txt, flags=re.S)
        for m in re.finditer(r'^\s*(?:Local\s+|Global\s+)?(Theorem|Lemma|Corollary|Example|Proposition|Fact|Remark)\s+([\w\']+)', txt, re.M):
            names.append(os.path.basename(p) + ':' + m.group(2))
        n += len(re.findall(r'\bQed\.', txt))
    return n, names


FORBIDDEN = re.compile(r'\b(Admitted|admit|Axiom|Axioms|Parameter|Parameters|Conjecture|Conjectures|Hypothesis|Hypotheses|Variable|Variables)\b'
                       r'|Unset\s+Guard|bypass_check|type-in-type|impredicative-set|Admit\s+Obligations|Unset\s+Universe\s+Checking|Unset\s+Positivity')


def hygiene(paths):
    """forbidden vernac outside sections.  Variable/Hypothesis are allowed only inside a Section."""
    bad = []
    for p in paths:
        try:
            txt = open(p).read()
        except OSError:
            continue
        txt = re.sub(r'\(\*.*?\*\)', lambda m: '\n' * m.group(0).count('\n'), txt, flags=re.S)
        depth = 0
        for i, line in enumerate(txt.splitlines(), 1):
            if re.match(r'^\s*(Section|Module(\s+Type)?)\s+\w+\s*\.', line) and ':=' not in line:
                if line.strip().startswith('Section'):
                    depth += 1
            if re.match(r'^\s*End\s+\w+\s*\.', line) and depth > 0:
                depth -= 1
            for m in FORBIDDEN.finditer(line):
                w = m.group(0)
                if w in ('Hypothesis', 'Hypotheses', 'Variable', 'Variables') and depth > 0:
                    continue
                bad.append('%s:%d: %s' % (p, i, w))
    return bad


# ----------------------------------------------------------------------------- run context

class Ctx:
    def __init__(self, prop, tier, seed):
        self.prop, self.tier, self.seed = prop, tier, seed
        self.requested_tier = tier     # what the command line asked for; `tier` is the exploration budget actually used
        self.escalated = False
        self.t0 = time.time()
        self.cov = {}
        self.notes = []
        self.failures = []     # list of dict(kind, what, case, concrete(bool))
        self.samples = []
        self.counts = {}
        self.assumptions = []

    def rng(self, stream):
        h = hashlib.sha256(('%s|%s|%d' % (self.prop, stream, self.seed)).encode()).digest()
        return random.Random(int.from_bytes(h[:8], 'big'))

    def escalate(self):
        """use the thorough exploration budget although the quick tier was requested (anchored source changed)"""
        self.escalated = True
        self.tier = 'thorough'

    def quick(self):
        return self.tier == 'quick'

    def n(self, quick, thorough):
        return quick if self.tier == 'quick' else thorough

    def count(self, key, k=1):
        self.counts[key] = self.counts.get(key, 0) + k

    def sample(self, s, limit=6):
        if len(self.samples) < limit:
            self.samples.append(s)

    def fail(self, kind, what, case=None, concrete=False):
        self.failures.append(dict(kind=kind, what=what, case=case, concrete=concrete))

    def guarded(self, what, case):
        """context manager: an exception raised while the implementation is on the stack, on an input the property's quantifier admits,
        is a concrete failure of the property on that input (the code under test did not deliver the promised result); exceptions of the
        harness itself propagate.  Use around calls of the implementation that must succeed on admissible inputs."""
        import contextlib
        import traceback as _tb

        @contextlib.contextmanager
        def cm():
            try:
                yield
            except Exception as ex:
                tb = _tb.extract_tb(ex.__traceback__)
                inrepo = [fr for fr in tb if os.path.abspath(fr.filename).startswith(os.path.abspath(REPO) + os.sep)]
                if not inrepo:
                    raise
                fr = inrepo[-1]
                self.fail('conclusion', '%s: the implementation raised %s: %s at %s:%d (%s) on an admissible input'
                          % (what, type(ex).__name__, str(ex)[:300], os.path.relpath(fr.filename, REPO), fr.lineno, fr.name),
                          case=case, concrete=True)
        return cm()

    def log(self, *a):
        print('[%s %6.1fs]' % (self.prop, time.time() - self.t0), *a, flush=True)


def write_json(path, obj):
    os.makedirs(os.path.dirname(path), exist_ok=True)
    tmp = path + '.tmp'
    with open(tmp, 'w') as fh:
        json.dump(obj, fh, indent=1, default=str)
    os.replace(tmp, path)


def load_known_findings():
    p = os.path.join(VERIF, 'known_findings.json')
    if not os.path.exists(p):
        return []
    out = json.load(open(p))['findings']
    import glob
    for q in sorted(glob.glob(os.path.join(VERIF, 'known_findings.d', '*.json'))):
        out += json.load(open(q))['findings']
    return out
