"""C15 extractor (fail closed), registered in extract.GENERATORS.

generate -> coq/gen/CFG_c15.v : the STORE STRUCTURE of the nested functions `predict` and `correct` of
optimism/Mechanics.py:create_dynamics_functions (vocabulary: model/M_C15_Purity.v) -- for each function its parameters, the
sequence of its statements as  x = y (alias) | x = <side-effect-free expression> | x += <side-effect-free expression>, the
names it returns, and whether the DynamicsFunctions(...) constructor call of the factory hands the function out wrapped in
jit(...) (field position looked up in the class definition).  The arithmetic of the expressions is NOT part of this table
(that is gen/Gen_Mechanics.v); only where results are stored.

Anything not recognised -- a statement other than the three forms / a final return of names, a subscript or attribute store,
a call of anything but a function of the array module `np` (jax.numpy, from JaxConfig) or a few pure builtins, a method call
on an array, a nested def / loop / branch, a `global`/`nonlocal`, the constructor argument being neither `f` nor `jit(f)` --
makes the generator write a stub that does not compile and report the reason."""
import ast
import os

from .extract import write_if_changed

FILE = 'optimism/Mechanics.py'
MODULE = 'CFG_c15'
FACTORY = 'create_dynamics_functions'
CLASS = 'DynamicsFunctions'
FUNCS = ('predict', 'correct')
PURE_BUILTINS = {'abs', 'float', 'min', 'max'}
ARRAY_MODULES = {'np', 'jnp'}
JIT_NAMES = {'jit'}


class ExtractError(Exception):
    pass


def cstr(s):
    return '"%s"' % str(s).replace('"', '""')


def clist(items):
    return '[' + '; '.join(items) + ']'


def reads_of(e, where):
    """names read by a side-effect-free expression, in source order; raises on anything that could have an effect"""
    out = []

    def go(n):
        if isinstance(n, ast.Name):
            out.append(n.id)
        elif isinstance(n, ast.Constant):
            if not isinstance(n.value, (int, float, bool)):
                raise ExtractError('%s: constant %r in an array expression' % (where, n.value))
        elif isinstance(n, ast.BinOp):
            go(n.left)
            go(n.right)
        elif isinstance(n, ast.UnaryOp):
            go(n.operand)
        elif isinstance(n, ast.Compare):
            go(n.left)
            for c in n.comparators:
                go(c)
        elif isinstance(n, ast.Attribute):
            # attribute READ of a (pure) value: newmarkParameters.beta, np.finfo(..).eps, x.shape, x.dtype
            if isinstance(n.value, ast.Name) and n.value.id in ARRAY_MODULES:
                return            # a constant of the array module (np.pi, np.inf)
            go(n.value)
        elif isinstance(n, ast.Call):
            f = n.func
            ok = (isinstance(f, ast.Attribute) and isinstance(f.value, ast.Name) and f.value.id in ARRAY_MODULES) or \
                 (isinstance(f, ast.Name) and f.id in PURE_BUILTINS)
            if not ok:
                raise ExtractError('%s: call of %s (only functions of the array module np / pure builtins are known to be free of side effects)'
                                   % (where, ast.unparse(f)))
            if any(k.arg == 'out' for k in n.keywords):
                raise ExtractError('%s: call with out= (writes into an existing array)' % where)
            for a in n.args:
                if isinstance(a, ast.Starred):
                    raise ExtractError('%s: starred argument' % where)
                go(a)
            for k in n.keywords:
                go(k.value)
        elif isinstance(n, ast.Tuple):
            for x in n.elts:
                go(x)
        else:
            raise ExtractError('%s: unsupported expression %s' % (where, type(n).__name__))
    go(e)
    return out


def fn_table(fn):
    a = fn.args
    if a.vararg or a.kwarg or a.kwonlyargs or a.posonlyargs or a.defaults:
        raise ExtractError('%s: parameters other than plain positional ones' % fn.name)
    params = [x.arg for x in a.args]
    stmts, ret = [], None
    body = list(fn.body)
    if body and isinstance(body[0], ast.Expr) and isinstance(body[0].value, ast.Constant) and isinstance(body[0].value.value, str):
        body = body[1:]          # docstring
    for i, s in enumerate(body):
        where = '%s line %d' % (fn.name, s.lineno)
        if ret is not None:
            raise ExtractError('%s: statement after return' % where)
        if isinstance(s, ast.AugAssign):
            if not isinstance(s.target, ast.Name):
                raise ExtractError('%s: augmented assignment to %s (in-place store into part of an object)' % (where, ast.unparse(s.target)))
            stmts.append('SAug %s %s' % (cstr(s.target.id), clist(cstr(x) for x in reads_of(s.value, where))))
        elif isinstance(s, ast.Assign):
            if len(s.targets) != 1 or not isinstance(s.targets[0], ast.Name):
                raise ExtractError('%s: assignment target %s is not a plain name' % (where, ', '.join(ast.unparse(t) for t in s.targets)))
            x = s.targets[0].id
            if isinstance(s.value, ast.Name):
                stmts.append('SAssign %s (RAlias %s)' % (cstr(x), cstr(s.value.id)))
            else:
                stmts.append('SAssign %s (RExpr %s)' % (cstr(x), clist(cstr(y) for y in reads_of(s.value, where))))
        elif isinstance(s, ast.Return):
            v = s.value
            elts = v.elts if isinstance(v, ast.Tuple) else [v]
            if v is None or not all(isinstance(e, ast.Name) for e in elts):
                raise ExtractError('%s: return of something other than names' % where)
            ret = [e.id for e in elts]
        else:
            raise ExtractError('%s: unsupported statement %s' % (where, type(s).__name__))
    if ret is None:
        raise ExtractError('%s: no return' % fn.name)
    return 'mkFn %s\n    %s\n    %s' % (clist(cstr(p) for p in params), clist(stmts), clist(cstr(r) for r in ret))


def analyse(src):
    tree = ast.parse(src)
    cls = [n for n in tree.body if isinstance(n, ast.ClassDef) and n.name == CLASS]
    fac = [n for n in tree.body if isinstance(n, ast.FunctionDef) and n.name == FACTORY]
    if len(cls) != 1 or len(fac) != 1:
        raise ExtractError('class %s / function %s not found exactly once' % (CLASS, FACTORY))
    fields = [s.target.id for s in cls[0].body if isinstance(s, ast.AnnAssign) and isinstance(s.target, ast.Name)]
    if any(isinstance(s, ast.FunctionDef) and s.name in ('__init__', '__post_init__', '__new__') for s in cls[0].body):
        raise ExtractError('class %s defines its own constructor: field positions unknown' % CLASS)
    fac = fac[0]
    defs = {}
    for n in ast.walk(fac):
        if isinstance(n, ast.FunctionDef) and n.name in FUNCS:
            if n.name in defs:
                raise ExtractError('%s defined twice in %s' % (n.name, FACTORY))
            if n not in fac.body:
                raise ExtractError('%s is not defined at the top level of %s' % (n.name, FACTORY))
            if n.decorator_list:
                raise ExtractError('%s has decorators' % n.name)
            defs[n.name] = n
    # the names must not be rebound anywhere else in the factory (assignment / import / second def)
    for n in ast.walk(fac):
        if isinstance(n, (ast.Assign, ast.AugAssign, ast.AnnAssign)):
            tg = n.targets if isinstance(n, ast.Assign) else [n.target]
            for t in tg:
                for m in ast.walk(t):
                    if isinstance(m, ast.Name) and m.id in FUNCS + tuple(JIT_NAMES):
                        raise ExtractError('%s is rebound in %s (line %d)' % (m.id, FACTORY, n.lineno))
    rets = [s for s in fac.body if isinstance(s, ast.Return)]
    if len(rets) != 1 or not (isinstance(rets[0].value, ast.Call) and isinstance(rets[0].value.func, ast.Name) and rets[0].value.func.id == CLASS):
        raise ExtractError('%s does not end in a single `return %s(...)`' % (FACTORY, CLASS))
    call = rets[0].value
    out = {}
    for name in FUNCS:
        if name not in defs:
            raise ExtractError('nested function %s not found in %s' % (name, FACTORY))
        if name not in fields:
            raise ExtractError('class %s has no field %s' % (CLASS, name))
        pos = fields.index(name)
        arg = None
        kw = [k for k in call.keywords if k.arg == name]
        if kw:
            arg = kw[0].value
        elif pos < len(call.args) and not any(isinstance(a, ast.Starred) for a in call.args):
            arg = call.args[pos]
        if arg is None:
            raise ExtractError('constructor argument for field %s not found' % name)
        if isinstance(arg, ast.Name) and arg.id == name:
            wrapped = False
        elif isinstance(arg, ast.Call) and len(arg.args) == 1 and not arg.keywords and isinstance(arg.args[0], ast.Name) and arg.args[0].id == name and \
                ((isinstance(arg.func, ast.Name) and arg.func.id in JIT_NAMES) or
                 (isinstance(arg.func, ast.Attribute) and arg.func.attr == 'jit' and isinstance(arg.func.value, ast.Name) and arg.func.value.id == 'jax')):
            wrapped = True
        else:
            raise ExtractError('field %s of %s is built from %s: neither %s nor jit(%s)' % (name, CLASS, ast.unparse(arg), name, name))
        out[name] = (fn_table(defs[name]), wrapped)
    return out


def generate(repo, outdir):
    path = os.path.join(outdir, MODULE + '.v')
    try:
        info = analyse(open(os.path.join(repo, FILE)).read())
        text = ('(* GENERATED by tools/vlib/extract_c15.py from %s (%s.predict / correct: store structure and jit wrapping). Do not edit. *)\n'
                'From Coq Require Import String List.\nFrom OV.model Require Import M_C15_Purity.\nImport ListNotations.\nLocal Open Scope string_scope.\n\n'
                % (FILE, FACTORY))
        for name in FUNCS:
            tab, wrapped = info[name]
            text += 'Definition c15_%s : fn :=\n  %s.\nDefinition c15_%s_wrapped : bool := %s.\n\n' % (name, tab, name, 'true' if wrapped else 'false')
        res = (True, 'ok', path)
    except ExtractError as ex:
        msg = str(ex).replace('*)', '* )').replace('"', "'")
        text = '(* GENERATED -- extraction FAILED (fail closed): %s *)\nDefinition extraction_failed : False := I.\n' % msg
        res = (False, str(ex), path)
    except Exception as ex:      # unreadable / unparsable source or an internal error: fail closed
        text = '(* GENERATED -- cannot read/parse %s: %s *)\nDefinition extraction_failed : False := I.\n' % (FILE, str(ex).replace('*)', ''))
        res = (False, str(ex), path)
    write_if_changed(path, text)
    return {MODULE: res}
