"""py2coq: fail-closed translator from a small pure subset of Python/JAX (optimism kernels) to Gallina.

Every function is translated to a Definition over an abstract numeric type T with a `Num T` instance
(see coq/base/Num.v).  Arrays of fixed small shape are expanded to scalars at translation time, so the
Coq side only ever sees scalars, booleans, lets, ifs and tuples of scalars.

Anything outside the whitelist raises TranslateError: the caller treats that as "the tie between model
and source is broken" (never as success).
"""
import ast
import os
import re
from decimal import Decimal
from fractions import Fraction


class TranslateError(Exception):
    pass


# ----------------------------------------------------------------------------- symbolic values

class Val:
    """kind: 'S' scalar number, 'B' boolean.  shape: tuple of ints.  data: nested lists of Coq terms (str)."""

    def __init__(self, kind, shape, data):
        self.kind, self.shape, self.data = kind, tuple(shape), data

    def flat(self):
        def rec(d, depth):
            if depth == 0:
                return [d]
            out = []
            for x in d:
                out += rec(x, depth - 1)
            return out
        return rec(self.data, len(self.shape))

    @staticmethod
    def from_flat(kind, shape, flat):
        it = iter(flat)

        def rec(sh):
            if not sh:
                return next(it)
            return [rec(sh[1:]) for _ in range(sh[0])]
        return Val(kind, shape, rec(tuple(shape)))

    def index(self, i):
        if not self.shape:
            raise TranslateError('indexing a scalar')
        n = self.shape[0]
        if i < 0:
            i += n
        if not (0 <= i < n):
            raise TranslateError('index %d out of range %d' % (i, n))
        return Val(self.kind, self.shape[1:], self.data[i])


class TupleVal:
    def __init__(self, items):
        self.items = list(items)


class IdxVal:
    """data-dependent position in a 2-vector (an entry of argsort's result): `hi` if the Coq boolean `cond` holds, else `lo`."""

    def __init__(self, cond, hi, lo):
        self.cond, self.hi, self.lo = cond, hi, lo


def scalar(term):
    return Val('S', (), term)


def boolean(term):
    return Val('B', (), term)


def parse_shape(s):
    """'S' | 'B' | 'V2' | 'V3' | 'M22' | 'M33' | 'A2x3x2' | 'NT(a:S,b:V2)' | 'TUP(S,V2)'"""
    s = s.strip()
    if s == 'S':
        return ('S', ())
    if s == 'B':
        return ('B', ())
    m = re.fullmatch(r'V(\d+)', s)
    if m:
        return ('S', (int(m.group(1)),))
    m = re.fullmatch(r'M(\d)(\d)', s)
    if m:
        return ('S', (int(m.group(1)), int(m.group(2))))
    m = re.fullmatch(r'A(\d+(?:x\d+)*)', s)
    if m:
        return ('S', tuple(int(x) for x in m.group(1).split('x')))
    raise TranslateError('bad shape spec ' + s)


def split_top(s):
    out, depth, cur = [], 0, ''
    for ch in s:
        if ch == '(':
            depth += 1
        if ch == ')':
            depth -= 1
        if ch == ',' and depth == 0:
            out.append(cur)
            cur = ''
        else:
            cur += ch
    if cur.strip():
        out.append(cur)
    return [x.strip() for x in out]


RESERVED = set("""T NT at in as fun end return forall exists match with let if then else Type Set Prop fix cofix
where using for nzero nunit ntwo nhalf true false nil cons list bool nat Z Q R S O pair fst snd I mod""".split())


def san(name):
    if name in RESERVED or name.startswith('n') and name[1:] in ('add', 'sub', 'mul', 'div', 'opp', 'abs', 'sqrt', 'exp', 'ln', 'ltb', 'leb', 'eqb', 'const', 'min', 'max', 'sign', 'pow', 'powr', 'sq', 'sum', 'dot', 'Z'):
        return name + '_v'
    return name


def names_for(base, shape):
    """flattened coq identifiers for an array called base"""
    base = san(base)
    if not shape:
        return [base]
    out = []

    def rec(prefix, sh):
        if not sh:
            out.append(prefix)
            return
        for i in range(sh[0]):
            rec(prefix + '_' + str(i), sh[1:])
    rec(base + '_', shape)
    return out


def lit(text):
    """exact decimal text -> nconst term"""
    t = text.strip().rstrip('jJ')
    try:
        d = Decimal(t)
    except Exception:
        raise TranslateError('bad numeric literal ' + text)
    fr = Fraction(d)
    fl = float(t)
    if fl != fl or fl in (float('inf'), float('-inf')):
        raise TranslateError('non-finite literal')
    if fl == 0.0:
        m, e = 0, 0
    else:
        mant, ex = fl.hex().split('p')
        neg = mant.startswith('-')
        mant = mant.lstrip('-')[2:]
        ip, _, fp = mant.partition('.')
        m = int(ip + fp, 16)
        e = int(ex) - 4 * len(fp)
        while m % 2 == 0 and m != 0:
            m //= 2
            e += 1
        if neg:
            m = -m
    num, den = fr.numerator, fr.denominator
    qs = '(%s # %d)' % (('(%d)' % num) if num < 0 else str(num), den)
    return '(nconst %s ((%d)%%Z, (%d)%%Z))' % (qs, m, e)


# ----------------------------------------------------------------------------- translator

class Module:
    def __init__(self, name, path, aliases=None):
        self.name, self.path = name, path
        self.aliases = aliases or {}
        self.consts = {}     # name -> coq term name
        self.funcs = {}      # name -> FuncInfo
        self.order = []      # emission order of ('const'|'func', name, text)


class FuncInfo:
    def __init__(self, module, name, params, ret):
        self.module, self.name, self.params, self.ret = module, name, params, ret
        # params: list of (pyname, spec) ; ret: list of (kind, shape) flattened outputs (structure)


NP_ALIASES = {'np', 'jnp', 'numpy', 'onp'}


class Translator:
    def __init__(self, repo):
        self.repo = repo
        self.modules = {}    # module name -> Module
        self.counter = 0

    # -- registry
    def coq_name(self, modname, fname):
        return fname if fname not in ('min', 'max', 'abs', 'sum', 'dot', 'inv', 'det', 'exp', 'log', 'sqrt', 'trace', 'cross') \
            else modname[0].lower() + '_' + fname

    def fresh(self, base='t'):
        self.counter += 1
        return '%s__%d' % (base, self.counter)

    # -- entry
    def translate_module(self, spec):
        """spec: dict(name, file, consts=[...], funcs=[(qualname, [param specs], optional dict)], aliases={alias: module})"""
        path = os.path.join(self.repo, spec['file'])
        src = open(path).read()
        tree = ast.parse(src)
        mod = Module(spec['name'], spec['file'], spec.get('aliases', {}))
        self.modules[spec['name']] = mod
        self.src = src
        # module-level integer and slice(a,b) constants (usable as literal indices; C08)
        mod.intconsts, mod.sliceconsts = {}, {}
        for st in tree.body:
            if isinstance(st, ast.Assign) and len(st.targets) == 1 and isinstance(st.targets[0], ast.Name):
                tv = st.value
                if isinstance(tv, ast.Constant) and isinstance(tv.value, int) and not isinstance(tv.value, bool):
                    mod.intconsts[st.targets[0].id] = tv.value
                elif isinstance(tv, ast.UnaryOp) and isinstance(tv.op, ast.USub) and isinstance(tv.operand, ast.Constant) \
                        and isinstance(tv.operand.value, int):
                    mod.intconsts[st.targets[0].id] = -tv.operand.value
                elif isinstance(tv, ast.Name) and tv.id in mod.sliceconsts:
                    mod.sliceconsts[st.targets[0].id] = mod.sliceconsts[tv.id]
                elif isinstance(tv, ast.Call) and isinstance(tv.func, ast.Name) and tv.func.id == 'slice' and len(tv.args) == 2:
                    self.mod = mod
                    self.env = {}
                    lo, hi = self.const_int(tv.args[0]), self.const_int(tv.args[1])
                    if lo is not None and hi is not None:
                        mod.sliceconsts[st.targets[0].id] = (lo, hi)
        out = []
        for cname in spec.get('consts', []):
            node = None
            for st in tree.body:
                if isinstance(st, ast.Assign) and len(st.targets) == 1 and isinstance(st.targets[0], ast.Name) \
                        and st.targets[0].id == cname:
                    node = st
            if node is None:
                raise TranslateError('%s: constant %s not found' % (spec['file'], cname))
            self.mod = mod
            self.env = {}
            self.pre = []
            v = self.expr(node.value)
            if not isinstance(v, Val) or v.shape != ():
                raise TranslateError('constant %s is not scalar' % cname)
            cq = 'c_' + cname
            mod.consts[cname] = cq
            out.append('Definition %s : T := %s.' % (cq, v.data))
        for f in spec['funcs']:
            qual, pspecs = f[0], f[1]
            opts = f[2] if len(f) > 2 else {}
            fnode = self.find_def(tree, qual)
            if 'extract' in opts:     # one assignment statement inside a non-translatable function, as a kernel of its own (C05)
                fnode, qual = self.extract_stmt(fnode, qual, opts), opts['coq_name']
            out.append(self.translate_func(mod, qual, fnode, pspecs, opts))
        return mod, out

    def extract_stmt(self, fnode, qual, opts):
        """opts['extract'] = dict(target=<name>, index=k, count=m, params=[names]): the function must contain exactly m plain
        assignments `<target> = ...` (source order); the k-th becomes `def <coq_name>(params): <target> = ...; return <target>`."""
        ex = opts['extract']
        tgt = ex['target']

        def dotted(n):
            parts = []
            while isinstance(n, ast.Attribute):
                parts.append(n.attr)
                n = n.value
            return '.'.join([n.id] + parts[::-1]) if isinstance(n, ast.Name) else None
        # a dotted target (`obj.field = ...`, C04) matches attribute stores; a plain one matches name stores only
        found = sorted((n for n in ast.walk(fnode) if isinstance(n, ast.Assign) and len(n.targets) == 1
                        and ((isinstance(n.targets[0], ast.Name) and n.targets[0].id == tgt)
                             or ('.' in tgt and isinstance(n.targets[0], ast.Attribute) and dotted(n.targets[0]) == tgt))),
                       key=lambda n: (n.lineno, n.col_offset))
        if len(found) != ex['count']:
            raise TranslateError('%s: expected %d assignments to %s, found %d' % (qual, ex['count'], tgt, len(found)))
        src = 'def %s(%s):\n    pass\n' % (opts['coq_name'], ', '.join(ex['params']))
        fn = ast.parse(src).body[0]
        stmt = found[ex['index']]
        ret = tgt
        if ex.get('attrs') or ex.get('lens') or ex.get('masked_set'):
            # statement-level rewrites (C04; all exact for the elementwise reading of a vectorised statement):
            #   attrs      {'obj.field': name}   reads/stores of that attribute become the local/parameter `name`
            #   lens       {'v': name}           len(v) becomes the scalar parameter `name` (the vector itself is read elementwise)
            #   masked_set True                  X.at[M].set(V) becomes np.where(M, V', X), V' = V with X[M] replaced by X
            #                                    (same X and M syntactically; X, M, V of one shape)
            attrs, lens = ex.get('attrs', {}), ex.get('lens', {})
            import copy
            stmt = copy.deepcopy(stmt)

            class RW(ast.NodeTransformer):
                def visit_Attribute(self, n):
                    d = dotted(n)
                    if d in attrs:
                        return ast.copy_location(ast.Name(id=attrs[d], ctx=n.ctx), n)
                    return self.generic_visit(n)

                def visit_Call(self, n):
                    if isinstance(n.func, ast.Name) and n.func.id == 'len' and len(n.args) == 1 and not n.keywords \
                            and isinstance(n.args[0], ast.Name) and n.args[0].id in lens:
                        return ast.copy_location(ast.Name(id=lens[n.args[0].id], ctx=ast.Load()), n)
                    f = n.func
                    if ex.get('masked_set') and isinstance(f, ast.Attribute) and f.attr == 'set' and isinstance(f.value, ast.Subscript) \
                            and isinstance(f.value.value, ast.Attribute) and f.value.value.attr == 'at' and len(n.args) == 1 and not n.keywords:
                        X, Mk = f.value.value.value, f.value.slice
                        xd, md = ast.dump(X), ast.dump(Mk)

                        class Sub(ast.NodeTransformer):
                            def visit_Subscript(self, m):
                                if ast.dump(m.value) == xd and ast.dump(m.slice) == md:
                                    return copy.deepcopy(X)
                                return self.generic_visit(m)
                        V = Sub().visit(copy.deepcopy(n.args[0]))
                        w = ast.parse('np.where(a, b, c)').body[0].value
                        w.args = [self.visit(copy.deepcopy(Mk)), self.visit(V), self.visit(copy.deepcopy(X))]
                        return ast.copy_location(w, n)
                    return self.generic_visit(n)
            stmt = ast.fix_missing_locations(RW().visit(stmt))
            ret = attrs.get(tgt, tgt)
            if '.' in ret:
                raise TranslateError('%s: extract target %s is an attribute without a local name in attrs' % (qual, tgt))
        elif '.' in tgt:
            raise TranslateError('%s: extract target %s is an attribute without a local name in attrs' % (qual, tgt))
        fn.body = [stmt, ast.Return(value=ast.Name(id=ret, ctx=ast.Load()))]
        return ast.fix_missing_locations(fn)

    def find_def(self, tree, qual):
        parts = qual.split('.')
        body = tree.body
        node = None
        for p in parts:
            node = None
            for st in body:
                if isinstance(st, (ast.FunctionDef, ast.ClassDef)) and st.name == p:   # ClassDef: methods / nested defs of methods (C04)
                    node = st
            if node is None:
                raise TranslateError('def %s not found' % qual)
            body = node.body
        return node

    def translate_func(self, mod, qual, fnode, pspecs, opts):
        self.mod = mod
        self.env = {}
        self.pre = []
        name = qual.split('.')[-1]
        args = fnode.args
        if args.vararg or args.kwarg or args.kwonlyargs:
            raise TranslateError('%s: *args/**kwargs not supported' % qual)
        pynames = [a.arg for a in args.args]
        free = opts.get('free', [])      # closure variables given as extra leading params: [(name, spec)]
        allp = list(free) + list(zip(pynames, pspecs))
        if len(pynames) != len(pspecs):
            raise TranslateError('%s: expected %d params in spec, source has %d (%s)' %
                                 (qual, len(pspecs), len(pynames), pynames))
        if (opts.get('segment') or {}).get('drop_params'):
            allp = list(free)
        coq_params = []
        # function-valued closure variables (black-box oracles): opts['oracles'] = [(name, n_scalar_args, n_scalar_results)]
        # become leading parameters of type T -> .. -> T * .. * T; calls to them are emitted verbatim
        oracle_txt = []
        # opts['opaque'] = [(dotted python name, coq parameter name, [input shape specs], output shape spec)]: un-modelled
        # tensor functions (spectral functions) become leading function parameters (C08/C11)
        self.opaque = {}
        opaque_names = []
        for full, on, ins, outs in opts.get('opaque', []):
            self.opaque[full] = (san(on), ins, outs)
            opaque_names.append(san(on))
            ni = sum(len(names_for('x', parse_shape(ps)[1])) for ps in ins)
            # (C10) an opaque function may return a tuple of arrays: outs = 'TUP(V3,M33)'
            no = sum(len(names_for('x', parse_shape(o)[1])) for o in (split_top(outs[4:-1]) if outs.startswith('TUP(') else [outs]))
            oracle_txt.append('(%s : %s)' % (san(on), ' -> '.join(['T'] * ni + ['(' + ' * '.join(['T'] * no) + ')'])))
        # opts['static'] = {param name: int}: python-int parameters fixed at translation time (index arithmetic)
        static = opts.get('static', {})
        for on, ni, no in opts.get('oracles', []):
            self.env[on] = ('ORACLE', san(on), ni, no)
            oracle_txt.append('(%s : %s)' % (san(on), ' -> '.join(['T'] * ni + ['(' + ' * '.join(['T'] * no) + ')'])))
        self.derivs = dict(opts.get('derivs', {}))    # (C10) {oracle name: name of the oracle standing for its derivative (jax.jacfwd/grad)}
        for pn, ps in allp:
            if pn in static:
                self.env[pn] = ('STATIC', int(static[pn]))
                continue
            if ps == 'FN':                            # (C10) function-valued parameter, declared in opts['oracles'] under the same name
                if not (isinstance(self.env.get(pn), tuple) and self.env[pn][0] == 'ORACLE'):
                    raise TranslateError('%s: function-valued parameter %s is not declared in oracles' % (qual, pn))
                continue
            v, names = self.bind_param(pn, ps)
            self.env[pn] = v
            coq_params += names
        lines = []
        ret = None
        body = list(fnode.body)
        # drop docstring
        if body and isinstance(body[0], ast.Expr) and isinstance(body[0].value, ast.Constant) \
                and isinstance(body[0].value.value, str):
            body = body[1:]
        # opts['prefix'] = dict(upto=<local name>, returns=[local names]): translate only the leading statements of the body, up to and
        # including the FIRST top-level assignment to `upto`, and return the listed locals (theorems about the first stage of a long routine)
        if opts.get('prefix'):
            cut = [i for i, st in enumerate(body) if isinstance(st, ast.Assign) and len(st.targets) == 1
                   and isinstance(st.targets[0], ast.Name) and st.targets[0].id == opts['prefix']['upto']]
            if not cut:
                raise TranslateError('%s: prefix: no top-level assignment to %s' % (qual, opts['prefix']['upto']))
            body = body[:cut[0] + 1] + ast.parse('return (%s)' % ', '.join(opts['prefix']['returns'])).body
        # (C12, round 4) opts['segment'] = dict(after=<local>|None, upto=<local>, keep=[locals], returns=[locals], drop_params=bool):
        # translate only the top-level statements AFTER the first assignment to `after` up to and including the first assignment to
        # `upto`; earlier single-target assignments to a name in `keep` are retained in front (cheap derived locals); every other
        # local the segment reads must be declared in opts['free'] (it becomes a leading parameter).  With drop_params the function's
        # own parameters are not bound (the segment must not read them).  Theorems about a middle stage of a long straight-line routine.
        if opts.get('segment'):
            sg = opts['segment']

            def first_assign(nm):
                # plain / augmented assignment to the name, or a tuple-unpacking assignment containing it
                for i, st in enumerate(body):
                    tg = []
                    if isinstance(st, ast.Assign):
                        for t in st.targets:
                            tg += [e.id for e in (t.elts if isinstance(t, ast.Tuple) else [t]) if isinstance(e, ast.Name)]
                    elif isinstance(st, ast.AugAssign) and isinstance(st.target, ast.Name):
                        tg = [st.target.id]
                    if nm in tg:
                        return i
                raise TranslateError('%s: segment: no top-level assignment to %s' % (qual, nm))
            lo = first_assign(sg['after']) + 1 if sg.get('after') else 0
            hi = first_assign(sg['upto'])
            if hi < lo:
                raise TranslateError('%s: segment: %s is assigned before %s' % (qual, sg['upto'], sg.get('after')))
            kept = [st for st in body[:lo] if isinstance(st, ast.Assign) and len(st.targets) == 1
                    and isinstance(st.targets[0], ast.Name) and st.targets[0].id in sg.get('keep', [])]
            body = kept + body[lo:hi + 1] + ast.parse('return (%s)' % ', '.join(sg['returns'])).body
        ret = self.block(body, lines, qual)
        if ret is None:
            raise TranslateError('%s: no return' % qual)
        flat, struct = self.flatten_ret(ret)
        cname = opts.get('coq_name') or self.coq_name(mod.name, name)
        info = FuncInfo(mod, cname, [(pn, ps) for pn, ps in allp if pn not in static and ps != 'FN'], struct)
        info.opaque = opaque_names
        mod.funcs[name] = info
        rtypes = ' * '.join('bool' if k == 'B' else 'T' for k, _ in flat)
        rterm = '(' + ', '.join(t for _, t in flat) + ')' if len(flat) > 1 else flat[0][1]
        ptxt = ' '.join(oracle_txt + ['(%s : %s)' % (n, 'bool' if k == 'B' else 'T') for n, k in coq_params])
        body_txt = ''.join('  ' + l + '\n' for l in lines)
        return 'Definition %s %s : %s :=\n%s  %s.' % (cname, ptxt, rtypes, body_txt, rterm)

    def bind_param(self, pn, ps):
        ps = ps.strip()
        if ps.startswith('NT('):
            fields = {}
            names = []
            for fld in split_top(ps[3:-1]):
                fn, fs = fld.split(':')
                v, ns = self.bind_param(pn + '_' + fn.strip(), fs)
                fields[fn.strip()] = v
                names += ns
            return ('NT', fields), names
        if ps.startswith('TUP('):
            items = []
            names = []
            for i, fs in enumerate(split_top(ps[4:-1])):
                v, ns = self.bind_param('%s_%d' % (pn, i), fs)
                items.append(v)
                names += ns
            return TupleVal(items), names
        kind, shape = parse_shape(ps)
        ns = names_for(pn, shape)
        return Val.from_flat(kind, shape, ns), [(n, kind) for n in ns]

    def flatten_ret(self, ret):
        """-> (list of (kind, term)), structure"""
        if isinstance(ret, TupleVal):
            flat, struct = [], []
            for it in ret.items:
                f, s = self.flatten_ret(it)
                flat += f
                struct.append(s)
            return flat, ('tuple', struct)
        if isinstance(ret, Val):
            return [(ret.kind, t) for t in ret.flat()], ('val', ret.kind, ret.shape)
        raise TranslateError('unsupported return value')

    def rebuild_ret(self, struct, names):
        it = iter(names)

        def rec(s):
            if s[0] == 'tuple':
                return TupleVal([rec(x) for x in s[1]])
            _, kind, shape = s
            n = 1
            for d in shape:
                n *= d
            return Val.from_flat(kind, shape, [next(it) for _ in range(n)])
        return rec(struct)

    def count_ret(self, struct):
        if struct[0] == 'tuple':
            return sum(self.count_ret(s) for s in struct[1])
        n = 1
        for d in struct[2]:
            n *= d
        return n

    # -- statements
    def block(self, stmts, lines, qual):
        for i, st in enumerate(stmts):
            if isinstance(st, ast.Return):
                if i != len(stmts) - 1:
                    raise TranslateError('%s: return not last' % qual)
                self.pre = []
                v = self.expr(st.value)
                lines += self.pre
                return v
            elif isinstance(st, ast.Assign):
                if len(st.targets) != 1:
                    raise TranslateError('%s: chained assignment' % qual)
                self.pre = []
                v = self.expr(st.value)
                lines += self.pre
                self.assign(st.targets[0], v, lines)
            elif isinstance(st, ast.AugAssign):
                self.pre = []
                cur = self.expr(st.target)
                rhs = self.expr(st.value)
                v = self.binop(st.op, cur, rhs)
                lines += self.pre
                self.assign(st.target, v, lines)
            elif isinstance(st, ast.Expr) and isinstance(st.value, ast.Constant):
                continue
            elif isinstance(st, ast.FunctionDef):
                # nested def: remember for inlining at call sites (lambda-like)
                self.env[st.name] = ('DEF', st)
            elif isinstance(st, (ast.Pass, ast.Delete)):
                continue
            else:
                raise TranslateError('%s: unsupported statement %s at line %d' % (qual, type(st).__name__, st.lineno))
        return None

    def assign(self, target, v, lines):
        if isinstance(target, ast.Name):
            if isinstance(v, TupleVal):
                self.env[target.id] = TupleVal([self.bind_local('%s_%d' % (target.id, i), it, lines)
                                                for i, it in enumerate(v.items)])
            elif isinstance(v, Val):
                self.env[target.id] = self.bind_local(target.id, v, lines)
            else:
                self.env[target.id] = v
        elif isinstance(target, (ast.Tuple, ast.List)):
            if not isinstance(v, TupleVal):
                if isinstance(v, Val) and v.shape and v.shape[0] == len(target.elts):
                    v = TupleVal([v.index(i) for i in range(v.shape[0])])
                else:
                    raise TranslateError('tuple unpack of non-tuple at line %d' % target.lineno)
            if len(v.items) != len(target.elts):
                raise TranslateError('tuple unpack arity mismatch at line %d' % target.lineno)
            for t, it in zip(target.elts, v.items):
                self.assign(t, it, lines)
        else:
            raise TranslateError('unsupported assignment target at line %d' % target.lineno)

    def bind_local(self, name, v, lines):
        if isinstance(v, TupleVal):
            return TupleVal([self.bind_local('%s_%d' % (name, i), it, lines) for i, it in enumerate(v.items)])
        if name == '_':
            return v
        if isinstance(v, IdxVal):
            n = san(name + getattr(self, 'local_suffix', ''))
            lines.append('let %s := %s in' % (n, v.cond))
            return IdxVal(n, v.hi, v.lo)
        # locals of an inlined nested def get a unique suffix: the inlined body may be expanded several times in one
        # expression, and its result expressions must not be captured by a later expansion's bindings
        name = name + getattr(self, 'local_suffix', '')
        ns = names_for(name, v.shape)
        for n, t in zip(ns, v.flat()):
            if n != t:
                lines.append('let %s := %s in' % (n, t))
        return Val.from_flat(v.kind, v.shape, ns)

    # -- expressions
    def expr(self, e):
        m = getattr(self, 'e_' + type(e).__name__, None)
        if m is None:
            raise TranslateError('unsupported expression %s at line %d' % (type(e).__name__, getattr(e, 'lineno', 0)))
        return m(e)

    def e_Constant(self, e):
        if isinstance(e.value, bool):
            return boolean('true' if e.value else 'false')
        if isinstance(e.value, (int, float)):
            seg = ast.get_source_segment(self.src, e)
            if seg is None:
                seg = repr(e.value)
            return scalar(lit(seg))
        raise TranslateError('unsupported constant %r' % (e.value,))

    def e_Name(self, e):
        if e.id in self.env:
            ev = self.env[e.id]
            if isinstance(ev, tuple) and ev and ev[0] == 'STATIC':
                return scalar(lit(str(ev[1])))
            return ev
        if e.id in self.mod.consts:
            return scalar(self.mod.consts[e.id])
        if e.id in ('True', 'False'):
            return boolean(e.id.lower())
        raise TranslateError('unknown name %s at line %d' % (e.id, e.lineno))

    def e_Tuple(self, e):
        return TupleVal([self.expr(x) for x in e.elts])

    def e_List(self, e):
        return TupleVal([self.expr(x) for x in e.elts])

    def e_UnaryOp(self, e):
        v = self.expr(e.operand)
        if isinstance(e.op, ast.USub):
            self.need(v, 'S')
            return self.map1(lambda t: '(nopp %s)' % t, v)
        if isinstance(e.op, ast.UAdd):
            return v
        if isinstance(e.op, (ast.Invert, ast.Not)):
            self.need(v, 'B')
            return self.map1(lambda t: '(negb %s)' % t, v, 'B')
        raise TranslateError('unsupported unary op')

    def need(self, v, kind):
        if not isinstance(v, Val) or v.kind != kind:
            raise TranslateError('expected %s value' % ('numeric' if kind == 'S' else 'boolean'))

    def map1(self, f, v, kind=None):
        return Val.from_flat(kind or v.kind, v.shape, [f(t) for t in v.flat()])

    def broadcast(self, a, b):
        if isinstance(a, TupleVal):
            a = self.stack(a)
        if isinstance(b, TupleVal):
            b = self.stack(b)
        if a.shape == b.shape:
            return a.shape, a.flat(), b.flat()
        if a.shape == ():
            n = len(b.flat())
            return b.shape, [a.data] * n, b.flat()
        if b.shape == ():
            n = len(a.flat())
            return a.shape, a.flat(), [b.data] * n
        # trailing-dimension broadcast (n,m) with (m,)
        if len(a.shape) == 2 and len(b.shape) == 1 and a.shape[1] == b.shape[0]:
            return a.shape, a.flat(), b.flat() * a.shape[0]
        if len(b.shape) == 2 and len(a.shape) == 1 and b.shape[1] == a.shape[0]:
            return b.shape, a.flat() * b.shape[0], b.flat()
        raise TranslateError('shape mismatch %s vs %s' % (a.shape, b.shape))

    def zip2(self, f, a, b, kind='S'):
        shape, fa, fb = self.broadcast(a, b)
        return Val.from_flat(kind, shape, [f(x, y) for x, y in zip(fa, fb)])

    def stack(self, tv):
        items = [self.stack(x) if isinstance(x, TupleVal) else x for x in tv.items]
        if not items or any(not isinstance(x, Val) for x in items):
            raise TranslateError('cannot make an array from this list')
        sh, k = items[0].shape, items[0].kind
        if any(x.shape != sh or x.kind != k for x in items):
            raise TranslateError('ragged array literal')
        return Val(k, (len(items),) + sh, [x.data for x in items])

    def e_BinOp(self, e):
        return self.binop(e.op, self.expr(e.left), self.expr(e.right), e)

    def const_rational(self, node):
        """python-evaluable constant numeric expression -> Fraction or None"""
        try:
            if isinstance(node, ast.Constant) and isinstance(node.value, (int, float)) and not isinstance(node.value, bool):
                seg = ast.get_source_segment(self.src, node) or repr(node.value)
                return Fraction(Decimal(seg))
            if isinstance(node, ast.Name):
                ev = self.env.get(node.id)
                if isinstance(ev, tuple) and ev and ev[0] == 'STATIC':
                    return Fraction(ev[1])
                if ev is None and node.id in getattr(self.mod, 'intconsts', {}):
                    return Fraction(self.mod.intconsts[node.id])
                return None
            if isinstance(node, ast.UnaryOp) and isinstance(node.op, ast.USub):
                v = self.const_rational(node.operand)
                return None if v is None else -v
            if isinstance(node, ast.BinOp):
                l, r = self.const_rational(node.left), self.const_rational(node.right)
                if l is None or r is None:
                    return None
                if isinstance(node.op, ast.Add):
                    return l + r
                if isinstance(node.op, ast.Sub):
                    return l - r
                if isinstance(node.op, ast.Mult):
                    return l * r
                if isinstance(node.op, ast.Div):
                    return l / r
        except Exception:
            return None
        return None

    def binop(self, op, a, b, node=None):
        if isinstance(op, (ast.BitAnd, ast.BitOr)):
            self.need(a, 'B')
            self.need(b, 'B')
            f = 'andb' if isinstance(op, ast.BitAnd) else 'orb'
            return self.zip2(lambda x, y: '(%s %s %s)' % (f, x, y), a, b, 'B')
        if isinstance(op, ast.MatMult):
            return self.matmul(a, b)
        if isinstance(op, ast.Pow):
            q = self.const_rational(node.right) if node is not None else None
            if q is not None and q.denominator == 1 and 0 <= q.numerator <= 12:
                n = int(q.numerator)
                return self.map1(lambda t: '(npow %s %d)' % (t, n), a)
            if q is not None and q == Fraction(1, 2):
                raise TranslateError('x**0.5 refused (use sqrt)')
            self.need(b, 'S')
            return self.zip2(lambda x, y: '(npowr %s %s)' % (x, y), a, b)
        table = {ast.Add: 'nadd', ast.Sub: 'nsub', ast.Mult: 'nmul', ast.Div: 'ndiv'}
        for k, f in table.items():
            if isinstance(op, k):
                if isinstance(a, TupleVal):
                    a = self.stack(a)
                if isinstance(b, TupleVal):
                    b = self.stack(b)
                self.need(a, 'S')
                self.need(b, 'S')
                return self.zip2(lambda x, y: '(%s %s %s)' % (f, x, y), a, b)
        raise TranslateError('unsupported binary operator %s' % type(op).__name__)

    def sumterms(self, terms):
        if not terms:
            return 'nzero'
        acc = terms[0]
        for t in terms[1:]:
            acc = '(nadd %s %s)' % (acc, t)
        return acc

    def matmul(self, a, b):
        self.need(a, 'S')
        self.need(b, 'S')
        if len(a.shape) == 1 and len(b.shape) == 1 and a.shape == b.shape:
            return scalar(self.sumterms(['(nmul %s %s)' % (x, y) for x, y in zip(a.data, b.data)]))
        if len(a.shape) == 2 and len(b.shape) == 2 and a.shape[1] == b.shape[0]:
            n, k, m = a.shape[0], a.shape[1], b.shape[1]
            return Val('S', (n, m), [[self.sumterms(['(nmul %s %s)' % (a.data[i][l], b.data[l][j]) for l in range(k)])
                                      for j in range(m)] for i in range(n)])
        if len(a.shape) == 2 and len(b.shape) == 1 and a.shape[1] == b.shape[0]:
            return Val('S', (a.shape[0],), [self.sumterms(['(nmul %s %s)' % (a.data[i][l], b.data[l])
                                                            for l in range(a.shape[1])]) for i in range(a.shape[0])])
        if len(a.shape) == 1 and len(b.shape) == 2 and a.shape[0] == b.shape[0]:
            return Val('S', (b.shape[1],), [self.sumterms(['(nmul %s %s)' % (a.data[l], b.data[l][j])
                                                            for l in range(a.shape[0])]) for j in range(b.shape[1])])
        raise TranslateError('unsupported matmul shapes %s @ %s' % (a.shape, b.shape))

    def e_Compare(self, e):
        if len(e.ops) != 1:
            raise TranslateError('chained comparison')
        a, b = self.expr(e.left), self.expr(e.comparators[0])
        op = e.ops[0]
        if isinstance(a, Val) and isinstance(b, Val) and a.kind == 'B' and b.kind == 'B' and isinstance(op, ast.Eq):
            return self.zip2(lambda x, y: '(Bool.eqb %s %s)' % (x, y), a, b, 'B')
        self.need(a, 'S')
        self.need(b, 'S')
        table = {ast.Lt: lambda x, y: '(nltb %s %s)' % (x, y), ast.LtE: lambda x, y: '(nleb %s %s)' % (x, y),
                 ast.Gt: lambda x, y: '(nltb %s %s)' % (y, x), ast.GtE: lambda x, y: '(nleb %s %s)' % (y, x),
                 ast.Eq: lambda x, y: '(neqb %s %s)' % (x, y), ast.NotEq: lambda x, y: '(negb (neqb %s %s))' % (x, y)}
        for k, f in table.items():
            if isinstance(op, k):
                return self.zip2(f, a, b, 'B')
        raise TranslateError('unsupported comparison')

    def e_IfExp(self, e):
        c = self.expr(e.test)
        return self.select(c, self.expr(e.body), self.expr(e.orelse))

    def select(self, c, a, b):
        self.need(c, 'B')
        if isinstance(a, TupleVal) or isinstance(b, TupleVal):
            if not (isinstance(a, TupleVal) and isinstance(b, TupleVal) and len(a.items) == len(b.items)):
                raise TranslateError('select between different tuple structures')
            return TupleVal([self.select(c, x, y) for x, y in zip(a.items, b.items)])
        if a.kind != b.kind:
            raise TranslateError('select between number and boolean')
        shape, fa, fb = self.broadcast(a, b)
        if c.shape == ():
            fc = [c.data] * len(fa)
        elif c.shape == shape:
            fc = c.flat()
        else:
            raise TranslateError('select condition shape mismatch')
        return Val.from_flat(a.kind, shape, ['(if %s then %s else %s)' % (cc, x, y) for cc, x, y in zip(fc, fa, fb)])

    def e_Subscript(self, e):
        v = self.expr(e.value)
        idx = e.slice
        if isinstance(idx, ast.Index):  # py<3.9
            idx = idx.value
        idxs = idx.elts if isinstance(idx, ast.Tuple) else [idx]
        return self.index(v, idxs)

    def index(self, v, idxs):
        if not idxs:
            return v
        i0 = idxs[0]
        if isinstance(v, TupleVal):
            k = self.const_int(i0)
            if k is None:
                raise TranslateError('non-constant tuple index')
            return self.index(v.items[k], idxs[1:])
        if not isinstance(v, Val):
            raise TranslateError('indexing unsupported value')
        if isinstance(i0, ast.Name) and i0.id not in self.env and i0.id in getattr(self.mod, 'sliceconsts', {}):
            lo, hi = self.mod.sliceconsts[i0.id]      # module-level NAME = slice(lo, hi)
            subs = [self.index(v.index(k), idxs[1:]) for k in range(lo, hi)]
            return self.stack(TupleVal(subs))
        if isinstance(i0, ast.Slice):
            n = v.shape[0]
            lo = 0 if i0.lower is None else self.const_int(i0.lower)
            hi = n if i0.upper is None else self.const_int(i0.upper)
            if lo is None or hi is None or i0.step is not None:
                raise TranslateError('unsupported slice')
            if lo < 0:
                lo += n
            if hi < 0:
                hi += n
            subs = [self.index(v.index(k), idxs[1:]) for k in range(lo, hi)]
            return self.stack(TupleVal(subs))
        k = self.const_int(i0)
        if k is None:
            # positions computed by argsort of a 2-vector (IdxVal): a select between the two entries
            iv = self.expr(i0) if isinstance(i0, (ast.Name, ast.Subscript)) else None
            if isinstance(iv, IdxVal):
                return self.index(self.select(boolean(iv.cond), v.index(iv.hi), v.index(iv.lo)), idxs[1:])
            if isinstance(iv, TupleVal) and iv.items and all(isinstance(x, IdxVal) for x in iv.items):
                subs = [self.index(self.select(boolean(x.cond), v.index(x.hi), v.index(x.lo)), idxs[1:]) for x in iv.items]
                return self.stack(TupleVal(subs))
            raise TranslateError('non-constant index at line %d' % getattr(i0, 'lineno', 0))
        return self.index(v.index(k), idxs[1:])

    def const_int(self, node):
        q = self.const_rational(node)
        if q is None or q.denominator != 1:
            return None
        return int(q)

    def e_Attribute(self, e):
        if isinstance(e.value, ast.Name):
            base = e.value.id
            if base in self.env:
                v = self.env[base]
                if isinstance(v, tuple) and v[0] == 'NT':
                    if e.attr not in v[1]:
                        raise TranslateError('namedtuple %s has no declared field %s' % (base, e.attr))
                    return v[1][e.attr]
                if isinstance(v, Val) and e.attr == 'T':
                    return self.transpose(v)
            if base in NP_ALIASES and e.attr == 'pi':
                raise TranslateError('np.pi not supported')
            # Module.const
            target = self.mod.aliases.get(base, base)
            if target in self.modules and e.attr in self.modules[target].consts:
                return scalar(self.modules[target].consts[e.attr])
        v = self.expr(e.value)
        if isinstance(v, Val) and e.attr == 'T':
            return self.transpose(v)
        raise TranslateError('unsupported attribute .%s at line %d' % (e.attr, e.lineno))

    def transpose(self, v):
        if len(v.shape) != 2:
            if len(v.shape) < 2:
                return v
            raise TranslateError('transpose of rank>2')
        n, m = v.shape
        return Val(v.kind, (m, n), [[v.data[i][j] for i in range(n)] for j in range(m)])

    def e_Lambda(self, e):
        return ('LAMBDA', e)

    # -- calls
    def callee_name(self, f):
        if isinstance(f, ast.Name):
            return (None, f.id)
        if isinstance(f, ast.Attribute):
            parts = []
            cur = f
            while isinstance(cur, ast.Attribute):
                parts.append(cur.attr)
                cur = cur.value
            if isinstance(cur, ast.Name):
                parts.append(cur.id)
                parts.reverse()
                return ('.'.join(parts[:-1]), parts[-1])
        return (None, None)

    def e_Call(self, e):
        base, name = self.callee_name(e.func)
        # (C10) jax.jacfwd(f) / jax.grad(f) / jax.jacrev(f) of a scalar -> scalar oracle f: the oracle declared as its derivative
        if base == 'jax' and name in ('jacfwd', 'grad', 'jacrev') and len(e.args) == 1 and not e.keywords and isinstance(e.args[0], ast.Name) \
                and isinstance(self.env.get(e.args[0].id), tuple) and self.env[e.args[0].id][0] == 'ORACLE':
            dn = getattr(self, 'derivs', {}).get(e.args[0].id)
            if dn is None or not (isinstance(self.env.get(dn), tuple) and self.env[dn][0] == 'ORACLE') \
                    or self.env[e.args[0].id][2:] != (1, 1) or self.env[dn][2:] != (1, 1):
                raise TranslateError('derivative of %s: no scalar derivative oracle declared (opts derivs) at line %d' % (e.args[0].id, e.lineno))
            return self.env[dn]
        # (C10) jax.vmap(f)(v): f applied to each element of the vector v
        if isinstance(e.func, ast.Call) and self.callee_name(e.func.func) == ('jax', 'vmap') and len(e.func.args) == 1 \
                and not e.func.keywords and len(e.args) == 1 and not e.keywords:
            f = self.as_callable(e.func.args[0])
            v = self.expr(e.args[0])
            if not isinstance(v, Val) or len(v.shape) != 1 or v.kind != 'S':
                raise TranslateError('jax.vmap only over a vector at line %d' % e.lineno)
            outs = [f([v.index(i)]) for i in range(v.shape[0])]
            if any(not isinstance(o, Val) or o.shape != () for o in outs):
                raise TranslateError('jax.vmap of a non-scalar function at line %d' % e.lineno)
            return Val('S', (v.shape[0],), [o.data for o in outs])
        if e.keywords:
            kw = {k.arg: k.value for k in e.keywords}
        else:
            kw = {}
        # array methods .ravel() / .flatten() / .reshape((n,m)) on a translated value (C08)
        if isinstance(e.func, ast.Attribute) and e.func.attr in ('ravel', 'flatten', 'reshape') and not kw \
                and not (isinstance(e.func.value, ast.Name) and (e.func.value.id in NP_ALIASES or e.func.value.id in self.modules
                                                                  or e.func.value.id in self.mod.aliases)):
            v = self.expr(e.func.value)
            if isinstance(v, TupleVal):
                v = self.stack(v)
            if not isinstance(v, Val):
                raise TranslateError('method .%s on unsupported value' % e.func.attr)
            if e.func.attr in ('ravel', 'flatten'):
                if e.args:
                    raise TranslateError('.ravel with arguments')
                return Val(v.kind, (len(v.flat()),), v.flat())
            sh = e.args[0] if len(e.args) == 1 else ast.Tuple(elts=list(e.args))
            dims = [self.const_int(x) for x in sh.elts] if isinstance(sh, ast.Tuple) else [self.const_int(sh)]
            cnt = 1
            for d in dims:
                if d is None or d < 0:
                    raise TranslateError('reshape to non-constant shape')
                cnt *= d
            if cnt != len(v.flat()):
                raise TranslateError('reshape size mismatch')
            return Val.from_flat(v.kind, tuple(dims), v.flat())
        # black-box tensor functions declared opaque for this function (opts['opaque']): passed as function parameters
        full = ((base + '.') if base else '') + (name or '')
        if full in getattr(self, 'opaque', {}):
            on, ins, outs = self.opaque[full]
            if kw or len(e.args) != len(ins):
                raise TranslateError('opaque %s called with wrong arity' % full)
            flat = []
            for ps, a in zip(ins, e.args):
                flat += self.flat_arg(ps, self.expr(a))
            if outs.startswith('TUP('):               # (C10) tuple of arrays
                parts = [parse_shape(o) for o in split_top(outs[4:-1])]
                sizes = []
                for _, sh in parts:
                    c = 1
                    for d in sh:
                        c *= d
                    sizes.append(c)
                base_ = self.fresh('q')
                names = ['%s_%d' % (base_, i) for i in range(sum(sizes))]
                self.pre.append("let '(%s) := (%s %s) in" % (', '.join(names), on, ' '.join(flat)))
                items, k0 = [], 0
                for (kd, sh), c in zip(parts, sizes):
                    items.append(Val.from_flat(kd, sh, names[k0:k0 + c]))
                    k0 += c
                return TupleVal(items)
            okind, oshape = parse_shape(outs)
            cnt = 1
            for d in oshape:
                cnt *= d
            term = '(%s %s)' % (on, ' '.join(flat))
            if cnt == 1:
                return Val.from_flat(okind, oshape, [term])
            base_ = self.fresh('q')
            names = ['%s_%d' % (base_, i) for i in range(cnt)]
            self.pre.append("let '(%s) := %s in" % (', '.join(names), term))
            return Val.from_flat(okind, oshape, names)
        # numpy-like primitives
        if base in NP_ALIASES or base in ('jax.numpy', 'np.linalg', 'jnp.linalg', 'jax.lax', 'lax', 'jax.numpy.linalg'):
            return self.np_call(base, name, e.args, kw, e)
        # python builtins min(a, b) / max(a, b) on scalars, exactly as CPython evaluates them: the FIRST argument is kept unless the
        # second is strictly smaller / larger (so a NaN second argument is dropped, a NaN first argument is kept)
        if base is None and name in ('min', 'max') and name not in self.env and len(e.args) == 2 and not kw:
            a, b = self.expr(e.args[0]), self.expr(e.args[1])
            for v in (a, b):
                if not isinstance(v, Val) or v.shape != () or v.kind != 'S':
                    raise TranslateError('builtin %s only for two scalars at line %d' % (name, e.lineno))
            c = '(nltb %s %s)' % ((b.data, a.data) if name == 'min' else (a.data, b.data))
            return scalar('(if %s then %s else %s)' % (c, b.data, a.data))
        # python builtin abs(x) on a numeric value (jax arrays dispatch it to absolute)
        if base is None and name == 'abs' and name not in self.env and len(e.args) == 1 and not kw:
            v = self.expr(e.args[0])
            self.need(v, 'S')
            return self.map1(lambda t: '(nabs %s)' % t, v)
        if base is None and name == 'if_then_else':
            c, a, b = [self.expr(x) for x in e.args]
            return self.select(c, a, b)
        # local nested def or lambda bound to a name
        if base is None and name in self.env:
            fn = self.env[name]
            if isinstance(fn, tuple) and fn[0] in ('DEF', 'LAMBDA'):
                return self.apply_closure(fn, [self.expr(a) for a in e.args])
            if isinstance(fn, tuple) and fn[0] == 'ORACLE':
                _, on, ni, no = fn
                vals = [self.expr(a) for a in e.args]
                if kw or len(vals) != ni or any(not isinstance(v, Val) or v.shape != () or v.kind != 'S' for v in vals):
                    raise TranslateError('oracle %s must be called with %d scalar arguments' % (name, ni))
                term = '(%s %s)' % (on, ' '.join(v.data for v in vals))
                if no == 1:
                    return scalar(term)
                base_ = self.fresh('o')
                names = ['%s_%d' % (base_, i) for i in range(no)]
                self.pre.append("let '(%s) := %s in" % (', '.join(names), term))
                return TupleVal([scalar(n) for n in names])
            raise TranslateError('call of non-function %s' % name)
        # kernel in this or another module
        target_mod = None
        if base is None:
            target_mod = self.mod
        else:
            tm = self.mod.aliases.get(base, base)
            if tm in self.modules:
                target_mod = self.modules[tm]
        if target_mod is not None and name in target_mod.funcs:
            if kw:
                raise TranslateError('keyword arguments in kernel call %s' % name)
            return self.kernel_call(target_mod.funcs[name], [self.expr(a) for a in e.args])
        raise TranslateError('call to unknown function %s%s at line %d' % ((base + '.') if base else '', name, e.lineno))

    def apply_closure(self, fn, argvals):
        node = fn[1]
        params = [a.arg for a in node.args.args]
        if len(params) != len(argvals):
            raise TranslateError('closure arity mismatch')
        saved = dict(self.env)
        for p, v in zip(params, argvals):
            self.env[p] = v
        if fn[0] == 'LAMBDA':
            r = self.expr(node.body)
        else:
            lines = []
            savedpre = self.pre
            savedsuf = getattr(self, 'local_suffix', '')
            self.counter += 1
            self.local_suffix = '_k%d' % self.counter
            r = self.block(list(node.body), lines, node.name)
            self.local_suffix = savedsuf
            self.pre = savedpre + lines
        self.env = saved
        return r

    def flat_args(self, info, argvals):
        if len(argvals) != len(info.params):
            raise TranslateError('call of %s with %d args, expects %d' % (info.name, len(argvals), len(info.params)))
        out = []
        for (pn, ps), v in zip(info.params, argvals):
            out += self.flat_arg(ps, v)
        return out

    def flat_arg(self, ps, v):
        ps = ps.strip()
        if ps.startswith('NT('):
            if not (isinstance(v, tuple) and v[0] == 'NT'):
                raise TranslateError('expected namedtuple argument')
            out = []
            for fld in split_top(ps[3:-1]):
                fn, fs = fld.split(':')
                out += self.flat_arg(fs, v[1][fn.strip()])
            return out
        if ps.startswith('TUP('):
            if isinstance(v, Val):
                v = TupleVal([v.index(i) for i in range(v.shape[0])])
            out = []
            for fs, it in zip(split_top(ps[4:-1]), v.items):
                out += self.flat_arg(fs, it)
            return out
        kind, shape = parse_shape(ps)
        if isinstance(v, TupleVal):
            v = self.stack(v)
        if not isinstance(v, Val) or v.shape != shape or v.kind != kind:
            raise TranslateError('argument shape mismatch: expected %s got %s' % (ps, getattr(v, 'shape', v)))
        return v.flat()

    def kernel_call(self, info, argvals):
        args = self.flat_args(info, argvals)
        for on in getattr(info, 'opaque', []):
            if on not in [v[0] for v in getattr(self, 'opaque', {}).values()]:
                raise TranslateError('callee %s needs opaque function %s which the caller does not declare' % (info.name, on))
        args = list(getattr(info, 'opaque', [])) + args
        term = '(%s %s)' % (info.name, ' '.join(args)) if args else info.name
        n = self.count_ret(info.ret)
        if n == 1:
            return self.rebuild_ret(info.ret, [term])
        base = self.fresh('r')
        names = ['%s_%d' % (base, i) for i in range(n)]
        self.pre.append("let '(%s) := %s in" % (', '.join(names), term))
        return self.rebuild_ret(info.ret, names)

    def as_callable(self, node):
        """-> python function taking list of values and returning value"""
        if isinstance(node, ast.Lambda):
            return lambda vals: self.apply_closure(('LAMBDA', node), vals)
        base, name = self.callee_name(node)
        if base is None and name in self.env and isinstance(self.env[name], tuple) and self.env[name][0] in ('DEF', 'LAMBDA'):
            fn = self.env[name]
            return lambda vals: self.apply_closure(fn, vals)
        if base is None and name in self.env and isinstance(self.env[name], tuple) and self.env[name][0] == 'ORACLE' \
                and self.env[name][2:] == (1, 1):      # (C10) scalar oracle as a callable
            on = self.env[name][1]

            def call_oracle(vals):
                if len(vals) != 1 or not isinstance(vals[0], Val) or vals[0].shape != () or vals[0].kind != 'S':
                    raise TranslateError('oracle %s must be applied to one scalar' % name)
                return scalar('(%s %s)' % (on, vals[0].data))
            return call_oracle
        tm = self.mod if base is None else self.modules.get(self.mod.aliases.get(base, base))
        if tm is not None and name in tm.funcs:
            info = tm.funcs[name]
            return lambda vals: self.kernel_call(info, vals)
        raise TranslateError('unsupported callable at line %d' % node.lineno)

    def np_call(self, base, name, args, kw, node):
        A = lambda i: self.expr(args[i])
        un = {'abs': 'nabs', 'sqrt': 'nsqrt', 'exp': 'nexp', 'log': 'nln', 'sign': 'nsign', 'negative': 'nopp',
              'absolute': 'nabs'}
        if name in un and len(args) == 1:
            v = A(0)
            self.need(v, 'S')
            return self.map1(lambda t: '(%s %s)' % (un[name], t), v)
        if name == 'expm1' and len(args) == 1:
            return self.map1(lambda t: '(nsub (nexp %s) nunit)' % t, A(0))
        if name == 'log1p' and len(args) == 1:
            return self.map1(lambda t: '(nln (nadd nunit %s))' % t, A(0))
        if name == 'argsort' and len(args) == 1 and not kw:
            # stable ascending argsort of a 2-vector [a, b]: [0, 1] unless b < a (jax.numpy.argsort is stable; NaN aside)
            v = A(0)
            if isinstance(v, TupleVal):
                v = self.stack(v)
            if not isinstance(v, Val) or v.kind != 'S' or v.shape != (2,):
                raise TranslateError('argsort only for 2-vectors at line %d' % node.lineno)
            c = '(nltb %s %s)' % (v.data[1], v.data[0])
            return TupleVal([IdxVal(c, 1, 0), IdxVal(c, 0, 1)])
        if name == 'square' and len(args) == 1:
            return self.map1(lambda t: '(npow %s 2)' % t, A(0))
        if name in ('minimum', 'maximum') and len(args) == 2:
            f = 'nmin' if name == 'minimum' else 'nmax'
            return self.zip2(lambda x, y: '(%s %s %s)' % (f, x, y), A(0), A(1))
        if name == 'where' and len(args) == 3:
            return self.select(A(0), A(1), A(2))
        if name == 'reshape' and len(args) == 2 and not kw:
            # (C09, round 4) function form np.reshape(x, (n, m)) with a constant shape: same as the method form x.reshape((n, m))
            v = A(0)
            if isinstance(v, TupleVal):
                v = self.stack(v)
            if not isinstance(v, Val):
                raise TranslateError('np.reshape on unsupported value at line %d' % node.lineno)
            sh = args[1]
            dims = [self.const_int(x) for x in sh.elts] if isinstance(sh, ast.Tuple) else [self.const_int(sh)]
            cnt = 1
            for d in dims:
                if d is None or d < 0:
                    raise TranslateError('reshape to non-constant shape at line %d' % node.lineno)
                cnt *= d
            if cnt != len(v.flat()):
                raise TranslateError('reshape size mismatch at line %d' % node.lineno)
            return Val.from_flat(v.kind, tuple(dims), v.flat())
        if name == 'clip' and len(args) == 3:
            return self.zip2(lambda x, hi: '(nmin %s %s)' % (x, hi),
                             self.zip2(lambda x, lo: '(nmax %s %s)' % (x, lo), A(0), A(1)), A(2))
        if name == 'logical_and':
            return self.zip2(lambda x, y: '(andb %s %s)' % (x, y), A(0), A(1), 'B')
        if name == 'logical_or':
            return self.zip2(lambda x, y: '(orb %s %s)' % (x, y), A(0), A(1), 'B')
        if name == 'logical_not':
            return self.map1(lambda t: '(negb %s)' % t, A(0), 'B')
        if name in ('array', 'asarray', 'stack', 'hstack') and len(args) == 1:
            v = A(0)
            if isinstance(v, TupleVal):
                v = self.stack(v)
                if name == 'hstack' and len(v.shape) == 2:
                    v = Val(v.kind, (v.shape[0] * v.shape[1],), v.flat())
            return v
        if name == 'power' and len(args) == 2:
            q = self.const_rational(args[1])
            if q is not None and q.denominator == 1 and 0 <= q.numerator <= 12:
                return self.map1(lambda t: '(npow %s %d)' % (t, int(q.numerator)), A(0))
            return self.zip2(lambda x, y: '(npowr %s %s)' % (x, y), A(0), A(1))
        if name in ('identity', 'eye') and len(args) == 1:
            n = self.const_int(args[0])
            if n is None:
                raise TranslateError('identity of non-constant size')
            return Val('S', (n, n), [['nunit' if i == j else 'nzero' for j in range(n)] for i in range(n)])
        if name in ('zeros', 'ones') and len(args) == 1:
            sh = args[0]
            dims = [self.const_int(x) for x in sh.elts] if isinstance(sh, ast.Tuple) else [self.const_int(sh)]
            if any(d is None for d in dims):
                raise TranslateError('zeros of non-constant shape')
            cnt = 1
            for d in dims:
                cnt *= d
            return Val.from_flat('S', tuple(dims), ['nzero' if name == 'zeros' else 'nunit'] * cnt)
        if name == 'solve' and len(args) == 2 and not kw and base in ('np.linalg', 'jnp.linalg', 'jax.numpy.linalg'):
            # dense 3x3 solve(A, B) = inv(A) @ B with the cofactor inverse (LAPACK differs only by rounding)
            ainv = self.np_call(base, 'inv', [args[0]], {}, node)
            return self.matmul(ainv, A(1))
        if name in ('det', 'inv') and len(args) == 1 and base in ('np.linalg', 'jnp.linalg', 'jax.numpy.linalg'):
            # dense 3x3 determinant / inverse, modelled by the cofactor formulas (LAPACK differs only by rounding)
            v = A(0)
            if not isinstance(v, Val) or v.shape != (3, 3) or v.kind != 'S':
                raise TranslateError('linalg.%s only for 3x3' % name)
            if any(not __import__('re').fullmatch(r'[A-Za-z_][\w\']*', t) for t in v.flat()):
                ns = names_for(self.fresh('m'), (3, 3))
                for n_, t in zip(ns, v.flat()):
                    self.pre.append('let %s := %s in' % (n_, t))
                v = Val.from_flat('S', (3, 3), ns)
            a = v.data
            m = lambda x, y: '(nmul %s %s)' % (x, y)
            sb = lambda x, y: '(nsub %s %s)' % (x, y)
            cof = [[sb(m(a[1][1], a[2][2]), m(a[1][2], a[2][1])), sb(m(a[0][2], a[2][1]), m(a[0][1], a[2][2])), sb(m(a[0][1], a[1][2]), m(a[0][2], a[1][1]))],
                   [sb(m(a[1][2], a[2][0]), m(a[1][0], a[2][2])), sb(m(a[0][0], a[2][2]), m(a[0][2], a[2][0])), sb(m(a[0][2], a[1][0]), m(a[0][0], a[1][2]))],
                   [sb(m(a[1][0], a[2][1]), m(a[1][1], a[2][0])), sb(m(a[0][1], a[2][0]), m(a[0][0], a[2][1])), sb(m(a[0][0], a[1][1]), m(a[0][1], a[1][0]))]]
            dterm = '(nadd (nadd %s %s) %s)' % (m(a[0][0], cof[0][0]), m(a[0][1], cof[1][0]), m(a[0][2], cof[2][0]))
            if name == 'det':
                return scalar(dterm)
            dn = self.fresh('d')
            self.pre.append('let %s := %s in' % (dn, dterm))
            return Val('S', (3, 3), [['(ndiv %s %s)' % (cof[i][j], dn) for j in range(3)] for i in range(3)])
        if name == 'trace' and len(args) == 1:
            v = A(0)
            return scalar(self.sumterms([v.data[i][i] for i in range(v.shape[0])]))
        if name == 'diag' and len(args) == 1:
            v = A(0)
            if isinstance(v, TupleVal):
                v = self.stack(v)
            if len(v.shape) == 1:
                n = v.shape[0]
                return Val('S', (n, n), [[v.data[i] if i == j else 'nzero' for j in range(n)] for i in range(n)])
            return Val('S', (v.shape[0],), [v.data[i][i] for i in range(v.shape[0])])
        if name == 'transpose' and len(args) == 1:
            return self.transpose(A(0))
        if name in ('dot', 'vdot', 'matmul') and len(args) == 2:
            return self.matmul(A(0), A(1))
        if name == 'tensordot' and len(args) == 2 and not kw:
            a, b = A(0), A(1)
            if a.shape != b.shape or len(a.shape) != 2:
                raise TranslateError('tensordot only for equal-shape matrices')
            return scalar(self.sumterms(['(nmul %s %s)' % (x, y) for x, y in zip(a.flat(), b.flat())]))
        if name == 'outer' and len(args) == 2:
            a, b = A(0), A(1)
            return Val('S', (a.shape[0], b.shape[0]), [['(nmul %s %s)' % (x, y) for y in b.data] for x in a.data])
        if name == 'sum' and len(args) == 1 and not kw:
            return scalar(self.sumterms(A(0).flat()))
        if name == 'norm' and len(args) == 1 and not kw:
            v = A(0)
            if len(v.shape) != 1:
                raise TranslateError('norm of non-vector')
            return scalar('(nsqrt %s)' % self.sumterms(['(nmul %s %s)' % (x, x) for x in v.data]))
        if name == 'cond' and len(args) >= 3:
            c = A(0)
            f, g = self.as_callable(args[1]), self.as_callable(args[2])
            ops = [self.expr(a) for a in args[3:]]
            # both branches are evaluated (as XLA's select would under vmap); semantics identical for total functions
            rf = f(list(ops))
            rg = g(list(ops))
            return self.select(c, rf, rg)
        if name == 'full_like' or name == 'zeros_like' or name == 'ones_like':
            v = A(0)
            t = {'zeros_like': 'nzero', 'ones_like': 'nunit'}.get(name) or A(1).data
            return self.map1(lambda _: t, v)
        raise TranslateError('unsupported numpy call %s.%s at line %d' % (base, name, node.lineno))


HEADER = """(* GENERATED on every run by /verif/tools/vlib/py2coq.py from /repo/%s -- do not edit.
   The definitions below ARE the model of that file's kernels; theorems in proofs/ and props/ are about them. *)
From Coq Require Import ZArith QArith Bool List.
From OV.base Require Import Num.
%s
Section Gen.
Context {T : Type} {NT : Num T}.

"""


def generate(repo, specs, outdir):
    """Translate all module specs (in dependency order).  Returns dict name -> (ok, message, path).
    Writes a file only if its content changed (so make stays incremental but never stale).
    On a translation error the module's file is replaced by a stub that fails to compile with the reason."""
    tr = Translator(repo)
    results = {}
    for spec in specs:
        path = os.path.join(outdir, 'Gen_%s.v' % spec['name'])
        deps = spec.get('deps', [])
        imports = '\n'.join('From OV.gen Require Import Gen_%s.' % d for d in deps)
        try:
            bad = [d for d in deps if not results.get(d, (False,))[0]]
            if bad:
                raise TranslateError('dependency %s failed to translate' % bad[0])
            mod, defs = tr.translate_module(spec)
            text = HEADER % (spec['file'], imports) + '\n\n'.join(defs) + '\n\nEnd Gen.\n'
            results[spec['name']] = (True, 'ok', path)
        except TranslateError as ex:
            msg = str(ex).replace('*)', '* )').replace('"', "'")
            text = '(* GENERATED: translation of %s FAILED: %s *)\nFail Fail Definition translation_failed := "%s".\nDefinition broken : True := 0.\n' % (spec['file'], msg, msg)
            results[spec['name']] = (False, str(ex), path)
        except Exception as ex:  # unreadable/unparsable source or an internal translator error: fail closed
            text = '(* GENERATED: cannot read/parse %s: %s *)\nDefinition broken : True := 0.\n' % (spec['file'], str(ex).replace('*)', ''))
            results[spec['name']] = (False, str(ex), path)
        old = None
        if os.path.exists(path):
            old = open(path).read()
        if old != text:
            with open(path, 'w') as fh:
                fh.write(text)
    return results
