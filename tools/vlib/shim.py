"""Harness-side stand-in for the absent `sksparse.cholmod` module so that optimism.Objective (and the solvers that
import it) can be imported in this sandbox.  Backed by scipy dense Cholesky; any SPD solve is an admissible
preconditioner for the properties, which quantify over exact / stale / identity preconditioners."""
import sys
import types

import numpy as onp
import scipy.linalg


class CholmodNotPositiveDefiniteError(Exception):
    pass


class _Factor:
    def __init__(self, A=None):
        self._c = None
        if A is not None:
            self.cholesky_inplace(A)

    def cholesky_inplace(self, A):
        Ad = onp.asarray(A.todense()) if hasattr(A, 'todense') else onp.asarray(A)
        try:
            self._c = scipy.linalg.cho_factor(Ad, lower=True)
        except onp.linalg.LinAlgError as ex:
            raise CholmodNotPositiveDefiniteError(str(ex))
        return self

    def cholesky(self, A):
        return _Factor(A)

    def __call__(self, b):
        return scipy.linalg.cho_solve(self._c, onp.asarray(b))

    solve_A = __call__


def analyze(A, *a, **k):
    return _Factor()


def cholesky(A, *a, **k):
    return _Factor(A)


def install():
    if 'sksparse.cholmod' in sys.modules:
        return
    pkg = types.ModuleType('sksparse')
    mod = types.ModuleType('sksparse.cholmod')
    mod.analyze = analyze
    mod.cholesky = cholesky
    mod.CholmodNotPositiveDefiniteError = CholmodNotPositiveDefiniteError
    pkg.cholmod = mod
    sys.modules['sksparse'] = pkg
    sys.modules['sksparse.cholmod'] = mod
