"""C19 / C07 extractors (fail closed), registered in extract.GENERATORS.

gen_cfg_drivers  -> coq/gen/CFG_drivers.v : control-flow IR (model/M_C19_CFG.v vocabulary) of the four load-step drivers
                    and the slot table of Objective.param_index_update, regenerated from the AST on every run.
gen_refs_nonlinear_solve -> coq/gen/Refs_NonlinearSolve.v : static call/arity/unpack table of inverse/NonlinearSolve.py (C07).

Any statement / call that is not recognised makes the generator write a stub that does not compile and report the reason."""
import ast
import os

from .extract import write_if_changed


class ExtractError(Exception):
    pass


DRIVERS = [('nonlinear_equation_solve', 'optimism/EquationSolver.py', 'nonlinear_equation_solve'),
           ('spg_solve', 'optimism/TrustRegionSPG.py', 'solve'),
           ('bound_constrained_solve', 'optimism/BoundConstrainedSolver.py', 'bound_constrained_solve'),
           ('augmented_lagrange_solve', 'optimism/AlSolver.py', 'augmented_lagrange_solve')]

SOLVER_CALLS = {'solver_algorithm', 'bound_constrained_trust_region_minimize', 'augmented_lagrange_solve', 'trust_region_minimize'}
SUBSOLVE_CALLS = {'solve_sub_step'}
OTHER_CALLS_WITH_OBJECTIVE = {'linear_update', 'callback', 'sub_problem_callback'}
OBJECTIVE_METHODS_OTHER = {'reset_kappa', 'total_residual', 'gradient', 'constraint', 'ncp', 'value'}
OBJECTIVE_ATTR_STORES_OTHER = {'lam'}


def callee_name(f):
    if isinstance(f, ast.Name):
        return f.id
    if isinstance(f, ast.Attribute):
        return f.attr
    return None


def find_func(tree, name):
    for st in tree.body:
        if isinstance(st, ast.FunctionDef) and st.name == name:
            return st
    raise ExtractError('def %s not found' % name)


class DriverCFG:
    def __init__(self, fnode):
        self.fn = fnode
        params = [a.arg for a in fnode.args.args]
        if not params:
            raise ExtractError('%s: no parameters' % fnode.name)
        self.obj = params[0]
        if 'p' not in params:
            raise ExtractError('%s: no parameter named p' % fnode.name)
        self.p = 'p'
        self.flag_names, self.x_names = set(), set()
        for node in ast.walk(fnode):
            if isinstance(node, ast.Assign) and isinstance(node.value, ast.Call):
                cn = callee_name(node.value.func)
                t = node.targets[0]
                if cn in SOLVER_CALLS:
                    if isinstance(t, ast.Tuple) and len(t.elts) == 2 and all(isinstance(e, ast.Name) for e in t.elts):
                        self.x_names.add(t.elts[0].id)
                        self.flag_names.add(t.elts[1].id)
                    elif isinstance(t, ast.Name):
                        self.x_names.add(t.id)
                    else:
                        raise ExtractError('%s: unrecognised target of solver call at line %d' % (fnode.name, node.lineno))
                elif cn in SUBSOLVE_CALLS:
                    if isinstance(t, ast.Tuple) and t.elts and isinstance(t.elts[0], ast.Name):
                        self.x_names.add(t.elts[0].id)
                    else:
                        raise ExtractError('%s: unrecognised target of solve_sub_step at line %d' % (fnode.name, node.lineno))

    # -- expression scans
    def calls_in(self, e):
        return [n for n in ast.walk(e) if isinstance(n, ast.Call)]

    def is_ws(self, call):
        return callee_name(call.func) in ('warm_start_increment', 'warm_start_increment_jax_safe')

    def check_ws(self, call):
        a = call.args
        if not (len(a) >= 3 and isinstance(a[0], ast.Name) and a[0].id == self.obj and isinstance(a[2], ast.Name) and a[2].id == self.p):
            raise ExtractError('%s: warm start call at line %d is not warm_start_increment(%s, x, %s)' % (self.fn.name, call.lineno, self.obj, self.p))

    def mentions_obj_as_arg(self, call):
        for a in list(call.args) + [k.value for k in call.keywords]:
            if isinstance(a, ast.Name) and a.id == self.obj:
                return True
        return False

    def classify_calls(self, e, allow_solver=False):
        """tags contributed by the calls inside expression e (in evaluation order, approximately source order)"""
        tags = []
        for c in sorted(self.calls_in(e), key=lambda n: (n.lineno, n.col_offset)):
            cn = callee_name(c.func)
            if self.is_ws(c):
                self.check_ws(c)
                tags.append('WarmStart')
            elif isinstance(c.func, ast.Attribute) and isinstance(c.func.value, ast.Name) and c.func.value.id == self.obj:
                if c.func.attr == 'update_precond':
                    tags.append('UpdatePrecond')
                elif c.func.attr not in OBJECTIVE_METHODS_OTHER:
                    raise ExtractError('%s: unrecognised method %s.%s(..) at line %d' % (self.fn.name, self.obj, c.func.attr, c.lineno))
            elif cn in SOLVER_CALLS or cn in SUBSOLVE_CALLS:
                if not allow_solver or c is not e:
                    raise ExtractError('%s: solver call in an unrecognised position at line %d' % (self.fn.name, c.lineno))
            elif self.mentions_obj_as_arg(c):
                if cn not in OTHER_CALLS_WITH_OBJECTIVE:
                    raise ExtractError('%s: unrecognised call %s(.. %s ..) at line %d' % (self.fn.name, cn, self.obj, c.lineno))
        return tags

    def solver_tag(self, call, binds_flag):
        cn = callee_name(call.func)
        if not (call.args and isinstance(call.args[0], ast.Name) and call.args[0].id == self.obj):
            raise ExtractError('%s: solver call at line %d does not receive %s first' % (self.fn.name, call.lineno, self.obj))
        if cn in SUBSOLVE_CALLS:
            return 'SubSolve'
        nested = False
        if cn == 'augmented_lagrange_solve':
            kw = {k.arg: k.value for k in call.keywords}
            ws = kw.get('useWarmStart')
            nested = not (isinstance(ws, ast.Constant) and ws.value is False)
            if not (len(call.args) >= 3 and isinstance(call.args[2], ast.Name) and call.args[2].id == self.p):
                raise ExtractError('%s: nested solve at line %d does not pass %s' % (self.fn.name, call.lineno, self.p))
        return 'Solve %s %s' % ('true' if binds_flag else 'false', 'true' if nested else 'false')

    def stores(self, targets):
        """-> list of tags for attribute / flag-name stores among assignment targets"""
        out = []
        for t in targets:
            for n in ast.walk(t):
                if isinstance(n, ast.Attribute) and isinstance(n.ctx, ast.Store):
                    if n.attr == 'p':
                        out.append('P')
                    elif isinstance(n.value, ast.Name) and n.value.id == self.obj and n.attr in OBJECTIVE_ATTR_STORES_OTHER:
                        pass
                    else:
                        raise ExtractError('%s: unrecognised attribute store .%s at line %d' % (self.fn.name, n.attr, n.lineno))
                if isinstance(n, ast.Name) and isinstance(n.ctx, ast.Store) and n.id in self.flag_names:
                    out.append('FLAG')
        return out

    # -- statements
    def block(self, stmts):
        out = []
        for st in stmts:
            out += self.stmt(st)
        return out

    def stmt(self, st):
        D = lambda t: 'Do (%s)' % t if ' ' in t else 'Do %s' % t
        if isinstance(st, ast.Expr) and isinstance(st.value, ast.Constant):
            return []
        if isinstance(st, ast.Pass):
            return []
        if isinstance(st, ast.Assign):
            v = st.value
            if isinstance(v, ast.Call) and callee_name(v.func) in (SOLVER_CALLS | SUBSOLVE_CALLS):
                t = st.targets[0]
                binds_flag = isinstance(t, ast.Tuple) and len(t.elts) == 2 and callee_name(v.func) in SOLVER_CALLS
                inner = []
                for a in list(v.args) + [k.value for k in v.keywords]:
                    inner += self.classify_calls(a)
                if 'P' in self.stores(st.targets):
                    raise ExtractError('%s: solver result stored to .p at line %d' % (self.fn.name, st.lineno))
                return [D(x) for x in inner] + [D(self.solver_tag(v, binds_flag))]
            tags = self.classify_calls(v)
            res = [D(x) for x in tags]
            sto = self.stores(st.targets)
            if 'P' in sto:
                t = st.targets[0]
                ok = (len(st.targets) == 1 and isinstance(t, ast.Attribute) and isinstance(t.value, ast.Name) and t.value.id == self.obj
                      and isinstance(v, ast.Name) and v.id == self.p)
                res.append(D('AssignPNew' if ok else 'AssignPOther'))
            elif 'FLAG' in sto:
                res.append(D('ClobberFlag'))
            else:
                res.append(D('Other'))
            return res
        if isinstance(st, ast.AugAssign):
            tags = self.classify_calls(st.value)
            sto = self.stores([st.target])
            res = [D(x) for x in tags]
            res.append(D('AssignPOther' if 'P' in sto else 'ClobberFlag' if 'FLAG' in sto else 'Other'))
            return res
        if isinstance(st, ast.Expr):
            tags = self.classify_calls(st.value)
            return [D(x) for x in tags] or [D('Other')]
        if isinstance(st, ast.If):
            pre = [D(x) for x in self.classify_calls(st.test)]
            cond = ast.unparse(st.test).replace('"', '""')
            return pre + ['IfS "%s" [%s] [%s]' % (cond, '; '.join(self.block(st.body)), '; '.join(self.block(st.orelse)))]
        if isinstance(st, ast.For):
            if st.orelse:
                raise ExtractError('%s: for/else at line %d' % (self.fn.name, st.lineno))
            pre = [D(x) for x in self.classify_calls(st.iter)]
            if self.stores([st.target]):
                raise ExtractError('%s: loop variable clobbers state at line %d' % (self.fn.name, st.lineno))
            return pre + ['Loop [%s]' % '; '.join(self.block(st.body))]
        if isinstance(st, ast.Return):
            v = st.value
            if v is None:
                raise ExtractError('%s: bare return at line %d' % (self.fn.name, st.lineno))
            pre = [D(x) for x in self.classify_calls(v)]
            if isinstance(v, ast.Tuple):
                if len(v.elts) != 2:
                    raise ExtractError('%s: return of a %d-tuple at line %d' % (self.fn.name, len(v.elts), st.lineno))
                xe, fe = v.elts
                flag = 'FlagSolver' if isinstance(fe, ast.Name) and fe.id in self.flag_names else 'FlagOther'
            else:
                xe, flag = v, 'FlagNone'
            names = {n.id for n in ast.walk(xe) if isinstance(n, ast.Name)}
            from_solver = bool(names & self.x_names)
            unscaled = False
            if isinstance(xe, ast.BinOp) and isinstance(xe.op, ast.Mult):
                for a, b in ((xe.left, xe.right), (xe.right, xe.left)):
                    if (isinstance(a, ast.Attribute) and a.attr == 'invScaling' and isinstance(a.value, ast.Name) and a.value.id == self.obj
                            and isinstance(b, ast.Name) and b.id in self.x_names):
                        unscaled = True
            return pre + ['Ret %s %s %s' % ('true' if from_solver else 'false', 'true' if unscaled else 'false', flag)]
        if isinstance(st, ast.Raise):
            return ['Raise']
        if isinstance(st, ast.Break):
            return ['Break']
        raise ExtractError('%s: unrecognised statement %s at line %d' % (self.fn.name, type(st).__name__, st.lineno))

    def emit(self):
        body = list(self.fn.body)
        return '[' + ';\n   '.join(self.block(body)) + ']'


def piu_rows(tree):
    fn = find_func(tree, 'param_index_update')
    params = [a.arg for a in fn.args.args]
    if len(params) != 3:
        raise ExtractError('param_index_update: expected 3 parameters')
    pn, idx, new = params
    rows = []
    tail = False
    for st in fn.body:
        if isinstance(st, ast.Expr) and isinstance(st.value, ast.Constant):
            continue
        if isinstance(st, ast.If) and not tail:
            t = st.test
            ok = (isinstance(t, ast.Compare) and isinstance(t.left, ast.Name) and t.left.id == idx and len(t.ops) == 1
                  and isinstance(t.ops[0], ast.Eq) and isinstance(t.comparators[0], ast.Constant) and isinstance(t.comparators[0].value, int)
                  and not st.orelse and len(st.body) == 1 and isinstance(st.body[0], ast.Return))
            if not ok:
                raise ExtractError('param_index_update: unrecognised branch at line %d' % st.lineno)
            r = st.body[0].value
            if not (isinstance(r, ast.Call) and callee_name(r.func) == 'Params' and not r.keywords):
                raise ExtractError('param_index_update: branch at line %d does not return Params(..)' % st.lineno)
            row = []
            for a in r.args:
                if isinstance(a, ast.Name) and a.id == new:
                    row.append('New')
                elif (isinstance(a, ast.Subscript) and isinstance(a.value, ast.Name) and a.value.id == pn
                      and isinstance(a.slice, ast.Constant) and isinstance(a.slice.value, int) and a.slice.value >= 0):
                    row.append('Old %d' % a.slice.value)
                else:
                    raise ExtractError('param_index_update: unrecognised slot expression at line %d' % a.lineno)
            rows.append('(%d, [%s])' % (t.comparators[0].value, '; '.join(row)))
        elif isinstance(st, ast.Expr) and isinstance(st.value, ast.Call) and callee_name(st.value.func) == 'print':
            tail = True
        else:
            raise ExtractError('param_index_update: unrecognised statement at line %d' % st.lineno)
    return '[' + ';\n   '.join(rows) + ']'


def nfields_params(tree):
    for st in tree.body:
        if isinstance(st, ast.Assign) and isinstance(st.targets[0], ast.Name) and st.targets[0].id == 'Params' and isinstance(st.value, ast.Call):
            a = st.value.args
            if len(a) >= 2 and isinstance(a[1], ast.List):
                return len(a[1].elts)
    raise ExtractError('Params namedtuple not found')


STUB = '(* GENERATED -- extraction FAILED (fail closed): %s *)\nDefinition extraction_failed : False := I.\n'


def gen_cfg_drivers(repo, outdir):
    path = os.path.join(outdir, 'CFG_drivers.v')
    try:
        parts = ['(* GENERATED on every run by /verif/tools/vlib/extract_drivers.py from the ASTs of the four load-step drivers and of\n'
                 '   Objective.param_index_update in /repo -- do not edit.  Vocabulary: model/M_C19_CFG.v. *)\n'
                 'From Coq Require Import List String.\nImport ListNotations.\nFrom OV.model Require Import M_C19_CFG.\nOpen Scope string_scope.\n']
        for name, file, fn in DRIVERS:
            tree = ast.parse(open(os.path.join(repo, file)).read())
            d = DriverCFG(find_func(tree, fn))
            parts.append('(* %s:%s   objective = %s *)\nDefinition cfg_%s : list stmt :=\n  %s.\n' % (file, fn, d.obj, name, d.emit()))
        otree = ast.parse(open(os.path.join(repo, 'optimism/Objective.py')).read())
        parts.append('Definition piu_rows : piu_table :=\n  %s.\n' % piu_rows(otree))
        parts.append('Definition params_nfields : nat := %d.\n' % nfields_params(otree))
        write_if_changed(path, '\n'.join(parts))
        return {'CFG_drivers': (True, 'ok', path)}
    except (ExtractError, SyntaxError, OSError) as ex:
        write_if_changed(path, STUB % str(ex).replace('*)', '* )'))
        return {'CFG_drivers': (False, str(ex), path)}
