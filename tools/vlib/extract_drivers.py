"""C19 / C07 extractors (fail closed), registered in extract.GENERATORS.

gen_cfg_drivers  -> coq/gen/CFG_drivers.v : control-flow IR (model/M_C19_CFG.v vocabulary) of the four load-step drivers
                    and the slot table of Objective.param_index_update, regenerated from the AST on every run.
gen_refs_nonlinear_solve -> coq/gen/Refs_NonlinearSolve.v : static call/arity/unpack table of inverse/NonlinearSolve.py (C07).

Any statement / call that is not recognised makes the generator write a stub that does not compile and report the reason."""
import ast
import os

from .extract import write_if_changed


class ExtractError(Exception):
    pass


DRIVERS = [('nonlinear_equation_solve', 'optimism/EquationSolver.py', 'nonlinear_equation_solve'),
           ('spg_solve', 'optimism/TrustRegionSPG.py', 'solve'),
           ('bound_constrained_solve', 'optimism/BoundConstrainedSolver.py', 'bound_constrained_solve'),
           ('augmented_lagrange_solve', 'optimism/AlSolver.py', 'augmented_lagrange_solve')]

SOLVER_CALLS = {'solver_algorithm', 'bound_constrained_trust_region_minimize', 'augmented_lagrange_solve', 'trust_region_minimize'}
SUBSOLVE_CALLS = {'solve_sub_step'}
OTHER_CALLS_WITH_OBJECTIVE = {'linear_update', 'callback', 'sub_problem_callback'}
OBJECTIVE_METHODS_OTHER = {'reset_kappa', 'total_residual', 'gradient', 'constraint', 'ncp', 'value'}
OBJECTIVE_ATTR_STORES_OTHER = {'lam'}


def callee_name(f):
    if isinstance(f, ast.Name):
        return f.id
    if isinstance(f, ast.Attribute):
        return f.attr
    return None


def find_func(tree, name):
    for st in tree.body:
        if isinstance(st, ast.FunctionDef) and st.name == name:
            return st
    raise ExtractError('def %s not found' % name)


class DriverCFG:
    def __init__(self, fnode):
        self.fn = fnode
        params = [a.arg for a in fnode.args.args]
        if not params:
            raise ExtractError('%s: no parameters' % fnode.name)
        self.obj = params[0]
        if 'p' not in params:
            raise ExtractError('%s: no parameter named p' % fnode.name)
        self.p = 'p'
        self.flag_names, self.x_names = set(), set()
        for node in ast.walk(fnode):
            if isinstance(node, ast.Assign) and isinstance(node.value, ast.Call):
                cn = callee_name(node.value.func)
                t = node.targets[0]
                if cn in SOLVER_CALLS:
                    if isinstance(t, ast.Tuple) and len(t.elts) == 2 and all(isinstance(e, ast.Name) for e in t.elts):
                        self.x_names.add(t.elts[0].id)
                        self.flag_names.add(t.elts[1].id)
                    elif isinstance(t, ast.Name):
                        self.x_names.add(t.id)
                    else:
                        raise ExtractError('%s: unrecognised target of solver call at line %d' % (fnode.name, node.lineno))
                elif cn in SUBSOLVE_CALLS:
                    if isinstance(t, ast.Tuple) and t.elts and isinstance(t.elts[0], ast.Name):
                        self.x_names.add(t.elts[0].id)
                    else:
                        raise ExtractError('%s: unrecognised target of solve_sub_step at line %d' % (fnode.name, node.lineno))

    # -- expression scans
    def calls_in(self, e):
        return [n for n in ast.walk(e) if isinstance(n, ast.Call)]

    def is_ws(self, call):
        return callee_name(call.func) in ('warm_start_increment', 'warm_start_increment_jax_safe')

    def check_ws(self, call):
        a = call.args
        if not (len(a) >= 3 and isinstance(a[0], ast.Name) and a[0].id == self.obj and isinstance(a[2], ast.Name) and a[2].id == self.p):
            raise ExtractError('%s: warm start call at line %d is not warm_start_increment(%s, x, %s)' % (self.fn.name, call.lineno, self.obj, self.p))

    def mentions_obj_as_arg(self, call):
        for a in list(call.args) + [k.value for k in call.keywords]:
            if isinstance(a, ast.Name) and a.id == self.obj:
                return True
        return False

    def classify_calls(self, e, allow_solver=False):
        """tags contributed by the calls inside expression e (in evaluation order, approximately source order)"""
        tags = []
        for c in sorted(self.calls_in(e), key=lambda n: (n.lineno, n.col_offset)):
            cn = callee_name(c.func)
            if self.is_ws(c):
                self.check_ws(c)
                tags.append('WarmStart')
            elif isinstance(c.func, ast.Attribute) and isinstance(c.func.value, ast.Name) and c.func.value.id == self.obj:
                if c.func.attr == 'update_precond':
                    tags.append('UpdatePrecond')
                elif c.func.attr not in OBJECTIVE_METHODS_OTHER:
                    raise ExtractError('%s: unrecognised method %s.%s(..) at line %d' % (self.fn.name, self.obj, c.func.attr, c.lineno))
            elif cn in SOLVER_CALLS or cn in SUBSOLVE_CALLS:
                if not allow_solver or c is not e:
                    raise ExtractError('%s: solver call in an unrecognised position at line %d' % (self.fn.name, c.lineno))
            elif self.mentions_obj_as_arg(c):
                if cn not in OTHER_CALLS_WITH_OBJECTIVE:
                    raise ExtractError('%s: unrecognised call %s(.. %s ..) at line %d' % (self.fn.name, cn, self.obj, c.lineno))
        return tags

    def solver_tag(self, call, binds_flag):
        cn = callee_name(call.func)
        if not (call.args and isinstance(call.args[0], ast.Name) and call.args[0].id == self.obj):
            raise ExtractError('%s: solver call at line %d does not receive %s first' % (self.fn.name, call.lineno, self.obj))
        if cn in SUBSOLVE_CALLS:
            return 'SubSolve'
        nested = False
        if cn == 'augmented_lagrange_solve':
            kw = {k.arg: k.value for k in call.keywords}
            ws = kw.get('useWarmStart')
            nested = not (isinstance(ws, ast.Constant) and ws.value is False)
            if not (len(call.args) >= 3 and isinstance(call.args[2], ast.Name) and call.args[2].id == self.p):
                raise ExtractError('%s: nested solve at line %d does not pass %s' % (self.fn.name, call.lineno, self.p))
        return 'Solve %s %s' % ('true' if binds_flag else 'false', 'true' if nested else 'false')

    def stores(self, targets):
        """-> list of tags for attribute / flag-name stores among assignment targets"""
        out = []
        for t in targets:
            for n in ast.walk(t):
                if isinstance(n, ast.Attribute) and isinstance(n.ctx, ast.Store):
                    if n.attr == 'p':
                        out.append('P')
                    elif isinstance(n.value, ast.Name) and n.value.id == self.obj and n.attr in OBJECTIVE_ATTR_STORES_OTHER:
                        pass
                    else:
                        raise ExtractError('%s: unrecognised attribute store .%s at line %d' % (self.fn.name, n.attr, n.lineno))
                if isinstance(n, ast.Name) and isinstance(n.ctx, ast.Store) and n.id in self.flag_names:
                    out.append('FLAG')
        return out

    # -- statements
    def block(self, stmts):
        out = []
        for st in stmts:
            out += self.stmt(st)
        return out

    def stmt(self, st):
        D = lambda t: 'Do (%s)' % t if ' ' in t else 'Do %s' % t
        if isinstance(st, ast.Expr) and isinstance(st.value, ast.Constant):
            return []
        if isinstance(st, ast.Pass):
            return []
        if isinstance(st, ast.Assign):
            v = st.value
            if isinstance(v, ast.Call) and callee_name(v.func) in (SOLVER_CALLS | SUBSOLVE_CALLS):
                t = st.targets[0]
                binds_flag = isinstance(t, ast.Tuple) and len(t.elts) == 2 and callee_name(v.func) in SOLVER_CALLS
                inner = []
                for a in list(v.args) + [k.value for k in v.keywords]:
                    inner += self.classify_calls(a)
                if 'P' in self.stores(st.targets):
                    raise ExtractError('%s: solver result stored to .p at line %d' % (self.fn.name, st.lineno))
                return [D(x) for x in inner] + [D(self.solver_tag(v, binds_flag))]
            tags = self.classify_calls(v)
            res = [D(x) for x in tags]
            sto = self.stores(st.targets)
            if 'P' in sto:
                t = st.targets[0]
                ok = (len(st.targets) == 1 and isinstance(t, ast.Attribute) and isinstance(t.value, ast.Name) and t.value.id == self.obj
                      and isinstance(v, ast.Name) and v.id == self.p)
                res.append(D('AssignPNew' if ok else 'AssignPOther'))
            elif 'FLAG' in sto:
                res.append(D('ClobberFlag'))
            else:
                res.append(D('Other'))
            return res
        if isinstance(st, ast.AugAssign):
            tags = self.classify_calls(st.value)
            sto = self.stores([st.target])
            res = [D(x) for x in tags]
            res.append(D('AssignPOther' if 'P' in sto else 'ClobberFlag' if 'FLAG' in sto else 'Other'))
            return res
        if isinstance(st, ast.Expr):
            tags = self.classify_calls(st.value)
            return [D(x) for x in tags] or [D('Other')]
        if isinstance(st, ast.If):
            pre = [D(x) for x in self.classify_calls(st.test)]
            cond = ast.unparse(st.test).replace('"', '""')
            return pre + ['IfS "%s" [%s] [%s]' % (cond, '; '.join(self.block(st.body)), '; '.join(self.block(st.orelse)))]
        if isinstance(st, ast.For):
            if st.orelse:
                raise ExtractError('%s: for/else at line %d' % (self.fn.name, st.lineno))
            pre = [D(x) for x in self.classify_calls(st.iter)]
            if self.stores([st.target]):
                raise ExtractError('%s: loop variable clobbers state at line %d' % (self.fn.name, st.lineno))
            return pre + ['Loop [%s]' % '; '.join(self.block(st.body))]
        if isinstance(st, ast.Return):
            v = st.value
            if v is None:
                raise ExtractError('%s: bare return at line %d' % (self.fn.name, st.lineno))
            pre = [D(x) for x in self.classify_calls(v)]
            if isinstance(v, ast.Tuple):
                if len(v.elts) != 2:
                    raise ExtractError('%s: return of a %d-tuple at line %d' % (self.fn.name, len(v.elts), st.lineno))
                xe, fe = v.elts
                flag = 'FlagSolver' if isinstance(fe, ast.Name) and fe.id in self.flag_names else 'FlagOther'
            else:
                xe, flag = v, 'FlagNone'
            names = {n.id for n in ast.walk(xe) if isinstance(n, ast.Name)}
            from_solver = bool(names & self.x_names)
            unscaled = False
            if isinstance(xe, ast.BinOp) and isinstance(xe.op, ast.Mult):
                for a, b in ((xe.left, xe.right), (xe.right, xe.left)):
                    if (isinstance(a, ast.Attribute) and a.attr == 'invScaling' and isinstance(a.value, ast.Name) and a.value.id == self.obj
                            and isinstance(b, ast.Name) and b.id in self.x_names):
                        unscaled = True
            return pre + ['Ret %s %s %s' % ('true' if from_solver else 'false', 'true' if unscaled else 'false', flag)]
        if isinstance(st, ast.Raise):
            return ['Raise']
        if isinstance(st, ast.Break):
            return ['Break']
        raise ExtractError('%s: unrecognised statement %s at line %d' % (self.fn.name, type(st).__name__, st.lineno))

    def emit(self):
        body = list(self.fn.body)
        return '[' + ';\n   '.join(self.block(body)) + ']'


def piu_rows(tree):
    fn = find_func(tree, 'param_index_update')
    params = [a.arg for a in fn.args.args]
    if len(params) != 3:
        raise ExtractError('param_index_update: expected 3 parameters')
    pn, idx, new = params
    rows = []
    tail = False
    for st in fn.body:
        if isinstance(st, ast.Expr) and isinstance(st.value, ast.Constant):
            continue
        if isinstance(st, ast.If) and not tail:
            t = st.test
            ok = (isinstance(t, ast.Compare) and isinstance(t.left, ast.Name) and t.left.id == idx and len(t.ops) == 1
                  and isinstance(t.ops[0], ast.Eq) and isinstance(t.comparators[0], ast.Constant) and isinstance(t.comparators[0].value, int)
                  and not st.orelse and len(st.body) == 1 and isinstance(st.body[0], ast.Return))
            if not ok:
                raise ExtractError('param_index_update: unrecognised branch at line %d' % st.lineno)
            r = st.body[0].value
            if not (isinstance(r, ast.Call) and callee_name(r.func) == 'Params' and not r.keywords):
                raise ExtractError('param_index_update: branch at line %d does not return Params(..)' % st.lineno)
            row = []
            for a in r.args:
                if isinstance(a, ast.Name) and a.id == new:
                    row.append('New')
                elif (isinstance(a, ast.Subscript) and isinstance(a.value, ast.Name) and a.value.id == pn
                      and isinstance(a.slice, ast.Constant) and isinstance(a.slice.value, int) and a.slice.value >= 0):
                    row.append('Old %d' % a.slice.value)
                else:
                    raise ExtractError('param_index_update: unrecognised slot expression at line %d' % a.lineno)
            rows.append('(%d, [%s])' % (t.comparators[0].value, '; '.join(row)))
        elif isinstance(st, ast.Expr) and isinstance(st.value, ast.Call) and callee_name(st.value.func) == 'print':
            tail = True
        else:
            raise ExtractError('param_index_update: unrecognised statement at line %d' % st.lineno)
    return '[' + ';\n   '.join(rows) + ']'


def nfields_params(tree):
    for st in tree.body:
        if isinstance(st, ast.Assign) and isinstance(st.targets[0], ast.Name) and st.targets[0].id == 'Params' and isinstance(st.value, ast.Call):
            a = st.value.args
            if len(a) >= 2 and isinstance(a[1], ast.List):
                return len(a[1].elts)
    raise ExtractError('Params namedtuple not found')


STUB = '(* GENERATED -- extraction FAILED (fail closed): %s *)\nDefinition extraction_failed : False := I.\n'


def gen_cfg_drivers(repo, outdir):
    path = os.path.join(outdir, 'CFG_drivers.v')
    try:
        parts = ['(* GENERATED on every run by /verif/tools/vlib/extract_drivers.py from the ASTs of the four load-step drivers and of\n'
                 '   Objective.param_index_update in /repo -- do not edit.  Vocabulary: model/M_C19_CFG.v. *)\n'
                 'From Coq Require Import List String.\nImport ListNotations.\nFrom OV.model Require Import M_C19_CFG.\nOpen Scope string_scope.\n']
        for name, file, fn in DRIVERS:
            tree = ast.parse(open(os.path.join(repo, file)).read())
            d = DriverCFG(find_func(tree, fn))
            parts.append('(* %s:%s   objective = %s *)\nDefinition cfg_%s : list stmt :=\n  %s.\n' % (file, fn, d.obj, name, d.emit()))
        otree = ast.parse(open(os.path.join(repo, 'optimism/Objective.py')).read())
        parts.append('Definition piu_rows : piu_table :=\n  %s.\n' % piu_rows(otree))
        parts.append('Definition params_nfields : nat := %d.\n' % nfields_params(otree))
        write_if_changed(path, '\n'.join(parts))
        return {'CFG_drivers': (True, 'ok', path)}
    except (ExtractError, SyntaxError, OSError) as ex:
        write_if_changed(path, STUB % str(ex).replace('*)', '* )'))
        return {'CFG_drivers': (False, str(ex), path)}


# ============================================================================ C07: reference / arity / unpack table, reverse rules

def cstr(s):
    return '"%s"' % str(s).replace('"', '""')


def cbool(b):
    return 'true' if b else 'false'


def clist(items):
    return '[' + '; '.join(items) + ']'


class ModuleIndex:
    """top-level defs, namedtuples and class methods of one optimism module"""

    def __init__(self, repo, relpath):
        self.rel = relpath
        self.tree = ast.parse(open(os.path.join(repo, relpath)).read())
        self.funcs, self.ntuples, self.classes = {}, {}, {}
        for st in self.tree.body:
            if isinstance(st, ast.FunctionDef):
                self.funcs[st.name] = st
            elif isinstance(st, ast.ClassDef):
                self.classes[st.name] = {m.name: m for m in st.body if isinstance(m, ast.FunctionDef)}
            elif isinstance(st, ast.Assign) and len(st.targets) == 1 and isinstance(st.targets[0], ast.Name) \
                    and isinstance(st.value, ast.Call) and callee_name(st.value.func) == 'namedtuple':
                a = st.value.args
                if len(a) >= 2 and isinstance(a[1], ast.List):
                    nd = 0
                    for k in st.value.keywords:
                        if k.arg == 'defaults' and isinstance(k.value, (ast.Tuple, ast.List)):
                            nd = len(k.value.elts)
                    self.ntuples[st.targets[0].id] = ([e.value for e in a[1].elts], nd)


def signature(fn, drop_self=False):
    a = fn.args
    params = [x.arg for x in a.posonlyargs + a.args]
    if drop_self and params:
        params = params[1:]
    return params, len(a.defaults), a.vararg is not None, a.kwarg is not None


def own_returns(fn):
    """tuple widths of the return statements of fn itself (nested defs / lambdas excluded); 0 = not a literal tuple"""
    out = []

    def walk(node):
        for ch in ast.iter_child_nodes(node):
            if isinstance(ch, (ast.FunctionDef, ast.Lambda, ast.ClassDef)):
                continue
            if isinstance(ch, ast.Return):
                out.append(len(ch.value.elts) if isinstance(ch.value, ast.Tuple) else 0)
            walk(ch)
    walk(fn)
    return out


def gen_refs_nonlinear_solve(repo, outdir):
    path = os.path.join(outdir, 'Refs_NonlinearSolve.v')
    try:
        rel = 'optimism/inverse/NonlinearSolve.py'
        tree = ast.parse(open(os.path.join(repo, rel)).read())
        # imported optimism modules:  from optimism import X
        mods = {}
        for st in tree.body:
            if isinstance(st, ast.ImportFrom) and st.module == 'optimism':
                for al in st.names:
                    p = 'optimism/%s.py' % al.name
                    if os.path.exists(os.path.join(repo, p)):
                        mods[al.asname or al.name] = ModuleIndex(repo, p)
        obj_index = ModuleIndex(repo, 'optimism/Objective.py')
        obj_methods = obj_index.classes.get('Objective', {})
        calls, unpacks, attrs = [], [], []

        def resolve(call, objname):
            """-> (callee label, exists, params, ndefaults, vararg, kwarg, fn node or None) or None if not statically resolvable"""
            f = call.func
            if isinstance(f, ast.Attribute) and isinstance(f.value, ast.Name):
                base, name = f.value.id, f.attr
                if base in mods:
                    mi = mods[base]
                    label = '%s.%s' % (base, name)
                    if name in mi.funcs:
                        return (label,) + (True,) + signature(mi.funcs[name]) + (mi.funcs[name],)
                    if name in mi.ntuples:
                        flds, nd = mi.ntuples[name]
                        return (label, True, flds, nd, False, False, None)
                    return (label, False, [], 0, False, False, None)
                if base == objname:
                    label = 'Objective.Objective.%s' % name
                    if name in obj_methods:
                        return (label,) + (True,) + signature(obj_methods[name], drop_self=True) + (obj_methods[name],)
                    return (label, False, [], 0, False, False, None)
            return None

        for fn in [st for st in tree.body if isinstance(st, ast.FunctionDef)]:
            objname = fn.args.args[0].arg if fn.args.args else None
            bound = {}      # local name -> resolved callee of the call it was bound to
            for node in ast.walk(fn):
                if isinstance(node, ast.Call):
                    r = resolve(node, objname)
                    if r is None:
                        continue
                    if any(isinstance(a, ast.Starred) for a in node.args) or any(k.arg is None for k in node.keywords):
                        raise ExtractError('%s line %d: star arguments in a resolvable call' % (fn.name, node.lineno))
                    label, ex, params, nd, va, kw, _ = r
                    calls.append('{| c_site := %s; c_line := %d; c_callee := %s; c_exists := %s; c_npos := %d; c_kws := %s; c_params := %s; '
                                 'c_ndefaults := %d; c_vararg := %s; c_kwarg := %s |}' %
                                 (cstr(fn.name), node.lineno, cstr(label), cbool(ex), len(node.args), clist([cstr(k.arg) for k in node.keywords]),
                                  clist([cstr(p) for p in params]), nd, cbool(va), cbool(kw)))
                elif isinstance(node, ast.Attribute) and isinstance(node.value, ast.Name) and node.value.id == objname and isinstance(node.ctx, ast.Load):
                    attrs.append((fn.name, node.lineno, node.attr))
            for node in ast.walk(fn):
                if isinstance(node, ast.Assign) and isinstance(node.value, ast.Call):
                    r = resolve(node.value, objname)
                    if r is None or r[6] is None:
                        continue
                    t = node.targets[0]
                    widths = own_returns(r[6])
                    if isinstance(t, ast.Tuple):
                        unpacks.append((fn.name, node.lineno, r[0], len(t.elts), True, widths))
                    elif isinstance(t, ast.Name):
                        bound[t.id] = (r[0], widths)
            for node in ast.walk(fn):
                if isinstance(node, ast.Subscript) and isinstance(node.slice, ast.Constant) and isinstance(node.slice.value, int) and node.slice.value >= 0:
                    if isinstance(node.value, ast.Name) and node.value.id in bound:
                        lab, widths = bound[node.value.id]
                    elif isinstance(node.value, ast.Call) and resolve(node.value, objname) is not None and resolve(node.value, objname)[6] is not None:
                        rr = resolve(node.value, objname)
                        lab, widths = rr[0], own_returns(rr[6])
                    else:
                        continue
                    if widths and all(w > 0 for w in widths):     # only when every return is a literal tuple
                        unpacks.append((fn.name, node.lineno, lab, node.slice.value + 1, False, widths))
        # attribute references on the objective that are not calls' func: must exist as method or be set in Objective.__init__
        init_attrs = set()
        if '__init__' in obj_methods:
            for n in ast.walk(obj_methods['__init__']):
                if isinstance(n, ast.Attribute) and isinstance(n.value, ast.Name) and n.value.id == 'self' and isinstance(n.ctx, ast.Store):
                    init_attrs.add(n.attr)
        attr_rows = ['(%s, %d, %s, %s)' % (cstr(a), ln, cstr(name), cbool(name in obj_methods or name in init_attrs)) for a, ln, name in attrs]
        unpack_rows = ['{| u_site := %s; u_line := %d; u_callee := %s; u_width := %d; u_exact := %s; u_ret_widths := %s |}' %
                       (cstr(a), ln, cstr(lab), w, cbool(ex), clist(['%d' % x for x in ws])) for a, ln, lab, w, ex, ws in unpacks]
        rules = [reverse_rule(tree, 'nonlinear_solve_b'), reverse_rule(tree, 'nonlinear_solve_with_state_b')]
        fwd = forward_slots(tree)
        afs = function_space_terms(repo)
        text = ('(* GENERATED on every run by /verif/tools/vlib/extract_drivers.py from %s (and Objective.py, EquationSolver.py,\n'
                '   WarmStart.py, AdjointFunctionSpace.py, FunctionSpace.py) in /repo -- do not edit.  Vocabulary: model/M_C07_Refs.v. *)\n'
                'From Coq Require Import List String.\nImport ListNotations.\nFrom OV.model Require Import M_C07_Refs.\nOpen Scope string_scope.\n\n'
                'Definition refs : list callref :=\n  %s.\n\nDefinition unpacks : list unpackref :=\n  %s.\n\n'
                '(* (function, line, attribute, defined as a method of class Objective or assigned in its __init__) *)\n'
                'Definition attr_refs : list (string * nat * string * bool) :=\n  %s.\n\n'
                'Definition rule_nonlinear_solve_b : revrule :=\n  %s.\n\nDefinition rule_nonlinear_solve_with_state_b : revrule :=\n  %s.\n\n'
                '(* nonlinear_solve: which slot of objective.p receives the differentiated argument, in the forward and in the reverse pass *)\n'
                'Definition nonlinear_solve_slot_forward : nat := %d.\nDefinition nonlinear_solve_slot_reverse : nat := %d.\n\n'
                '(* normalised bodies of the two function-space constructors (mesh.coords := coords, module prefixes dropped) *)\n'
                'Definition afs_term_adjoint : string := %s.\nDefinition afs_term_direct : string := %s.\n'
                'Definition afs_mesh_rebuild_copies_all_fields : bool := %s.\n'
                '(* Mesh fields the adjoint constructor does not pass on when it re-makes the mesh; fields passed but not copied verbatim *)\n'
                'Definition afs_mesh_fields_missing : list string := %s.\nDefinition afs_mesh_fields_wrong : list string := %s.\n'
                % (rel, clist(['\n   ' + c for c in calls]), clist(['\n   ' + u for u in unpack_rows]), clist(['\n   ' + a for a in attr_rows]),
                   rules[0], rules[1], fwd[0], fwd[1], cstr(afs[0]), cstr(afs[1]), cbool(afs[2]), clist([cstr(x) for x in afs[3]]), clist([cstr(x) for x in afs[4]])))
        text += rule_semantics_text(repo, tree)      # C07 deepening: slot helpers / closures, restore kinds, forward rules (additive)
        write_if_changed(path, text)
        return {'Refs_NonlinearSolve': (True, 'ok', path)}
    except (ExtractError, SyntaxError, OSError, KeyError, IndexError, AttributeError) as ex:
        write_if_changed(path, STUB % ('%s: %s' % (type(ex).__name__, str(ex))).replace('*)', '* )'))
        return {'Refs_NonlinearSolve': (False, str(ex), path)}


def _is_obj_attr(e, obj, attr):
    return isinstance(e, ast.Attribute) and isinstance(e.value, ast.Name) and e.value.id == obj and e.attr == attr


def reverse_rule(tree, name):
    fn = find_func(tree, name)
    params = [a.arg for a in fn.args.args]
    if len(params) != 4:
        raise ExtractError('%s: expected (objective, settings, rdata, v)' % name)
    obj, _, rdata, v = params
    # Uu, <pname> = rdata
    sol, pname = None, None
    for st in fn.body:
        if isinstance(st, ast.Assign) and isinstance(st.value, ast.Name) and st.value.id == rdata and isinstance(st.targets[0], ast.Tuple) \
                and len(st.targets[0].elts) == 2:
            sol, pname = st.targets[0].elts[0].id, st.targets[0].elts[1].id
    if sol is None:
        raise ExtractError('%s: residual data not unpacked as (solution, params)' % name)
    sets_p = False
    zeros = set()
    hv = None
    adj = None
    lam = None
    results = None
    dps = {}
    ret = None

    def is_zero_vec(e):
        if isinstance(e, ast.Name) and e.id in zeros:
            return True
        if isinstance(e, ast.BinOp) and isinstance(e.op, ast.Mult):
            for a, b in ((e.left, e.right), (e.right, e.left)):
                if isinstance(a, ast.Constant) and a.value == 0 and isinstance(b, ast.Name) and b.id == sol:
                    return True
                if is_zero_vec(a):       # zeros * anything
                    return True
        if isinstance(e, ast.Call) and callee_name(e.func) == 'zeros_like' and len(e.args) == 1 and isinstance(e.args[0], ast.Name) and e.args[0].id == sol:
            return True
        return False

    def vjp_slot(e):
        # objective.vec_jacobian_p<k>(sol, lam)[0]
        if isinstance(e, ast.Subscript) and isinstance(e.slice, ast.Constant) and e.slice.value == 0 and isinstance(e.value, ast.Call):
            c = e.value
            if isinstance(c.func, ast.Attribute) and isinstance(c.func.value, ast.Name) and c.func.value.id == obj and c.func.attr.startswith('vec_jacobian_p') \
                    and len(c.args) == 2 and isinstance(c.args[0], ast.Name) and c.args[0].id == sol and isinstance(c.args[1], ast.Name) and c.args[1].id == lam:
                return int(c.func.attr[len('vec_jacobian_p'):])
        return None

    for st in fn.body:
        if isinstance(st, ast.Assign) and len(st.targets) == 1:
            t, val = st.targets[0], st.value
            if _is_obj_attr(t, obj, 'p'):
                if isinstance(val, ast.Name) and val.id == pname:
                    sets_p = True
                elif isinstance(val, ast.Call) and callee_name(val.func) == 'param_index_update' and len(val.args) == 3 \
                        and _is_obj_attr(val.args[0], obj, 'p') and isinstance(val.args[2], ast.Name) and val.args[2].id == pname:
                    sets_p = True
            elif isinstance(t, ast.Name):
                if is_zero_vec(val):
                    zeros.add(t.id)
                elif isinstance(val, ast.Lambda) and len(val.args.args) == 1:
                    b = val.body
                    w = val.args.args[0].arg
                    if isinstance(b, ast.Call) and _is_obj_attr(b.func, obj, 'hessian_vec') and len(b.args) == 2 and isinstance(b.args[0], ast.Name) \
                            and b.args[0].id == sol and isinstance(b.args[1], ast.Name) and b.args[1].id == w:
                        hv = t.id
                elif isinstance(val, ast.Call) and callee_name(val.func) == 'solve_trust_region_minimization':
                    adj, results = val, t.id
                elif isinstance(val, ast.Subscript) and isinstance(val.value, ast.Name) and val.value.id == results and isinstance(val.slice, ast.Constant):
                    if val.slice.value == 0:
                        lam = t.id
                elif isinstance(val, ast.Constant) and val.value is None:
                    dps[t.id] = 'SlotNone'
                elif vjp_slot(val) is not None:
                    dps[t.id] = 'SlotVJP %d %d' % (vjp_slot(val), 99)
        elif isinstance(st, ast.If):
            # if p[k] != None: dpk = objective.vec_jacobian_pk(sol, lam)[0]   else: dpk = None
            t = st.test
            ok = (isinstance(t, ast.Compare) and isinstance(t.left, ast.Subscript) and isinstance(t.left.value, ast.Name) and t.left.value.id == pname
                  and isinstance(t.left.slice, ast.Constant) and len(t.ops) == 1 and isinstance(t.ops[0], (ast.NotEq, ast.IsNot))
                  and isinstance(t.comparators[0], ast.Constant) and t.comparators[0].value is None
                  and len(st.body) == 1 and len(st.orelse) == 1 and isinstance(st.body[0], ast.Assign) and isinstance(st.orelse[0], ast.Assign))
            if not ok:
                raise ExtractError('%s: unrecognised branch at line %d' % (name, st.lineno))
            a, b = st.body[0], st.orelse[0]
            k = vjp_slot(a.value)
            if not (isinstance(a.targets[0], ast.Name) and isinstance(b.targets[0], ast.Name) and a.targets[0].id == b.targets[0].id
                    and isinstance(b.value, ast.Constant) and b.value.value is None and k is not None):
                raise ExtractError('%s: unrecognised slot assignment at line %d' % (name, st.lineno))
            dps[a.targets[0].id] = 'SlotVJP %d %d' % (k, t.left.slice.value)
        elif isinstance(st, ast.Return):
            ret = st.value
        elif isinstance(st, ast.Expr) and isinstance(st.value, ast.Constant):
            pass
        else:
            raise ExtractError('%s: unrecognised statement at line %d' % (name, st.lineno))
    if adj is None or ret is None or not isinstance(ret, ast.Tuple) or len(ret.elts) != 2:
        raise ExtractError('%s: adjoint solve or 2-tuple return not found' % name)
    a = adj.args
    inf = len(a) >= 5 and isinstance(a[4], ast.Attribute) and a[4].attr == 'inf'
    slots_e = ret.elts[1]

    def slot_of(e):
        if isinstance(e, ast.Constant) and e.value is None:
            return 'SlotNone'
        if isinstance(e, ast.Name) and e.id in dps:
            return dps[e.id]
        k = vjp_slot(e)
        if k is not None:
            return 'SlotVJP %d 99' % k
        return 'SlotOtherExpr'
    if isinstance(slots_e, ast.Call) and callee_name(slots_e.func) == 'Params':
        slots = [slot_of(e) for e in slots_e.args]
    else:
        slots = [slot_of(slots_e)]
    return ('{| r_name := %s; r_sets_p := %s; r_adj_x0_zero := %s; r_adj_rhs_cotangent := %s; r_adj_op_hessian_at_solution := %s;\n'
            '     r_adj_precond := %s; r_adj_radius_inf := %s; r_lam_result0 := %s; r_guess_cotangent_zero := %s;\n     r_slots := %s |}'
            % (cstr(name), cbool(sets_p), cbool(len(a) >= 1 and is_zero_vec(a[0])), cbool(len(a) >= 2 and isinstance(a[1], ast.Name) and a[1].id == v),
               cbool(len(a) >= 3 and isinstance(a[2], ast.Name) and a[2].id == hv and hv is not None),
               cbool(len(a) >= 4 and _is_obj_attr(a[3], obj, 'apply_precond')), cbool(inf), cbool(lam is not None),
               cbool(is_zero_vec(ret.elts[0])), clist(['(%s)' % s if ' ' in s else s for s in slots])))


def forward_slots(tree):
    """slot index used by nonlinear_solve (forward) and nonlinear_solve_b (reverse) in param_index_update(objective.p, k, designParams)"""
    def slots_in(name):
        fn = find_func(tree, name)
        return [n.args[1].value for n in ast.walk(fn) if isinstance(n, ast.Call) and callee_name(n.func) == 'param_index_update'
                and len(n.args) == 3 and isinstance(n.args[1], ast.Constant)]
    out = []
    ks = slots_in('nonlinear_solve')
    if len(ks) != 1:
        raise ExtractError('nonlinear_solve: expected exactly one param_index_update with a literal slot')
    out.append(ks[0])
    # reverse pass: the slot the design argument occupies in the parameters the reverse rule establishes -- built in the rule itself (param_index_update
    # on objective.p) or, when the rule re-establishes the Params saved by the forward rule (since /repo 42a60d0), where the forward rule builds them
    ks = slots_in('nonlinear_solve_b')
    if not ks:
        ks = slots_in('nonlinear_solve_f')
    if len(ks) != 1:
        raise ExtractError('nonlinear_solve_b / nonlinear_solve_f: expected exactly one param_index_update with a literal slot')
    out.append(ks[0])
    return out


class _Norm(ast.NodeTransformer):
    def visit_Attribute(self, node):
        self.generic_visit(node)
        if isinstance(node.value, ast.Name) and node.value.id == 'mesh' and node.attr == 'coords':
            return ast.copy_location(ast.Name(id='coords', ctx=node.ctx), node)
        if isinstance(node.value, ast.Name) and node.value.id in ('jax', 'FunctionSpace', 'Mesh') and node.attr in ('vmap', 'FunctionSpace', 'Mesh'):
            return ast.copy_location(ast.Name(id=node.attr, ctx=node.ctx), node)
        return node


def function_space_terms(repo):
    ta = ast.parse(open(os.path.join(repo, 'optimism/inverse/AdjointFunctionSpace.py')).read())
    td = ast.parse(open(os.path.join(repo, 'optimism/FunctionSpace.py')).read())
    fa = find_func(ta, 'construct_function_space_for_adjoint')
    fd = find_func(td, 'construct_function_space_from_parent_element')
    mesh_fields = None
    tm = ast.parse(open(os.path.join(repo, 'optimism/Mesh.py')).read())
    for st in tm.body:
        if isinstance(st, ast.Assign) and isinstance(st.targets[0], ast.Name) and st.targets[0].id == 'Mesh' and isinstance(st.value, ast.Call) \
                and len(st.value.args) >= 2 and isinstance(st.value.args[1], ast.List):
            mesh_fields = [e.value for e in st.value.args[1].elts]
    rebuild_ok = False
    missing, extra, wrong = list(mesh_fields or []), [], []
    body_a = []
    for st in fa.body:
        if isinstance(st, ast.Assign) and isinstance(st.targets[0], ast.Name) and st.targets[0].id == 'mesh':
            c = st.value
            if isinstance(c, ast.Call) and callee_name(c.func) == 'Mesh' and not c.args and mesh_fields is not None:
                kws = {k.arg: k.value for k in c.keywords}
                missing = [f for f in mesh_fields if f not in kws]
                extra = [k for k in kws if k not in mesh_fields]
                wrong = [k for k, v in kws.items() if not ((k == 'coords' and isinstance(v, ast.Name) and v.id == 'coords') or
                                                           (k != 'coords' and isinstance(v, ast.Attribute) and isinstance(v.value, ast.Name)
                                                            and v.value.id == 'mesh' and v.attr == k))]
                rebuild_ok = not (missing or extra or wrong)
            continue
        body_a.append(st)
    strip = lambda body: [s for s in body if not (isinstance(s, ast.Expr) and isinstance(s.value, ast.Constant))]
    dump = lambda body: ' ;; '.join(ast.unparse(_Norm().visit(ast.parse(ast.unparse(s)))) for s in strip(body))
    return dump(body_a), dump(fd.body), rebuild_ok, missing, extra + wrong


# ============================================================================ C07 (additive): slot helpers / vjp closures of class Objective,
# how each reverse rule re-establishes objective.p (with statement order), what the forward rules save.  Soft flags: an unrecognised shape
# yields `false` fields (the Coq theorems then fail by computation), only a missing class / method raises.

def _name(e, ident):
    return isinstance(e, ast.Name) and e.id == ident


def _self_attr_call(e):
    """self.<attr>(args) -> (attr, args) else None"""
    if isinstance(e, ast.Call) and isinstance(e.func, ast.Attribute) and _name(e.func.value, 'self') and not e.keywords:
        return e.func.attr, e.args
    return None


def _jit_lambda(e, nparams):
    """jit(lambda a, b, c: body) -> ([a, b, c], body) else None"""
    if isinstance(e, ast.Call) and callee_name(e.func) == 'jit' and len(e.args) == 1 and isinstance(e.args[0], ast.Lambda):
        lam = e.args[0]
        names = [a.arg for a in lam.args.args]
        if len(names) == nparams and not lam.args.defaults and lam.args.vararg is None and lam.args.kwarg is None:
            return names, lam.body
    return None


def objective_closures(repo):
    tree = ast.parse(open(os.path.join(repo, 'optimism/Objective.py')).read())
    cls = None
    for st in tree.body:
        if isinstance(st, ast.ClassDef) and st.name == 'Objective':
            cls = st
    if cls is None:
        raise ExtractError('class Objective not found')
    methods = {m.name: m for m in cls.body if isinstance(m, ast.FunctionDef)}
    if '__init__' not in methods:
        raise ExtractError('Objective.__init__ not found')
    init = methods['__init__']
    iparams = [a.arg for a in init.args.args]
    assigns = {}        # self.<attr> = value, top-level statements of __init__, last one wins; reassignment elsewhere in the class is recorded
    for st in init.body:
        if isinstance(st, ast.Assign) and len(st.targets) == 1 and isinstance(st.targets[0], ast.Attribute) and _name(st.targets[0].value, 'self'):
            assigns[st.targets[0].attr] = st.value
    stores_elsewhere = set()
    for m in methods.values():
        if m.name == '__init__':
            continue
        for n in ast.walk(m):
            if isinstance(n, ast.Attribute) and _name(n.value, 'self') and isinstance(n.ctx, ast.Store):
                stores_elsewhere.add(n.attr)

    def method_passes(mname):
        """def m(self, a, b): return self.<cl>(a, self.p, b)  -> (cl, True) ; else (cl or '', False)"""
        m = methods.get(mname)
        if m is None:
            return '', False
        ps = [a.arg for a in m.args.args]
        body = [s for s in m.body if not (isinstance(s, ast.Expr) and isinstance(s.value, ast.Constant))]
        if len(ps) != 3 or len(body) != 1 or not isinstance(body[0], ast.Return):
            return '', False
        c = _self_attr_call(body[0].value)
        if c is None:
            return '', False
        attr, args = c
        ok = (len(args) == 3 and _name(args[0], ps[1]) and isinstance(args[1], ast.Attribute) and _name(args[1].value, 'self') and args[1].attr == 'p'
              and _name(args[2], ps[2]))
        return attr, ok

    rows = []
    for k in (0, 1, 2, 4):
        mname = 'vec_jacobian_p%d' % k
        if mname not in methods:
            raise ExtractError('Objective.%s not found' % mname)
        clname, passes = method_passes(mname)
        d = dict(defined=False, is_vjp=False, fun_ok=False, upd=99, primal_ok=False, primal=99, cot=False)
        jl = _jit_lambda(assigns.get(clname), 3) if clname in assigns and clname not in stores_elsewhere else None
        if jl is not None:
            (x, p, vx), body = jl
            d['defined'] = True
            # vjp(<fun>, <primal>)[1](<cot>)
            if (isinstance(body, ast.Call) and len(body.args) == 1 and not body.keywords and isinstance(body.func, ast.Subscript)
                    and isinstance(body.func.slice, ast.Constant) and body.func.slice.value == 1 and isinstance(body.func.value, ast.Call)
                    and callee_name(body.func.value.func) == 'vjp' and len(body.func.value.args) == 2 and not body.func.value.keywords):
                d['is_vjp'] = True
                fun, primal = body.func.value.args
                d['cot'] = _name(body.args[0], vx)
                if isinstance(fun, ast.Lambda) and len(fun.args.args) == 1:
                    q = fun.args.args[0].arg
                    c = _self_attr_call(fun.body)
                    if c is not None and c[0] == 'grad_x' and len(c[1]) == 2 and _name(c[1][0], x) and q not in (x, p, vx, 'self'):
                        u = c[1][1]
                        if (isinstance(u, ast.Call) and callee_name(u.func) == 'param_index_update' and len(u.args) == 3 and not u.keywords
                                and _name(u.args[0], p) and isinstance(u.args[1], ast.Constant) and isinstance(u.args[1].value, int)
                                and _name(u.args[2], q)):
                            d['fun_ok'] = True
                            d['upd'] = u.args[1].value
                if (isinstance(primal, ast.Subscript) and _name(primal.value, p) and isinstance(primal.slice, ast.Constant)
                        and isinstance(primal.slice.value, int) and primal.slice.value >= 0):
                    d['primal_ok'] = True
                    d['primal'] = primal.slice.value
        rows.append('{| vc_method := %s; vc_method_slot := %d; vc_closure := %s; vc_closure_defined := %s; vc_args_x_selfp_v := %s; vc_is_vjp := %s;\n'
                    '      vc_fun_is_grad_x_of_update := %s; vc_update_slot := %d; vc_primal_is_p_slot := %s; vc_primal_slot := %d; vc_cot_is_third := %s |}'
                    % (cstr(mname), k, cstr(clname), cbool(d['defined']), cbool(passes), cbool(d['is_vjp']), cbool(d['fun_ok']), d['upd'],
                       cbool(d['primal_ok']), d['primal'], cbool(d['cot'])))
    # hessian_vec: self.hess_vec(x, self.p, vx) with hess_vec = jit(lambda x, p, vx: jvp(lambda z: self.grad_x(z, p), (x,), (vx,))[1])
    hvname, hv_passes = method_passes('hessian_vec')
    hv_ok = False
    jl = _jit_lambda(assigns.get(hvname), 3) if hvname in assigns and hvname not in stores_elsewhere else None
    if jl is not None:
        (x, p, vx), body = jl
        if (isinstance(body, ast.Subscript) and isinstance(body.slice, ast.Constant) and body.slice.value == 1 and isinstance(body.value, ast.Call)
                and callee_name(body.value.func) == 'jvp' and len(body.value.args) == 3 and not body.value.keywords):
            fun, pr, tg = body.value.args
            one = lambda t, nm: isinstance(t, ast.Tuple) and len(t.elts) == 1 and _name(t.elts[0], nm)
            if isinstance(fun, ast.Lambda) and len(fun.args.args) == 1 and one(pr, x) and one(tg, vx):
                z = fun.args.args[0].arg
                c = _self_attr_call(fun.body)
                hv_ok = c is not None and c[0] == 'grad_x' and len(c[1]) == 2 and _name(c[1][0], z) and _name(c[1][1], p) and z not in (x, p, vx, 'self')
    # self.grad_x = jit(grad(f, 0)) with f the first parameter of __init__ after self
    gx = assigns.get('grad_x')
    gx_ok = (isinstance(gx, ast.Call) and callee_name(gx.func) == 'jit' and len(gx.args) == 1 and isinstance(gx.args[0], ast.Call)
             and callee_name(gx.args[0].func) == 'grad' and len(gx.args[0].args) == 2 and len(iparams) >= 2 and _name(gx.args[0].args[0], iparams[1])
             and isinstance(gx.args[0].args[1], ast.Constant) and gx.args[0].args[1].value == 0 and 'grad_x' not in stores_elsewhere)
    return rows, (hv_passes and hv_ok), gx_ok


def restore_kind(tree, name):
    """how <name> (a reverse rule) re-establishes objective.p, and whether that happens before the adjoint solve, the Hessian-vector
    closure and every slot product are evaluated (top-level statements only, in source order)"""
    fn = find_func(tree, name)
    obj, _, rdata, _ = [a.arg for a in fn.args.args]
    saved = None
    for st in fn.body:
        if isinstance(st, ast.Assign) and _name(st.value, rdata) and isinstance(st.targets[0], ast.Tuple) and len(st.targets[0].elts) == 2:
            saved = st.targets[0].elts[1].id
    kind, at = 'RestoreNone', None
    first_use = None
    for i, st in enumerate(fn.body):
        if isinstance(st, ast.Assign) and len(st.targets) == 1 and _is_obj_attr(st.targets[0], obj, 'p'):
            val = st.value
            if kind != 'RestoreNone':
                return 'RestoreNone'        # assigned twice: not the recognised shape
            if _name(val, saved):
                kind, at = 'RestoreSaved', i
            elif (isinstance(val, ast.Call) and callee_name(val.func) == 'param_index_update' and len(val.args) == 3 and _is_obj_attr(val.args[0], obj, 'p')
                  and isinstance(val.args[1], ast.Constant) and isinstance(val.args[1].value, int) and _name(val.args[2], saved)):
                kind, at = 'RestoreSlot %d' % val.args[1].value, i
            else:
                return 'RestoreNone'
            continue
        # first statement that evaluates something on the objective (a call on it; defining the lambda does not evaluate it)
        uses = False
        for n in ast.walk(st):
            if isinstance(n, ast.Lambda):
                continue
            if isinstance(n, ast.Call):
                for sub in ast.walk(n):
                    if isinstance(sub, ast.Name) and sub.id == obj:
                        uses = True
                if callee_name(n.func) == 'solve_trust_region_minimization':
                    uses = True
        # nested lambdas reference the objective lazily; ast.walk above still descends into them, which only makes `uses` true earlier (safe side)
        if uses and first_use is None:
            first_use = i
    if kind == 'RestoreNone' or (first_use is not None and first_use < at):
        return 'RestoreNone'
    return kind


def forward_rule_ok(tree, name, primal):
    """def <name>(a, b, c, d): Uu = <primal>(a, b, c, d); return Uu, (Uu, d)"""
    fn = find_func(tree, name)
    ps = [a.arg for a in fn.args.args]
    body = [s for s in fn.body if not (isinstance(s, ast.Expr) and isinstance(s.value, ast.Constant))]
    if len(ps) != 4 or len(body) != 2 or not isinstance(body[0], ast.Assign) or not isinstance(body[1], ast.Return):
        return False
    a, r = body
    if not (len(a.targets) == 1 and isinstance(a.targets[0], ast.Name) and isinstance(a.value, ast.Call) and _name(a.value.func, primal)
            and not a.value.keywords and len(a.value.args) == 4 and all(_name(x, p) for x, p in zip(a.value.args, ps))):
        return False
    u = a.targets[0].id
    rv = r.value
    return (isinstance(rv, ast.Tuple) and len(rv.elts) == 2 and _name(rv.elts[0], u) and isinstance(rv.elts[1], ast.Tuple) and len(rv.elts[1].elts) == 2
            and _name(rv.elts[1].elts[0], u) and _name(rv.elts[1].elts[1], ps[3]))


def primal_params_kind(tree, name):
    """with which parameters the primal <name>(obj, settings, guess, arg) runs the equation solver, in the restore_kind vocabulary:
    RestoreSaved: nonlinear_equation_solve(obj, <guess>, arg, ...) with `arg` never re-bound; RestoreSlot K: its third argument is a name bound exactly
    once, at top level, to param_index_update(obj.p, K, arg); RestoreNone: anything else, or the primal itself assigns obj.p (C07 history model, additive)"""
    fn = find_func(tree, name)
    ps = [a.arg for a in fn.args.args]
    if len(ps) != 4:
        return 'RestoreNone'
    obj, arg = ps[0], ps[3]
    calls = [n for n in ast.walk(fn) if isinstance(n, ast.Call) and callee_name(n.func) == 'nonlinear_equation_solve']
    if len(calls) != 1 or len(calls[0].args) < 3 or not _name(calls[0].args[0], obj) or any(k.arg in ('objective', 'p') for k in calls[0].keywords):
        return 'RestoreNone'
    stores = {}
    for n in ast.walk(fn):
        if isinstance(n, (ast.Assign, ast.AugAssign, ast.AnnAssign)):
            tg = n.targets if isinstance(n, ast.Assign) else [n.target]
            for t in tg:
                for sub in ast.walk(t):
                    if isinstance(sub, ast.Name):
                        stores.setdefault(sub.id, []).append(n)
                    if isinstance(sub, ast.Attribute) and _is_obj_attr(sub, obj, 'p'):
                        return 'RestoreNone'
    pe = calls[0].args[2]
    if not isinstance(pe, ast.Name):
        return 'RestoreNone'
    if pe.id == arg:
        return 'RestoreSaved' if arg not in stores else 'RestoreNone'
    if arg in stores or len(stores.get(pe.id, [])) != 1:
        return 'RestoreNone'
    st = stores[pe.id][0]
    if st not in fn.body or not isinstance(st, ast.Assign) or len(st.targets) != 1 or not isinstance(st.targets[0], ast.Name):
        return 'RestoreNone'
    val = st.value
    if (isinstance(val, ast.Call) and callee_name(val.func) == 'param_index_update' and len(val.args) == 3 and not val.keywords and _is_obj_attr(val.args[0], obj, 'p')
            and isinstance(val.args[1], ast.Constant) and isinstance(val.args[1].value, int) and _name(val.args[2], arg)
            and fn.body.index(st) < min(i for i, b in enumerate(fn.body) if any(n is calls[0] for n in ast.walk(b)))):
        return 'RestoreSlot %d' % val.args[1].value
    return 'RestoreNone'


def equation_solve_assigns_p(repo):
    """EquationSolver.nonlinear_equation_solve(objective, x0, p, ...): on every path `objective.p = p` has been executed when the solver algorithm is called,
    and objective.p is assigned nothing else (C07 history model, additive)"""
    tree = ast.parse(open(os.path.join(repo, 'optimism/EquationSolver.py')).read())
    fn = find_func(tree, 'nonlinear_equation_solve')
    ps = [a.arg for a in fn.args.args]
    if len(ps) < 5 or ps[4] != 'solver_algorithm':
        return False
    obj, par, alg = ps[0], ps[2], ps[4]
    state = dict(bad=False, called_ok=None)
    for n in ast.walk(fn):
        if isinstance(n, (ast.Assign, ast.AugAssign)):
            tg = n.targets if isinstance(n, ast.Assign) else [n.target]
            for t in tg:
                if any(isinstance(sub, ast.Name) and sub.id in (obj, par) for sub in ast.walk(t) if not isinstance(t, ast.Attribute)):
                    state['bad'] = True          # the parameter names themselves are re-bound

    def seq(stmts, assigned):
        for st in stmts:
            if isinstance(st, ast.Assign) and len(st.targets) == 1 and _is_obj_attr(st.targets[0], obj, 'p'):
                if _name(st.value, par):
                    assigned = True
                else:
                    state['bad'] = True
                continue
            if isinstance(st, ast.If):
                a1 = seq(st.body, assigned)
                a2 = seq(st.orelse, assigned)
                assigned = a1 and a2
                continue
            if isinstance(st, (ast.For, ast.While, ast.With, ast.Try)):
                state['bad'] = True
                continue
            for n in ast.walk(st):
                if isinstance(n, ast.Attribute) and isinstance(n.ctx, ast.Store) and _is_obj_attr(n, obj, 'p'):
                    state['bad'] = True
                if isinstance(n, ast.Call) and _name(n.func, alg):
                    state['called_ok'] = assigned if state['called_ok'] is None else (state['called_ok'] and assigned)
        return assigned
    seq(fn.body, False)
    return bool(state['called_ok']) and not state['bad']


def forward_rule_saves(tree, name, primal):
    """what the forward rule <name>(obj, settings, guess, arg) saves besides the solution, in the restore_kind vocabulary:  body `Uu = <primal>(obj, settings, guess, arg);
    return Uu, (Uu, X)` with X = arg -> RestoreSaved (the argument itself); X = param_index_update(obj.p, K, arg) -> RestoreSlot K (objective.p as the primal left it,
    slot K replaced by the argument); anything else -> RestoreNone (additive, C07)"""
    fn = find_func(tree, name)
    ps = [a.arg for a in fn.args.args]
    body = [s for s in fn.body if not (isinstance(s, ast.Expr) and isinstance(s.value, ast.Constant))]
    if len(ps) != 4 or len(body) != 2 or not isinstance(body[0], ast.Assign) or not isinstance(body[1], ast.Return):
        return 'RestoreNone'
    a, r = body
    if not (len(a.targets) == 1 and isinstance(a.targets[0], ast.Name) and isinstance(a.value, ast.Call) and _name(a.value.func, primal)
            and not a.value.keywords and len(a.value.args) == 4 and all(_name(x, p) for x, p in zip(a.value.args, ps))):
        return 'RestoreNone'
    u = a.targets[0].id
    rv = r.value
    if not (isinstance(rv, ast.Tuple) and len(rv.elts) == 2 and _name(rv.elts[0], u) and isinstance(rv.elts[1], ast.Tuple) and len(rv.elts[1].elts) == 2
            and _name(rv.elts[1].elts[0], u)):
        return 'RestoreNone'
    x = rv.elts[1].elts[1]
    if _name(x, ps[3]):
        return 'RestoreSaved'
    if (isinstance(x, ast.Call) and callee_name(x.func) == 'param_index_update' and len(x.args) == 3 and not x.keywords and _is_obj_attr(x.args[0], ps[0], 'p')
            and isinstance(x.args[1], ast.Constant) and isinstance(x.args[1].value, int) and _name(x.args[2], ps[3])):
        return 'RestoreSlot %d' % x.args[1].value
    return 'RestoreNone'


def defvjp_pairs(tree):
    """top-level <primal>.defvjp(<fwd>, <bwd>) statements"""
    out = []
    for st in tree.body:
        if isinstance(st, ast.Expr) and isinstance(st.value, ast.Call) and isinstance(st.value.func, ast.Attribute) and st.value.func.attr == 'defvjp' \
                and isinstance(st.value.func.value, ast.Name) and len(st.value.args) == 2 and all(isinstance(a, ast.Name) for a in st.value.args):
            out.append((st.value.func.value.id, st.value.args[0].id, st.value.args[1].id))
    return out


def rule_semantics_text(repo, tree):
    rows, hv_ok, gx_ok = objective_closures(repo)
    pairs = defvjp_pairs(tree)
    want = [('nonlinear_solve', 'nonlinear_solve_f', 'nonlinear_solve_b'),
            ('nonlinear_solve_with_state', 'nonlinear_solve_with_state_f', 'nonlinear_solve_with_state_b')]
    reg = all(w in pairs for w in want) and len(pairs) == len(want)
    return ('\n(* --- slot helpers of class Objective (vec_jacobian_p<k> and the jitted vjp closure each one calls), hessian_vec, grad_x;\n'
            '       how each reverse rule re-establishes objective.p (RestoreNone also when that is not done before the first evaluation on the objective);\n'
            '       what the forward rules save; the defvjp registrations --- *)\n'
            'Definition objective_vjp_closures : list vjpclosure :=\n  %s.\n'
            'Definition objective_hessian_vec_is_jvp_of_grad_x_at_self_p : bool := %s.\n'
            'Definition objective_grad_x_is_grad_of_f_arg0 : bool := %s.\n'
            'Definition restore_nonlinear_solve_b : restore_kind := %s.\n'
            'Definition restore_nonlinear_solve_with_state_b : restore_kind := %s.\n'
            'Definition fwd_nonlinear_solve_saves_solution_and_design : bool := %s.\n'
            'Definition fwd_nonlinear_solve_with_state_saves_solution_and_params : bool := %s.\n'
            'Definition defvjp_registrations_ok : bool := %s.\n'
            '(* with which parameters each primal runs the equation solver (RestoreSaved: its Params argument; RestoreSlot k: objective.p with slot k replaced by its\n'
            '   argument), and whether nonlinear_equation_solve leaves objective.p = the parameters it was given on every path *)\n'
            'Definition primal_params_nonlinear_solve : restore_kind := %s.\n'
            'Definition primal_params_nonlinear_solve_with_state : restore_kind := %s.\n'
            'Definition equation_solve_assigns_objective_p : bool := %s.\n'
            '(* what each forward rule saves besides the solution (RestoreSaved: its argument; RestoreSlot k: objective.p as the primal left it with slot k := argument) *)\n'
            'Definition fwd_saves_nonlinear_solve : restore_kind := %s.\n'
            'Definition fwd_saves_nonlinear_solve_with_state : restore_kind := %s.\n'
            % (clist(['\n   ' + r for r in rows]), cbool(hv_ok), cbool(gx_ok), restore_kind(tree, 'nonlinear_solve_b'),
               restore_kind(tree, 'nonlinear_solve_with_state_b'), cbool(forward_rule_ok(tree, 'nonlinear_solve_f', 'nonlinear_solve')),
               cbool(forward_rule_ok(tree, 'nonlinear_solve_with_state_f', 'nonlinear_solve_with_state')), cbool(reg),
               primal_params_kind(tree, 'nonlinear_solve'), primal_params_kind(tree, 'nonlinear_solve_with_state'), cbool(equation_solve_assigns_p(repo)),
               forward_rule_saves(tree, 'nonlinear_solve_f', 'nonlinear_solve'), forward_rule_saves(tree, 'nonlinear_solve_with_state_f', 'nonlinear_solve_with_state')))
