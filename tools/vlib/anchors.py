"""Source fingerprints of the files a property is anchored in.

The hand models (and the generators' budgets) were validated against a particular text of the source.  tools/anchors.json (committed,
written only by tools/mkanchors.py, never at run time) stores a comment/whitespace/docstring-insensitive hash of every anchored file.
When a file's current hash differs, nothing is concluded from that alone (a harmless rewrite changes it too); the driver merely runs the
correspondence and the conclusion streams with the THOROUGH budget even in the quick tier, because the tie between hand model and code now
rests on the correspondence alone and deserves the larger sample."""
import ast
import hashlib
import json
import os

from . import common as C

ANCHORS_JSON = os.path.join(C.VERIF, 'tools', 'anchors.json')


def _strip_docstrings(tree):
    for node in ast.walk(tree):
        if isinstance(node, (ast.FunctionDef, ast.ClassDef, ast.AsyncFunctionDef, ast.Module)):
            b = node.body
            if b and isinstance(b[0], ast.Expr) and isinstance(getattr(b[0], 'value', None), ast.Constant) and isinstance(b[0].value.value, str):
                node.body = b[1:] or [ast.Pass()]
    return tree


def fingerprint(path):
    try:
        src = open(path).read()
    except OSError:
        return 'missing'
    try:
        tree = _strip_docstrings(ast.parse(src))
        txt = ast.dump(tree, include_attributes=False)
    except SyntaxError:
        txt = 'syntax-error:' + src
    return hashlib.sha256(txt.encode()).hexdigest()[:20]


def files_of(prop, mod=None):
    files = set()
    for l in open(os.path.join(C.VERIF, 'properties.jsonl')):
        p = json.loads(l)
        if p['id'] == prop:
            files |= set(p.get('anchors', {}).get('files', []))
    files |= set(getattr(mod, 'ANCHOR_FILES', []) or [])
    try:
        from . import kernels
        gen = set(getattr(mod, 'GEN', []) or [])
        files |= {s['file'] for s in kernels.SPECS if s['name'] in gen and s.get('file')}
    except Exception:
        pass
    return sorted(files)


def current(prop, mod=None, repo=None):
    repo = repo or C.REPO
    return {f: fingerprint(os.path.join(repo, f)) for f in files_of(prop, mod)}


def changed(prop, mod=None):
    """-> (list of anchored files whose fingerprint differs from the recorded one, recorded?)"""
    try:
        rec = json.load(open(ANCHORS_JSON)).get(prop)
    except (OSError, ValueError):
        rec = None
    if rec is None:
        return [], False
    cur = current(prop, mod)
    return sorted(f for f in cur if rec.get(f) != cur[f]), True
