"""C14 extractor (fail closed), registered in extract.GENERATORS.

gen_cfg_dof -> coq/gen/CFG_Dof.v : the abstract syntax of every method of FunctionSpace.DofManager and of
               SparseMatrixAssembler.assemble_sparse_stiffness_matrix as terms of the little NumPy-subset IR of model/M_C14_IR.v,
               regenerated from the AST on every run, plus the module-level bindings of SparseMatrixAssembler.py (a module-level
               mutable object is hidden state of the assembler).  The translation is purely syntactic: no decision is taken here,
               the meaning of every name / call / subscript is given by the interpreter in Coq, where anything outside its vocabulary
               evaluates to an error, never to a value.  Every expression / statement form the IR does not have makes the generator
               write a stub that does not compile.  Dropped: docstrings, `pass`, comments, class-level annotations."""
import ast
import os

from .extract import write_if_changed


class ExtractError(Exception):
    pass


DOF_FILE = 'optimism/FunctionSpace.py'
DOF_CLASS = 'DofManager'
ASM_FILE = 'optimism/SparseMatrixAssembler.py'
ASM_FUNC = 'assemble_sparse_stiffness_matrix'

STUB = ('(* GENERATED stub: the source could not be translated into the IR of model/M_C14_IR.v: %s *)\n'
        'Definition cfg_dof_translation_failed : True := this_does_not_compile.\n')


def cstr(s):
    if any(ord(ch) < 32 or ord(ch) > 126 for ch in s):
        raise ExtractError('non-printable character in a string constant')
    return '"%s"' % s.replace('"', '""')


def clist(items, sep='; '):
    return '[' + sep.join(items) + ']'


def expr(e):
    if isinstance(e, ast.Name):
        return 'EName %s' % cstr(e.id)
    if isinstance(e, ast.Attribute):
        return 'EAttr (%s) %s' % (expr(e.value), cstr(e.attr))
    if isinstance(e, ast.Constant):
        v = e.value
        if v is None:
            return 'ENone'
        if isinstance(v, bool):
            return 'EBool %s' % ('true' if v else 'false')
        if isinstance(v, int):
            if v < 0:
                raise ExtractError('negative literal')
            return 'EInt %d' % v
        if isinstance(v, float):
            return 'EFloat %s' % cstr(repr(v))
        if isinstance(v, str):
            return 'EStr %s' % cstr(v)
        raise ExtractError('constant of type %s at line %d' % (type(v).__name__, e.lineno))
    if isinstance(e, ast.Tuple):
        return 'ETuple %s' % clist(['(%s)' % expr(x) for x in e.elts])
    if isinstance(e, ast.Call):
        if any(isinstance(a, ast.Starred) for a in e.args) or any(k.arg is None for k in e.keywords):
            raise ExtractError('star arguments at line %d' % e.lineno)
        return 'ECall (%s) %s %s' % (expr(e.func), clist(['(%s)' % expr(a) for a in e.args]),
                                     clist(['(%s, %s)' % (cstr(k.arg), expr(k.value)) for k in e.keywords]))
    if isinstance(e, ast.Subscript):
        sl = e.slice
        idx = list(sl.elts) if isinstance(sl, ast.Tuple) else [sl]
        return 'EIndex (%s) %s' % (expr(e.value), clist(['(%s)' % index(i) for i in idx]))
    if isinstance(e, ast.UnaryOp):
        if isinstance(e.op, ast.Invert):
            return 'EInvert (%s)' % expr(e.operand)
        if isinstance(e.op, ast.USub):
            return 'ENeg (%s)' % expr(e.operand)
        raise ExtractError('unary operator %s at line %d' % (type(e.op).__name__, e.lineno))
    if isinstance(e, ast.BinOp):
        ops = {ast.Mult: 'EMul', ast.Add: 'EAdd'}
        if type(e.op) not in ops:
            raise ExtractError('binary operator %s at line %d' % (type(e.op).__name__, e.lineno))
        return '%s (%s) (%s)' % (ops[type(e.op)], expr(e.left), expr(e.right))
    raise ExtractError('expression form %s at line %d' % (type(e).__name__, getattr(e, 'lineno', 0)))


def index(i):
    if isinstance(i, ast.Slice):
        if i.step is not None:
            raise ExtractError('slice with a step at line %d' % i.lineno)
        if i.lower is None and i.upper is None:
            return 'EColon'
        return 'ESlice (%s) (%s)' % (expr(i.lower) if i.lower is not None else 'ENone', expr(i.upper) if i.upper is not None else 'ENone')
    return expr(i)


def target(t):
    if isinstance(t, (ast.Name, ast.Attribute, ast.Subscript)):
        return [expr(t)]
    if isinstance(t, ast.Tuple):
        out = []
        for x in t.elts:
            if not isinstance(x, (ast.Name, ast.Attribute)):
                raise ExtractError('nested assignment target at line %d' % t.lineno)
            out.append(expr(x))
        return out
    raise ExtractError('assignment target %s at line %d' % (type(t).__name__, t.lineno))


def stmts(body, ind):
    out = []
    for k, st in enumerate(body):
        if isinstance(st, ast.Expr) and isinstance(st.value, ast.Constant) and isinstance(st.value.value, str):
            continue                                   # docstring / string statement
        if isinstance(st, ast.Pass):
            continue
        if isinstance(st, ast.Assign):
            if len(st.targets) != 1:
                raise ExtractError('chained assignment at line %d' % st.lineno)
            out.append('SAssign %s (%s)' % (clist(['(%s)' % t for t in target(st.targets[0])]), expr(st.value)))
        elif isinstance(st, ast.AugAssign):
            if not isinstance(st.op, ast.Add) or not isinstance(st.target, ast.Name):
                raise ExtractError('augmented assignment other than `name += e` at line %d' % st.lineno)
            out.append('SAugAdd %s (%s)' % (cstr(st.target.id), expr(st.value)))
        elif isinstance(st, ast.For):
            if st.orelse:
                raise ExtractError('for/else at line %d' % st.lineno)
            tv = st.target
            names = [tv] if isinstance(tv, ast.Name) else (list(tv.elts) if isinstance(tv, ast.Tuple) else None)
            if names is None or not all(isinstance(x, ast.Name) for x in names):
                raise ExtractError('loop target at line %d' % st.lineno)
            out.append('SFor %s (%s)\n%s %s' % (clist([cstr(x.id) for x in names]), expr(st.iter), ind + ' ', stmts(st.body, ind + '  ')))
        elif isinstance(st, ast.Return):
            out.append('SReturn (%s)' % (expr(st.value) if st.value is not None else 'ENone'))
        else:
            raise ExtractError('statement form %s at line %d' % (type(st).__name__, st.lineno))
    return clist(out, ';\n' + ind)


def fundef(fn):
    a = fn.args
    if a.vararg or a.kwarg or a.kwonlyargs or a.posonlyargs:
        raise ExtractError('def %s: unsupported parameter kinds' % fn.name)
    if fn.decorator_list:
        raise ExtractError('def %s: decorators' % fn.name)
    for node in ast.walk(fn):
        if isinstance(node, (ast.Global, ast.Nonlocal, ast.Lambda, ast.ListComp, ast.GeneratorExp, ast.While, ast.If, ast.Try, ast.With,
                             ast.FunctionDef)) and node is not fn:
            raise ExtractError('def %s: %s at line %d' % (fn.name, type(node).__name__, node.lineno))
    params = [x.arg for x in a.args]
    nd = len(a.defaults)
    defaults = ['(%s, %s)' % (cstr(p), expr(d)) for p, d in zip(params[len(params) - nd:], a.defaults)]
    return ('{| f_params := %s;\n     f_defaults := %s;\n     f_body :=\n   %s |}'
            % (clist([cstr(p) for p in params]), clist(defaults), stmts(fn.body, '    ')))


def gen_cfg_dof(repo, outdir):
    path = os.path.join(outdir, 'CFG_Dof.v')
    try:
        parts = ['(* GENERATED on every run by /verif/tools/vlib/extract_dof.py from the AST of %s (class %s) and %s in /repo -- do not edit.\n'
                 '   Vocabulary and interpreter: model/M_C14_IR.v. *)\n'
                 'From Coq Require Import List String ZArith.\nImport ListNotations.\nFrom OV.model Require Import M_C14_IR.\n'
                 'Open Scope string_scope.\n' % (DOF_FILE, DOF_CLASS, ASM_FILE)]
        tree = ast.parse(open(os.path.join(repo, DOF_FILE)).read())
        cls = [st for st in tree.body if isinstance(st, ast.ClassDef) and st.name == DOF_CLASS]
        if len(cls) != 1:
            raise ExtractError('class %s not found exactly once' % DOF_CLASS)
        meths, fields = [], []
        for st in cls[0].body:
            if isinstance(st, ast.FunctionDef):
                if st.name in meths:
                    raise ExtractError('method %s defined twice' % st.name)
                meths.append(st.name)
                parts.append('Definition cfg_dof_%s : fundef :=\n  %s.\n' % (st.name.strip('_'), fundef(st)))
            elif isinstance(st, ast.AnnAssign) and isinstance(st.target, ast.Name) and st.value is None:
                fields.append(st.target.id)
            elif isinstance(st, ast.Expr) and isinstance(st.value, ast.Constant) and isinstance(st.value.value, str):
                continue
            elif isinstance(st, ast.Pass):
                continue
            else:
                raise ExtractError('class-level statement %s at line %d' % (type(st).__name__, st.lineno))
        parts.append('Definition cfg_dof_methods : list (string * fundef) :=\n  %s.\n'
                     % clist(['(%s, cfg_dof_%s)' % (cstr(m), m.strip('_')) for m in meths], ';\n   '))
        parts.append('Definition cfg_dof_fields : list string :=\n  %s.\n' % clist([cstr(f) for f in fields]))
        # ---- the assembler module: its function, and everything bound at module level
        atree = ast.parse(open(os.path.join(repo, ASM_FILE)).read())
        fdefs, bound, imports = {}, [], []
        for st in atree.body:
            if isinstance(st, ast.FunctionDef):
                if st.name in fdefs:
                    raise ExtractError('def %s occurs twice' % st.name)
                fdefs[st.name] = st
            elif isinstance(st, (ast.Import, ast.ImportFrom)):
                for al in st.names:
                    imports.append((al.asname or al.name).split('.')[0])
            elif isinstance(st, ast.Expr) and isinstance(st.value, ast.Constant) and isinstance(st.value.value, str):
                continue
            elif isinstance(st, (ast.Assign, ast.AnnAssign, ast.AugAssign)):
                tg = st.targets if isinstance(st, ast.Assign) else [st.target]
                for t in tg:
                    for n in ast.walk(t):
                        if isinstance(n, ast.Name):
                            bound.append(n.id)
            else:
                raise ExtractError('%s: module-level statement %s at line %d' % (ASM_FILE, type(st).__name__, st.lineno))
        if ASM_FUNC not in fdefs:
            raise ExtractError('def %s not found' % ASM_FUNC)
        parts.append('Definition cfg_asm_%s : fundef :=\n  %s.\n' % (ASM_FUNC, fundef(fdefs[ASM_FUNC])))
        parts.append('(* names bound by module-level assignments of %s (module state), its other functions, its imports *)' % ASM_FILE)
        parts.append('Definition cfg_asm_module_state : list string :=\n  %s.\n' % clist([cstr(b) for b in bound]))
        parts.append('Definition cfg_asm_other_functions : list string :=\n  %s.\n' % clist([cstr(f) for f in fdefs if f != ASM_FUNC]))
        parts.append('Definition cfg_asm_imports : list string :=\n  %s.\n' % clist([cstr(f) for f in imports]))
        write_if_changed(path, '\n'.join(parts))
        return {'CFG_Dof': (True, 'ok', path)}
    except (ExtractError, SyntaxError, OSError, ValueError) as ex:
        write_if_changed(path, STUB % str(ex).replace('*)', '* )'))
        return {'CFG_Dof': (False, str(ex), path)}
