#!/venv/bin/python
"""Demo of open finding C13-READ-NAMES (optimism/ReadExodusMesh.py) and of the proposed repair.

    PYTHONPATH=/repo JAX_PLATFORMS=cpu JAX_ENABLE_X64=1 /venv/bin/python /verif/tools/vlib/c13_demo_read_names.py

A well-formed TRI3 Exodus file with 4 nodes and two one-element blocks: the first block is NAMED 'block_2', the second is unnamed, so
the reader auto-names it 'block_2' as well.  `blocks[blockNames[i]] = elemRange` then overwrites the first entry: the mesh has two
elements but one block, element 0 is in no block, and block_maps (slices taken while iterating over the blocks dict) gives the surviving
block -- which holds element 1, global number 20 -- the global number of element 0.  The same happens to node sets and side sets through
`dict(zip(names, ...))`.  Coq: C13_read_exodus_name_clash_refuted, C13_read_block_maps_name_clash_refuted (coq/props/P_C13.v).

With tools/vlib/c13_read_names.patch applied (in memory here; /repo is not touched) the reader raises ValueError instead; by
C13_read_exodus_checked_spec / C13_read_exodus_rejects_iff_record_lost it rejects exactly the files on which a record would be lost and
by C13_read_exodus_checked_no_loss nothing is lost on the files it accepts.

netCDF4 is not installed on this machine: the reader code runs unchanged on the in-memory stand-in for netCDF4.Dataset of the C13 harness.
"""
import os
import sys

sys.path.insert(0, os.path.join(os.path.dirname(os.path.abspath(__file__)), '..'))
from props import c13  # noqa: E402


def main():
    import numpy as np
    w = c13.exodus_name_clash_witness()
    print('file: TRI3, 4 nodes, connect1=[[1,2,3]] connect2=[[1,3,4]], eb_names=[\'block_2\', \'\'], elem_num_map=[10, 20]')
    print('present reader  :', w)
    lost = 'rejected' not in w and w['elements'] == 2 and sorted(x for v in w['blocks'].values() for x in v) != [0, 1]
    print('   -> element 0 is in no block, block_maps misaligned' if lost else '   -> nothing lost (finding no longer reproduces)')
    pmod, err = c13.patched_reader_module()
    if pmod is None:
        print('the proposed patch does not apply to the current source:', err)
        return 0 if not lost else 1
    try:
        m = pmod.read_exodus_mesh('c13_name_clash')
        print('patched reader  : accepted', {k: np.asarray(v).tolist() for k, v in m.blocks.items()})
        ok = False
    except ValueError as ex:
        print('patched reader  : ValueError:', ex)
        ok = True
    # a file with distinct names is read as before
    c13._Dataset.store['c13_demo_ok'] = (c13._Dataset.store['c13_name_clash'][0],
                                         dict(c13._Dataset.store['c13_name_clash'][1], eb_names=c13._Var(c13.names_record(['left', '']))))
    m = pmod.read_exodus_mesh('c13_demo_ok')
    print('patched reader, eb_names=[\'left\', \'\'] :', {k: np.asarray(v).tolist() for k, v in m.blocks.items()},
          {k: np.asarray(v).tolist() for k, v in m.block_maps.items()})
    return 1 if (lost or not ok) else 0


if __name__ == '__main__':
    sys.exit(main())
