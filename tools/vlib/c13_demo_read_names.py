#!/venv/bin/python
"""Demo of finding C13-READ-NAMES (optimism/ReadExodusMesh.py), FIXED by /repo ce166ed.

    PYTHONPATH=/repo JAX_PLATFORMS=cpu JAX_ENABLE_X64=1 /venv/bin/python /verif/tools/vlib/c13_demo_read_names.py

A well-formed TRI3 Exodus file with 4 nodes and two one-element blocks: the first block is NAMED 'block_2', the second is unnamed, so
the reader auto-names it 'block_2' as well.  Before ce166ed `blocks[blockNames[i]] = elemRange` overwrote the first entry: two elements
but one block, element 0 in no block, and block_maps (slices taken while iterating over the blocks dict) gave the surviving block --
element 1, global number 20 -- the global number of element 0 (Coq: C13_read_exodus_name_clash_refuted,
C13_read_block_maps_name_clash_refuted).  Since ce166ed _check_names_are_distinct raises ValueError; by C13_read_exodus_checked_spec /
C13_read_exodus_rejects_iff_record_lost the reader rejects exactly the files on which a record would be lost and by
C13_read_exodus_mesh_whole_file nothing is lost on the files it accepts.  Exit code 1 = the defect is back.

The reader code runs unchanged on the in-memory stand-in for netCDF4.Dataset of the C13 harness.
"""
import os
import sys

sys.path.insert(0, os.path.join(os.path.dirname(os.path.abspath(__file__)), '..'))
from props import c13  # noqa: E402


def main():
    import numpy as np
    w = c13.exodus_name_clash_witness()          # installs the stand-in for netCDF4.Dataset before the reader module is imported
    from optimism import ReadExodusMesh
    print('file: TRI3, 4 nodes, connect1=[[1,2,3]] connect2=[[1,3,4]], eb_names=[\'block_2\', \'\'], elem_num_map=[10, 20]')
    print('reader :', w)
    lost = 'rejected' not in w and (len(w['blocks']) < 2 or sorted(x for v in w['blocks'].values() for x in v) != [0, 1])
    print('   -> DEFECT: element 0 is in no block, block_maps misaligned' if lost else '   -> rejected / nothing lost, as required')
    # a file with distinct names is read as before
    dims, var = c13._Dataset.store['c13_name_clash']
    c13._Dataset.store['c13_demo_ok'] = (dims, dict(var, eb_names=c13._Var(c13.names_record(['left', '']))))
    m = ReadExodusMesh.read_exodus_mesh('c13_demo_ok')
    print('reader, eb_names=[\'left\', \'\'] :', {k: np.asarray(v).tolist() for k, v in m.blocks.items()},
          {k: np.asarray(v).tolist() for k, v in m.block_maps.items()})
    print('structure check (names_check_structure):', c13.names_check_structure() or 'ok')
    return 1 if lost else 0


if __name__ == '__main__':
    sys.exit(main())
