"""C17 extractor (registered in extract.GENERATORS): what optimism/ScalarRootFind.find_root hands to jax.lax.custom_root.

Gen_C17FindRoot.v, regenerated on every run, fail-closed:

  tangent_solve (g : T -> T) (y : T) : T
      the `tangent_solve` argument of the custom_root call, whatever syntactic form it has (an inline lambda, a nested def, a
      module-level def, or a name bound to a lambda), translated with the ordinary kernel translator (py2coq): the linearised
      residual g is a black-box scalar oracle, module-level numeric constants the expression reads become definitions.
  find_root_post (cr_x cr_aux : T) (f : T -> T) (x0 bracket_0 bracket_1 max_iters x_tol r_tol : T) : T * T
      the body of find_root with the custom_root call replaced by its result (cr_x, cr_aux) (has_aux=True; the auxiliary
      SolutionInfo is one opaque token): whatever find_root does to the value custom_root returns before returning it.
      The theorems need this to be the identity (a clamp / rounding / where on the result changes the derivative at a bracket end).
  custom_root wiring (plain booleans computed from the AST, checked by computation in Coq):
      the residual handed to custom_root is find_root's own f, the initial guess its x0, the solve is
      `rtsafe_(F, X0, bracket, settings)` on the solve's own two parameters and find_root's bracket and settings, has_aux is True.

An unrecognised structure (no / several custom_root calls, *args, a tangent solve that is neither a lambda nor a resolvable def,
untranslatable syntax) produces a stub that does not compile, and the driver reports the broken tie."""
import ast
import copy
import os
import tempfile

from . import py2coq

FILE = 'optimism/ScalarRootFind.py'
MODULE = 'C17FindRoot'
CR_PARAMS = ['f', 'initial_guess', 'solve', 'tangent_solve', 'has_aux']


class Unrecognised(Exception):
    pass


def _is_custom_root(call):
    f = call.func
    return (isinstance(f, ast.Attribute) and f.attr == 'custom_root') or (isinstance(f, ast.Name) and f.id == 'custom_root')


def _module_def(tree, name):
    for st in tree.body:
        if isinstance(st, ast.FunctionDef) and st.name == name:
            return st
    return None


def _plain_args(node, n, what):
    a = node.args
    if a.vararg or a.kwarg or a.kwonlyargs or a.defaults or getattr(a, 'posonlyargs', []) or len(a.args) != n:
        raise Unrecognised('%s must take exactly %d plain positional parameters' % (what, n))
    return [x.arg for x in a.args]


def _resolve_callable(node, fr, tree, what):
    """-> (param names, list of body statements, form text) for a lambda / a name bound to a def or a lambda (innermost scope first)"""
    if isinstance(node, ast.Lambda):
        return [x.arg for x in node.args.args], node, [ast.Return(value=node.body)], 'lambda'
    if isinstance(node, ast.Name):
        cands = []
        for scope, label in ((fr.body, 'nested'), (tree.body, 'module-level')):
            for st in scope:
                if isinstance(st, ast.FunctionDef) and st.name == node.id:
                    cands.append((st, list(st.body), '%s def %s' % (label, st.name)))
                elif isinstance(st, ast.Assign) and len(st.targets) == 1 and isinstance(st.targets[0], ast.Name) \
                        and st.targets[0].id == node.id:
                    if not isinstance(st.value, ast.Lambda):
                        raise Unrecognised('%s: %s is bound to something that is neither a def nor a lambda (line %d)' % (what, node.id, st.lineno))
                    cands.append((st.value, [ast.Return(value=st.value.body)], '%s lambda %s' % (label, node.id)))
            if cands:
                break
        if len(cands) != 1:
            raise Unrecognised('%s: the name %s resolves to %d definitions' % (what, node.id, len(cands)))
        fn, body, form = cands[0]
        return [x.arg for x in fn.args.args], fn, body, form
    raise Unrecognised('%s is neither a lambda nor a plain name (line %d): %s' % (what, getattr(node, 'lineno', -1), type(node).__name__))


def _free_module_constants(stmts, params, tree):
    """module-level names with a numeric literal value that the statements read (they become `consts` of the kernel spec)"""
    assigned = set(params)
    for st in stmts:
        for n in ast.walk(st):
            if isinstance(n, ast.Name) and isinstance(n.ctx, ast.Store):
                assigned.add(n.id)
    out = []
    for st in stmts:
        for n in ast.walk(st):
            if isinstance(n, ast.Name) and isinstance(n.ctx, ast.Load) and n.id not in assigned and n.id not in out:
                for ms in tree.body:
                    if isinstance(ms, ast.Assign) and len(ms.targets) == 1 and isinstance(ms.targets[0], ast.Name) and ms.targets[0].id == n.id:
                        v = ms.value
                        while isinstance(v, ast.UnaryOp):
                            v = v.operand
                        if isinstance(v, ast.Constant) and isinstance(v.value, (int, float)) and not isinstance(v.value, bool):
                            out.append(n.id)
    return out


def _settings_fields(tree):
    for st in tree.body:
        if isinstance(st, ast.Assign) and len(st.targets) == 1 and isinstance(st.targets[0], ast.Name) and st.targets[0].id == 'Settings' \
                and isinstance(st.value, ast.Call) and len(st.value.args) == 2 and isinstance(st.value.args[1], (ast.List, ast.Tuple)):
            fs = [e.value for e in st.value.args[1].elts if isinstance(e, ast.Constant) and isinstance(e.value, str)]
            if fs:
                return fs
    raise Unrecognised('the Settings namedtuple is not declared as namedtuple(name, [fields])')


def analyse(src):
    """-> dict(synthetic source text, kernel spec, wiring facts)"""
    tree = ast.parse(src)
    fr = _module_def(tree, 'find_root')
    if fr is None:
        raise Unrecognised('def find_root not found')
    fparams = _plain_args(fr, 4, 'find_root')
    calls = [n for n in ast.walk(fr) if isinstance(n, ast.Call) and _is_custom_root(n)]
    if len(calls) != 1:
        raise Unrecognised('find_root contains %d custom_root calls (expected exactly one)' % len(calls))
    call = calls[0]
    bound = {}
    for i, a in enumerate(call.args):
        if isinstance(a, ast.Starred) or i >= len(CR_PARAMS):
            raise Unrecognised('custom_root call with *args / too many arguments')
        bound[CR_PARAMS[i]] = a
    for k in call.keywords:
        if k.arg is None or k.arg not in CR_PARAMS or k.arg in bound:
            raise Unrecognised('custom_root call with **kwargs / an unknown or repeated keyword')
        bound[k.arg] = k.value
    for need in CR_PARAMS[:4]:
        if need not in bound:
            raise Unrecognised('custom_root call without %s' % need)
    has_aux = isinstance(bound.get('has_aux'), ast.Constant) and bound['has_aux'].value is True
    if 'has_aux' in bound and not isinstance(bound['has_aux'], ast.Constant):
        raise Unrecognised('has_aux is not a literal')

    # ---- the tangent solve
    tparams, tfn, tbody, tform = _resolve_callable(bound['tangent_solve'], fr, tree, 'tangent_solve')
    if isinstance(tfn, (ast.FunctionDef, ast.Lambda)):
        _plain_args(tfn, 2, 'tangent_solve')
    if len(set(tparams)) != 2:
        raise Unrecognised('tangent_solve must take two distinct parameters')
    tconsts = _free_module_constants(tbody, tparams, tree)
    tdef = ast.FunctionDef(name='c17__tangent_solve', args=ast.arguments(posonlyargs=[], args=[ast.arg(arg=p) for p in tparams], kwonlyargs=[],
                                                                         kw_defaults=[], defaults=[]),
                           body=copy.deepcopy(tbody), decorator_list=[])

    # ---- what find_root does to the result of custom_root
    fr2 = copy.deepcopy(fr)
    calls2 = [n for n in ast.walk(fr2) if isinstance(n, ast.Call) and _is_custom_root(n)]
    target = calls2[0]

    class Sub2(ast.NodeTransformer):
        def visit_Call(self, n):
            if n is target:
                return ast.Name(id='cr__', ctx=ast.Load())
            return self.generic_visit(n)
    fr2 = Sub2().visit(fr2)
    pbody = list(fr2.body)
    if pbody and isinstance(pbody[0], ast.Expr) and isinstance(pbody[0].value, ast.Constant) and isinstance(pbody[0].value.value, str):
        pbody = pbody[1:]
    if 'cr__' in fparams:
        raise Unrecognised('parameter name clash')
    pconsts = _free_module_constants(pbody, ['cr__'] + fparams, tree)
    pdef = ast.FunctionDef(name='c17__find_root_post', args=ast.arguments(posonlyargs=[], args=[ast.arg(arg=p) for p in ['cr__'] + fparams],
                                                                          kwonlyargs=[], kw_defaults=[], defaults=[]),
                           body=pbody, decorator_list=[])
    synth = ast.Module(body=[tdef, pdef], type_ignores=[])
    ast.fix_missing_locations(synth)
    # module-level constants are kept verbatim (their decimal source text is what the translator reads)
    const_src = ''
    for cn in sorted(set(tconsts + pconsts)):
        for ms in tree.body:
            if isinstance(ms, ast.Assign) and len(ms.targets) == 1 and isinstance(ms.targets[0], ast.Name) and ms.targets[0].id == cn:
                const_src += ast.get_source_segment(src, ms) + '\n'
    text = 'import jax\nimport jax.numpy as np\n' + const_src + '\n' + ast.unparse(synth) + '\n'
    fields = _settings_fields(tree)
    spec = dict(name=MODULE, file=FILE, consts=sorted(set(tconsts + pconsts)),
                funcs=[('c17__tangent_solve', ['FN', 'S'], dict(oracles=[(tparams[0], 1, 1)], coq_name='tangent_solve')),
                       ('c17__find_root_post', ['TUP(S,S)' if has_aux else 'S', 'FN', 'S', 'V2', 'NT(%s)' % ','.join('%s:S' % f for f in fields)],
                        dict(oracles=[(fparams[0], 1, 1)], coq_name='find_root_post'))])

    # ---- wiring of the custom_root call
    def is_name(n, s):
        return isinstance(n, ast.Name) and n.id == s
    sparams, sfn, sbody, sform = _resolve_callable(bound['solve'], fr, tree, 'solve')
    sstm = [st for st in sbody if not (isinstance(st, ast.Expr) and isinstance(st.value, ast.Constant))]
    solve_ok = False
    if len(sparams) == 2 and len(sstm) == 1 and isinstance(sstm[0], ast.Return) and isinstance(sstm[0].value, ast.Call):
        c = sstm[0].value
        solve_ok = (is_name(c.func, 'rtsafe_') and not c.keywords and len(c.args) == 4 and is_name(c.args[0], sparams[0])
                    and is_name(c.args[1], sparams[1]) and is_name(c.args[2], fparams[2]) and is_name(c.args[3], fparams[3]))
    # find_root's parameters must not be rebound before the call (they are the ones the model's rtsafe receives)
    rebound = any(isinstance(n, ast.Name) and isinstance(n.ctx, ast.Store) and n.id in fparams for n in ast.walk(fr))
    wiring = dict(residual_is_f=is_name(bound['f'], fparams[0]), guess_is_x0=is_name(bound['initial_guess'], fparams[1]),
                  solve_is_rtsafe=solve_ok, has_aux=has_aux, params_not_rebound=not rebound)
    return dict(text=text, spec=spec, wiring=wiring, tangent_form=tform, solve_form=sform)


def _coq_bool(b):
    return 'true' if b else 'false'


def generate(repo, outdir):
    path = os.path.join(outdir, 'Gen_%s.v' % MODULE)
    try:
        src = open(os.path.join(repo, FILE)).read()
        info = analyse(src)
        with tempfile.TemporaryDirectory(prefix='c17gen_') as tmp:
            os.makedirs(os.path.join(tmp, os.path.dirname(FILE)))
            with open(os.path.join(tmp, FILE), 'w') as fh:
                fh.write(info['text'])
            tr = py2coq.Translator(tmp)
            mod, defs = tr.translate_module(info['spec'])
        w = info['wiring']
        tail = ('\n(* the custom_root call of find_root, read off the AST: tangent solve given as %s, solve as %s *)\n'
                % (info['tangent_form'], info['solve_form']))
        for k in ('residual_is_f', 'guess_is_x0', 'solve_is_rtsafe', 'has_aux', 'params_not_rebound'):
            tail += 'Definition cr_%s : bool := %s.\n' % (k, _coq_bool(w[k]))
        tail += ('Definition custom_root_wiring_ok : bool :=\n  andb cr_residual_is_f (andb cr_guess_is_x0 (andb cr_solve_is_rtsafe '
                 '(andb cr_has_aux cr_params_not_rebound))).\n')
        text = py2coq.HEADER % (FILE + ' (find_root: arguments and result of the jax.lax.custom_root call; tools/vlib/extract_c17.py)', '') \
            + '\n\n'.join(defs) + '\n\nEnd Gen.\n' + tail
        res = (True, 'ok', path)
    except (Unrecognised, py2coq.TranslateError) as ex:
        msg = str(ex).replace('*)', '* )').replace('"', "'")
        text = ('(* GENERATED: extraction of the custom_root call of %s FAILED: %s *)\nFail Fail Definition translation_failed := "%s".\n'
                'Definition broken : True := 0.\n' % (FILE, msg, msg))
        res = (False, str(ex), path)
    except Exception as ex:   # unreadable / unparsable source or an internal error: fail closed
        text = '(* GENERATED: cannot read/parse %s: %s *)\nDefinition broken : True := 0.\n' % (FILE, str(ex).replace('*)', ''))
        res = (False, str(ex), path)
    old = open(path).read() if os.path.exists(path) else None
    if old != text:
        with open(path, 'w') as fh:
            fh.write(text)
    return {MODULE: res}
