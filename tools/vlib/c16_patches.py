"""C16: PROPOSED (not applied) patches for the open findings C16-F1 and C16-F2 of /repo/optimism/contact/MortarContact.py.

/repo is NOT modified.  This module holds the patched functions as executable Python (they call the unpatched helpers of the
installed optimism.contact.MortarContact), the unified diffs as text, and two demo entry points:

    PYTHONPATH=/repo:/verif/tools python3 -m vlib.c16_patches f1      # 0/0 average normal for coinciding normals
    PYTHONPATH=/repo:/verif/tools python3 -m vlib.c16_patches f2      # parameter tests without tolerance

The Coq models of the patched functions are in coq/model/M_C16_Patched.v (theorems: coq/proofs/L_C16p.v, props/P_C16.v, section
"proposed patches"); ./check C16 executes these functions against those models (stream `patched`)."""
import math

EPS_F1 = 1e-8
TOL_F2 = 1e-12

PATCH_F1 = '''--- a/optimism/contact/MortarContact.py
+++ b/optimism/contact/MortarContact.py
@@ def compute_average_normal(edgeA : jnp.array, edgeB : jnp.array) -> jnp.array:
     nA = compute_normal(edgeA)
     nB = compute_normal(edgeB)
     normal = nA - nB
-    return normal / jnp.linalg.norm(normal)
+    # nA - nB vanishes (or is rounding noise) when the two unit normals coincide: fall back to the normal of A
+    nrm = jnp.linalg.norm(normal)
+    big = nrm > 1e-8
+    return jnp.where(big, normal / jnp.where(big, nrm, 1.0), nA)
'''

PATCH_F2 = '''--- a/optimism/contact/MortarContact.py
+++ b/optimism/contact/MortarContact.py
@@ def compute_intersection(edgeA, edgeB, f_common_normal):
     xiAs = jnp.hstack((jnp.arange(2), xiAs2))
     xiBs = jnp.hstack((xiBs1, jnp.arange(2)))
     gs = jnp.hstack((gs1, gs2))

-    xiAgood = jax.vmap(lambda xia, xib: jnp.where((xia >= 0.0) & (xia <= 1.0) & (xib >= 0.0) & (xib <= 1.0), xia, jnp.nan))(xiAs, xiBs)
+    # accept end-point parameters that miss [0,1] by rounding only, then clip them back
+    tol = 1e-12
+    good = (xiAs >= -tol) & (xiAs <= 1.0 + tol) & (xiBs >= -tol) & (xiBs <= 1.0 + tol)
+    xiAs = jnp.clip(xiAs, 0.0, 1.0)
+    xiBs = jnp.clip(xiBs, 0.0, 1.0)
+    xiAgood = jnp.where(good, xiAs, jnp.nan)
     argsMinMax = jnp.array([jnp.nanargmin(xiAgood), jnp.nanargmax(xiAgood)])

     return xiAs[argsMinMax], xiBs[argsMinMax], gs[argsMinMax]
'''


def _mc():
    import jax
    import jax.numpy as jnp
    from optimism.contact import MortarContact
    return jax, jnp, MortarContact


def make_average_normal_patched(eps=EPS_F1):
    jax, jnp, MC = _mc()

    def compute_average_normal_patched(edgeA, edgeB):
        nA = MC.compute_normal(edgeA)
        nB = MC.compute_normal(edgeB)
        normal = nA - nB
        nrm = jnp.linalg.norm(normal)
        big = nrm > eps
        return jnp.where(big, normal / jnp.where(big, nrm, 1.0), nA)
    return compute_average_normal_patched


def compute_intersection_patched(edgeA, edgeB, f_common_normal, tol=TOL_F2):
    jax, jnp, MC = _mc()

    def compute_xi(xa, edgeB, normal):            # verbatim from the source
        M = jnp.array([edgeB[0] - edgeB[1], normal]).T
        r = jnp.array(edgeB[0] - xa)
        xig = jnp.linalg.solve(M, r)
        return xig[0], xig[1]

    normal = f_common_normal(edgeA, edgeB)
    xiBs1, gs1 = jax.vmap(compute_xi, (0, None, None))(edgeA, edgeB, normal)
    xiAs2, gs2 = jax.vmap(compute_xi, (0, None, None))(edgeB, edgeA, -normal)

    xiAs = jnp.hstack((jnp.arange(2), xiAs2))
    xiBs = jnp.hstack((xiBs1, jnp.arange(2)))
    gs = jnp.hstack((gs1, gs2))

    good = (xiAs >= -tol) & (xiAs <= 1.0 + tol) & (xiBs >= -tol) & (xiBs <= 1.0 + tol)
    xiAs = jnp.clip(xiAs, 0.0, 1.0)
    xiBs = jnp.clip(xiBs, 0.0, 1.0)
    xiAgood = jnp.where(good, xiAs, jnp.nan)
    argsMinMax = jnp.array([jnp.nanargmin(xiAgood), jnp.nanargmax(xiAgood)])
    return xiAs[argsMinMax], xiBs[argsMinMax], gs[argsMinMax]


def integrate_with_mortar_patched(edgeA, edgeB, f_common_normal, func_of_xiA_xiB_g, relativeSmoothingSize=1e-7, tol=TOL_F2):
    """integrate_with_mortar of the source with compute_intersection replaced by the patched one (the dead NaN switch of the source
    always takes the active branch, so it is omitted)"""
    jax, jnp, MC = _mc()
    xiA, xiB, g = compute_intersection_patched(edgeA, edgeB, f_common_normal, tol)
    return MC.integrate_with_active_mortar(xiA, xiB, g, jnp.linalg.norm(edgeA[0] - edgeA[1]), jnp.linalg.norm(edgeB[0] - edgeB[1]),
                                           func_of_xiA_xiB_g, relativeSmoothingSize)


def _rot(c, s, tx, ty, p):
    return (c * p[0] - s * p[1] + tx, s * p[0] + c * p[1] + ty)


def demo_f1():
    jax, jnp, MC = _mc()
    one = lambda xa, xb, g: 1.0
    gap = lambda xa, xb, g: g
    A = jnp.array([[0.0, 0.0], [1.0, 0.0]])
    B = jnp.array([[0.2, -0.1], [0.8, -0.1]])        # same orientation as A: unit normals coincide bitwise
    print('C16-F1 witness: A = (0,0)-(1,0), B = (0.2,-0.1)-(0.8,-0.1), relativeSmoothingSize = 1e-3')
    print('  unpatched compute_average_normal :', MC.compute_average_normal(A, B))
    print('  unpatched area integral          :', float(MC.integrate_with_mortar(A, B, MC.compute_average_normal, one, 1e-3)), '(expected 0.6)')
    for eps in (0.0, EPS_F1):
        rule = make_average_normal_patched(eps)
        print('  patched (eps=%g) normal           :' % eps, rule(A, B))
        print('  patched (eps=%g) area, gap        :' % eps, float(MC.integrate_with_mortar(A, B, rule, one, 1e-3)),
              float(MC.integrate_with_mortar(A, B, rule, gap, 1e-3)), '(expected 0.6 +- 8e-4, 0.1*area)')
    # the same pair after a generic rotation: the normals now differ by rounding noise instead of being bitwise equal
    bad0 = bad8 = badu = n = 0
    for k in range(400):
        ang = 0.37 + 0.0157 * k
        mot = (math.cos(ang), math.sin(ang), 0.3, -0.7)
        A2 = jnp.array([_rot(*mot, p) for p in ((0.0, 0.0), (1.0, 0.0))])
        B2 = jnp.array([_rot(*mot, p) for p in ((0.2, -0.1), (0.8, -0.1))])
        n += 1
        vu = float(MC.integrate_with_mortar(A2, B2, MC.compute_average_normal, one, 1e-3))
        v0 = float(MC.integrate_with_mortar(A2, B2, make_average_normal_patched(0.0), one, 1e-3))
        v8 = float(MC.integrate_with_mortar(A2, B2, make_average_normal_patched(EPS_F1), one, 1e-3))
        badu += not abs(vu - 0.6) <= 8e-4 + 1e-9
        bad0 += not abs(v0 - 0.6) <= 8e-4 + 1e-9
        bad8 += not abs(v8 - 0.6) <= 8e-4 + 1e-9
    print('  %d rotated copies: area integral off the overlap length (or NaN): unpatched %d, patched eps=0 %d, patched eps=1e-8 %d' % (n, badu, bad0, bad8))
    return badu, bad0, bad8


def demo_f2():
    jax, jnp, MC = _mc()
    one = lambda xa, xb, g: 1.0
    A = jnp.array([[-1.3512588131665393, -0.6556272139693258], [-3.3376622042094954, -0.8884395161636977]])
    B = jnp.array([[-3.3654171517878364, -0.6516284822613472], [-1.37901376074488, -0.4188161800669752]])
    print('C16-F2 witness (conforming pair (0,0)-(2,0) / (2,-h)-(0,-h) after a generic rigid motion), relativeSmoothingSize = 1e-9')
    print('  unpatched compute_intersection :', [[float(x) for x in v] for v in MC.compute_intersection(A, B, MC.compute_normal_from_a)])
    print('  unpatched area integral        :', float(MC.integrate_with_mortar(A, B, MC.compute_normal_from_a, one, 1e-9)), '(expected 2.0)')
    print('  patched compute_intersection   :', [[float(x) for x in v] for v in compute_intersection_patched(A, B, MC.compute_normal_from_a)])
    print('  patched area integral          :', float(integrate_with_mortar_patched(A, B, MC.compute_normal_from_a, one, 1e-9)), '(expected 2.0)')
    fu = jax.jit(lambda A_, B_: MC.integrate_with_mortar(A_, B_, MC.compute_normal_from_a, one, 1e-9))
    fp = jax.jit(lambda A_, B_: integrate_with_mortar_patched(A_, B_, MC.compute_normal_from_a, one, 1e-9))
    badu = badp = n = 0
    for k in range(2000):
        ang = 0.0031 * k + 0.01
        mot = (math.cos(ang), math.sin(ang), 0.3, -0.7)
        A2 = jnp.array([_rot(*mot, p) for p in ((0.0, 0.0), (2.0, 0.0))])
        B2 = jnp.array([_rot(*mot, p) for p in ((2.0, -0.25), (0.0, -0.25))])
        n += 1
        badu += not abs(float(fu(A2, B2)) - 2.0) <= 1e-8
        badp += not abs(float(fp(A2, B2)) - 2.0) <= 1e-8
    print('  %d rotated conforming pairs: area integral differs from the overlap length 2: unpatched %d, patched %d' % (n, badu, badp))
    return badu, badp


if __name__ == '__main__':
    import sys
    from jax import config
    config.update('jax_enable_x64', True)
    which = sys.argv[1:] or ['f1', 'f2']
    if 'f1' in which:
        print(PATCH_F1)
        demo_f1()
    if 'f2' in which:
        print(PATCH_F2)
        demo_f2()
