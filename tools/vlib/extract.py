"""Non-kernel extraction from /repo's AST (literal tables, control-flow IRs, reference tables). Filled in per property."""


def generate_all(repo, outdir):
    res = {}
    for fn in GENERATORS:
        res.update(fn(repo, outdir))
    return res


def write_if_changed(path, text):
    import os
    old = open(path).read() if os.path.exists(path) else None
    if old != text:
        with open(path, 'w') as fh:
            fh.write(text)


GENERATORS = []

# C03: tabulated triangle quadrature rules and the geometric-kernel structure of FunctionSpace/Mesh
from . import tab_c03 as _tab_c03   # noqa: E402
GENERATORS.append(_tab_c03.generate)

# C19 / C07: control-flow IR of the load-step drivers + param_index_update slot table; reference table of NonlinearSolve.py
from . import extract_drivers as _extract_drivers   # noqa: E402
GENERATORS.append(_extract_drivers.gen_cfg_drivers)

# C02: static reference / free-name / hook-arity table of Mechanics.py
from . import refs_c02 as _refs_c02   # noqa: E402
GENERATORS.append(_refs_c02.generate)
GENERATORS.append(_extract_drivers.gen_refs_nonlinear_solve)

# C01: abstract syntax of EquationSolver.trust_region_minimize / is_converged / is_on_boundary / nonlinear_equation_solve (IR of model/M_C01_CFG.v)
from . import extract_tr as _extract_tr   # noqa: E402
GENERATORS.append(_extract_tr.gen_cfg_tr)

# C14: abstract syntax of FunctionSpace.DofManager and SparseMatrixAssembler.assemble_sparse_stiffness_matrix (IR of model/M_C14_IR.v)
from . import extract_dof as _extract_dof   # noqa: E402
GENERATORS.append(_extract_dof.gen_cfg_dof)

# C20: output structure of VTKWriter.write and its section writers (IR of model/M_C20_CFG.v)
from . import extract_vtk as _extract_vtk   # noqa: E402
GENERATORS.append(_extract_vtk.gen_cfg_vtk)

# C17: the jax.lax.custom_root call of ScalarRootFind.find_root (tangent solve and result post-processing as kernels, wiring flags)
from . import extract_c17 as _extract_c17   # noqa: E402
GENERATORS.append(_extract_c17.generate)

# C15: store structure (aliasing / augmented assignment) of Mechanics.create_dynamics_functions.predict / correct and their jit wrapping (IR of model/M_C15_Purity.v)
from . import extract_c15 as _extract_c15   # noqa: E402
GENERATORS.append(_extract_c15.generate)
