"""Kernel specs for the translator, assembled from tools/kernels.d/*.py (each defines SPECS, a list of module
specs).  Modules are emitted in dependency order (topological sort on 'deps', ties by file then list order)."""
import glob
import os
import runpy

_HERE = os.path.dirname(os.path.abspath(__file__))


def _load():
    specs = []
    for path in sorted(glob.glob(os.path.join(_HERE, '..', 'kernels.d', '*.py'))):
        specs += runpy.run_path(path)['SPECS']
    names = [s['name'] for s in specs]
    assert len(names) == len(set(names)), 'duplicate kernel module name in kernels.d'
    done, out = set(), []
    pending = list(specs)
    while pending:
        progress = False
        for s in list(pending):
            if all(d in done or d not in names for d in s.get('deps', [])):
                out.append(s)
                done.add(s['name'])
                pending.remove(s)
                progress = True
        if not progress:
            raise RuntimeError('dependency cycle in kernels.d: %s' % [s['name'] for s in pending])
    return out


SPECS = _load()
