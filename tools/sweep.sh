#!/bin/sh
# false-alarm sweep: every ready check, several seeds, quick (or $SWEEP_TIER) tier, against a snapshot of /repo ($VP_RUN_REPO) or /repo.
# Usage (from a vp run snapshot):  vp run --with-repo -- tools/sweep.sh      env: SWEEP_SEEDS, SWEEP_PROPS, SWEEP_TIER, SWEEP_JOBS
[ -n "$VP_RUN_REPO" ] && export VERIF_REPO=$VP_RUN_REPO
./setup.sh > setup.log 2>&1
for s in ${SWEEP_SEEDS:-1 2 3}; do
  for p in ${SWEEP_PROPS:-C01 C02 C03 C04 C05 C06 C07 C08 C09 C10 C11 C12 C13 C14 C15 C16 C17 C18 C19 C20}; do echo "$s $p"; done
done | xargs -P ${SWEEP_JOBS:-4} -L 1 sh -c '
  s=$0; p=$1; t0=$(date +%s)
  VERIF_SEED=$s ./check $p --tier ${SWEEP_TIER:-quick} > out_${p}_$s.log 2>&1
  rc=$?
  echo "seed=$s $p rc=$rc $(( $(date +%s)-t0 ))s $(grep -c KNOWN-FINDING out_${p}_$s.log)kf $(grep VIOLATION out_${p}_$s.log | head -1 | cut -c1-120)"
  [ $rc -ne 0 ] && grep "reason\[" out_${p}_$s.log | head -3 | cut -c1-300
  true'
