#!/bin/sh
# false-alarm sweep: every ready check, several seeds, quick tier, against a snapshot of /repo
export VERIF_REPO=$VP_RUN_REPO
./setup.sh > setup.log 2>&1
for s in ${SWEEP_SEEDS:-101 202 303}; do
  for p in ${SWEEP_PROPS:-C01 C02 C03 C04 C05 C06 C07 C08 C09 C10 C11 C12 C13 C14 C15 C16 C17 C18 C19 C20}; do
    t0=$(date +%s)
    VERIF_SEED=$s ./check $p > out_${p}_$s.log 2>&1
    rc=$?
    echo "seed=$s $p rc=$rc $(( $(date +%s)-t0 ))s $(grep -c KNOWN-FINDING out_${p}_$s.log)kf $(grep VIOLATION out_${p}_$s.log | head -1 | cut -c1-120)"
  done
done
