#!/bin/sh
# regenerate coq/_CoqProject (file list) and coq/Makefile
cd "$(dirname "$0")/../coq" || exit 2
{ cat _CoqProject.head; ls base/*.v gen/*.v model/*.v proofs/*.v props/*.v 2>/dev/null; } > _CoqProject.new
if ! cmp -s _CoqProject.new _CoqProject 2>/dev/null || [ ! -f Makefile ]; then
  mv _CoqProject.new _CoqProject
  coq_makefile -f _CoqProject -o Makefile > /dev/null
else
  rm -f _CoqProject.new
fi
