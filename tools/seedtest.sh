#!/bin/sh
# tools/seedtest.sh <Cxx> <patch.diff> [tier]  -- run a check against a PRIVATE copy of /verif and a scratch worktree of /repo
# with the patch applied (so that nothing running in /verif or /repo is disturbed).  Prints the check's tail and its exit code.
set -u
P=$1; PATCH=$(readlink -f "$2"); TIER=${3:-quick}
W=/tmp/st_$$; mkdir -p $W
git -C /repo worktree add -q $W/repo HEAD || exit 2
git -C $W/repo apply "$PATCH" || { echo "PATCH DOES NOT APPLY"; git -C /repo worktree remove --force $W/repo; rm -rf $W; exit 2; }
rsync -a --exclude .git --exclude replays --exclude 'coq/run/*' /verif/ $W/verif/
cd $W/verif && VERIF_REPO=$W/repo ./check $P --tier $TIER > $W/out.txt 2>&1
RC=$?
grep -v "^WARNING\|conda" $W/out.txt | tail -${TAIL:-12}
echo "EXIT=$RC"
[ -n "${KEEP_REPLAY:-}" ] && cp $W/verif/replays/* /tmp/ 2>/dev/null
git -C /repo worktree remove --force $W/repo
rm -rf $W
exit $RC
