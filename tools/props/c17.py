"""C17 -- safeguarded scalar root finder (optimism/ScalarRootFind.py): bracket contract and differentiability."""
import json
import math

from vlib import common as C

ID = 'C17'
READY = True
LEVEL_TEXT = ('Partial. Coq theorems over R, for arbitrary oracles f, f\', about a model whose loop test and loop body are re-translated from '
              'ScalarRootFind.py on every run: the Newton in-range product test is false exactly when the Newton iterate lies in the closed '
              'bracket (and how the body uses it); bracket invariant f(xl) < 0 <= f(xh) with every iterate and the result inside '
              '[min,max] of the bracket for any guess and either orientation; a root of a continuous f lies in the final bracket (IVT); '
              'result contract (fuel max_iters suffices, non-NaN <=> converged, NaN without sign change and without an end point meeting r_tol -- whatever f does with NaN --, '
              'end points / clipped guess meeting r_tol returned untouched, an iterate with F = 0 stops the iteration (no 0/0), residual = f(result), why a run reports convergence); bisection halves the bracket; tangent solve and scalar '
              'implicit-function identity (Coquelicot). Derivative clause over kernels RE-EXTRACTED from find_root\'s jax.lax.custom_root call on every run '
              '(tools/vlib/extract_c17.py -> gen/Gen_C17FindRoot.v, fail-closed, whatever syntactic form the tangent solve has): the generated tangent solve returns y/s for EVERY slope s <> 0 '
              '(no threshold; inverts every linear map, invariant under rescaling of the residual), custom_root\'s forward rule over it gives -f_p/f_x, find_root returns custom_root\'s result untouched '
              '(identity post-processing, derivative 1 at every point incl. bracket ends), the call is wired to f, x0, rtsafe_(F, X0, bracket, settings), has_aux; so the derivative of find_root\'s output is the rule\'s value = the IFT value, '
              'also when the returned root IS a bracket end (C17_endpoint_root_derivative). Binary64 (PrimFloat instance of the same model, arbitrary float oracles, IEEE comparison laws of FloatAxioms only): every loop body keeps '
              '(f xl < 0) = true, (f xh < 0) = false, F = f(root), iterate = a bracket end; a non-NaN result of a bracketed run is converged, carries f(result) and is an end of such a sign-change pair. '
              'The binary64 LOCATION clause (iterates/result inside [min,max] of the bracket) is REFUTED by executed witnesses (rounded Newton range test accepts a step landing 1.4e-17 below the end 0) and reproduced on rtsafe_ run op by op (known finding F7f, open; not reproduced under XLA CPU compilation). '
              'The clause "sign change => a root within tolerance is returned" is REFUTED for '
              'the faithful model in exact rational arithmetic (iteration cap) and reproduced on the code (known finding F7, open by design; F7b/F7c/F7d fixed). Binary64 behaviour and the prologue/epilogue are tied by correspondence (bit-exact against eager rtsafe_).')
TECHNIQUE = 'Coq proof (Reals + Coquelicot) over a state machine built from kernels regenerated from the Python AST; vm_compute/PrimFloat correspondence'
GEN = ['ScalarRootFind', 'C17FindRoot']
TARGETS = ['proofs/L_C17.vo', 'model/M_C17.vo', 'model/M_C17d.vo', 'proofs/L_C17d.vo', 'proofs/L_C17f.vo']
COQ_FILES = ['base/Num.v', 'model/M_C17.v', 'model/M_C17d.v', 'proofs/L_C17.v', 'proofs/L_C17d.v', 'proofs/L_C17f.v', 'props/P_C17.v']
TRUSTED = ['Coq 8.16.1 kernel + vm_compute (no native_compute)',
           'tools/vlib/py2coq.py translator (loop_cond, loop_body, bisection_step, newton_step are regenerated; closure variables x_tol, r_tol, '
           'max_iters and the oracle f_and_fprime become parameters)',
           'hand-written prologue/epilogue/while of model/M_C17.v, tied by the correspondence: model at binary64 vs rtsafe_ run eagerly '
           '(discrete outputs exact, floats within 4 ulp) and vs find_root under jit+vmap (tolerance, near-tie runs skipped)',
           'NaN is modelled as None: not-bracketed start (final mask), 0/0 in the Newton branch (unreachable for r_tol >= 0), not converged at the cap',
           'jax.lax.custom_root applies the tangent solve to the linearised residual (jax/_src/lax/control_flow/solves.py:_root_jvp: solution_dot = -tangent_solve(d_x f at the returned solution, d_p f . p_dot), '
           'transcribed as model/M_C17d.v:root_jvp and tied at binary64 to jax.jacfwd of find_root); jax.grad of primitives is the derivative',
           'tools/vlib/extract_c17.py (locates the single custom_root call of find_root, resolves the tangent_solve / solve arguments -- lambda, nested or module-level def, name bound to a lambda --, '
           'hands the tangent solve and the body of find_root with the call replaced by its result to py2coq; wiring flags are syntactic)']
ASSUMPTIONS = ['exact real arithmetic in theorems (no overflow/underflow; both the bracket test and the Newton range test compare signs in the source (repo ed1d80c, fd0580b: findings F7d, F7e fixed), which over R is the product test -- lemma sign_product_test; binary64 behaviour for residual magnitudes 1e-200..1e-300 is covered by the correspondence streams)',
               'f and f\' are total real functions; continuity of f only where stated (IVT); C17_ift / C17_find_root_derivative assume the root map is differentiable and the returned solutions are roots near p0',
               'binary64 theorems: f, f\' arbitrary functions float -> float (pure: the same argument gives the same value); no statement about WHERE the iterates lie (refuted)']
RULE = ('inputs: seeded families (polynomials with 1-3 roots incl. multiple roots, sign(x-c)|x-c|^(1/2^k) steep power laws, rational sigmoid), '
        'brackets of both orientations and widths 1e-3..1e6, guesses inside/outside/at end points, settings max_iters in {5,20,50,100}, '
        'x_tol in {0,1e-13,1e-10,1e-6}, r_tol in {0,1e-12,1e-8}; streams without sign change, with exact end-point roots, with a guess exactly '
        'at a zero-slope root; linear residuals through a bracket end at 0 whose rounded Newton test accepts an overshooting step (pre-selected by simulating one loop body; model vs eager tie, eager conclusion = finding F7f); '
        'derivative streams: three parameter families incl. roots exactly on a bracket end, and four families with the residual scaled by 10^k, k = -20..20 (cubic, flat ninth power near a small root, shallow decreasing line, rational sigmoid; '
        'jax.jacfwd and jax.grad of find_root against -f_a/f_x at rtol 1e-9; model root_jvp at binary64 against jacfwd within 2 ulp); a case is non-trivial when the loop runs at least once or an end-point/NaN branch is taken; distinct = distinct input tuples')
IMPORTS = ['From OV.model Require Import M_C17.']

PAD = 5     # polynomial coefficient vectors are padded with leading zeros to this length (degree <= 4)


# ----------------------------------------------------------------------------- function families (mirrors of M_C17.fam)

def _families():
    import jax
    import jax.numpy as jnp

    def poly_val(x, P):
        acc = P[0]
        for k in range(1, PAD):
            acc = acc * x + P[k]
        return acc

    def poly_der(x, P):
        acc = P[PAD]
        for k in range(PAD + 1, 2 * PAD - 1):
            acc = acc * x + P[k]
        return acc

    def mk_root(k):
        def val(x, P):
            c, a, d = P[0], P[1], P[2]
            u = x - c
            s = jnp.where(0.0 < u, 1.0, jnp.where(u < 0.0, -1.0, 0.0))
            r = jnp.abs(u)
            for _ in range(k):
                r = jnp.sqrt(r)
            return (a * s) * r - d

        def der(x, P):
            c, a = P[0], P[1]
            u = x - c
            r = jnp.abs(u)
            for _ in range(k):
                r = jnp.sqrt(r)
            return (a * r) / (float(2 ** k) * jnp.abs(u))
        return val, der

    def rat_val(x, P):
        u = x - P[0]
        return u / (1.0 + jnp.abs(u)) - P[1]

    def rat_der(x, P):
        u = x - P[0]
        w = 1.0 + jnp.abs(u)
        return 1.0 / (w * w)

    # a polynomial that does NOT propagate nan (returns 1 with slope 0 at nan): the not-bracketed marker x0 = nan is invisible to it
    polyq_val = lambda x, P: jnp.where(x != x, 1.0, poly_val(jnp.where(x != x, 0.0, x), P))
    polyq_der = lambda x, P: jnp.where(x != x, 0.0, poly_der(jnp.where(x != x, 0.0, x), P))
    fams = {'poly': (poly_val, poly_der), 'rat': (rat_val, rat_der), 'polyq': (polyq_val, polyq_der)}
    for k in (1, 2, 3):
        fams['root%d' % k] = mk_root(k)
    out = {}
    for name, (val, der) in fams.items():
        def make(val=val, der=der):
            @jax.custom_jvp
            def f(x, P):
                return val(x, P)

            @f.defjvp
            def f_jvp(primals, tangents):
                x, P = primals
                tx, _ = tangents
                return val(x, P), der(x, P) * tx
            return f
        out[name] = (make(), val, der)
    return out


def coq_fam(kind, P):
    cf = C.cf
    if kind in ('poly', 'polyq'):
        return '(FPoly %s %s)' % (C.clist([cf(a) for a in P[:PAD]]), C.clist([cf(a) for a in P[PAD:2 * PAD - 1]]))
    if kind.startswith('root'):
        k = int(kind[4:])
        return '(FRoot %s %s %s %d %s)' % (cf(P[0]), cf(P[1]), cf(P[2]), k, cf(float(2 ** k)))
    return '(FRat %s %s)' % (cf(P[0]), cf(P[1]))


def py_val(kind, P, x):
    """plain python evaluation (same operation order; used for the sign-change classification and the residual clause)"""
    if kind in ('poly', 'polyq'):
        acc = P[0]
        for k in range(1, PAD):
            acc = acc * x + P[k]
        return acc
    if kind.startswith('root'):
        u = x - P[0]
        s = 1.0 if u > 0 else -1.0 if u < 0 else 0.0
        r = abs(u)
        for _ in range(int(kind[4:])):
            r = math.sqrt(r)
        return (P[1] * s) * r - P[2]
    u = x - P[0]
    return u / (1.0 + abs(u)) - P[1]


def f_scale(kind, P, x):
    if kind in ('poly', 'polyq'):
        return sum(abs(P[k]) * abs(x) ** (PAD - 1 - k) for k in range(PAD)) + 1e-300
    if kind.startswith('root'):
        r = abs(x - P[0])
        for _ in range(int(kind[4:])):
            r = math.sqrt(r)
        return abs(P[1]) * r + abs(P[2]) + 1e-300
    return 1.0 + abs(P[1])


def poly_from_roots(roots, lead=1.0):
    cs = [lead]
    for rt in roots:
        new = [0.0] * (len(cs) + 1)
        for j, a in enumerate(cs):
            new[j] += a
            new[j + 1] += -a * rt
        cs = new
    n = len(cs) - 1
    dcs = [cs[j] * (n - j) for j in range(n)]
    cs = [0.0] * (PAD - len(cs)) + cs
    dcs = [0.0] * (PAD - 1 - len(dcs)) + dcs
    return cs + dcs


# ----------------------------------------------------------------------------- generators

def gen_cases(ctx):
    """-> list of dict(kind, P, x0, b0, b1, mi, xt, rt, stream)"""
    r = ctx.rng('main')
    n = ctx.n(110, 900)
    cases = []

    def settings():
        return (r.choice([50, 50, 50, 20, 100, 5]), r.choice([1e-13, 1e-13, 1e-10, 1e-6, 0.0]), r.choice([0.0, 0.0, 1e-12, 1e-8]))

    def guess(b0, b1):
        lo, hi = min(b0, b1), max(b0, b1)
        m = r.randrange(6)
        if m == 0:
            return lo - r.uniform(0, 2) * (hi - lo)
        if m == 1:
            return hi + r.uniform(0, 2) * (hi - lo)
        if m == 2:
            return r.choice([b0, b1])
        return r.uniform(lo, hi)

    for _ in range(n):
        t = r.randrange(10)
        mi, xt, rt = settings()
        if t < 4:
            kind = 'poly'
            nr = r.choice([1, 1, 2, 3, 3])
            roots = [r.uniform(-3, 3) for _ in range(nr)]
            if r.random() < 0.25 and nr >= 2:
                roots[1] = roots[0]                   # double root (no sign change there) + possibly a simple one
            if r.random() < 0.15:
                roots = [roots[0]] * 3                # triple root: flat region, slow Newton
            P = poly_from_roots(roots, r.choice([1.0, -1.0, r.uniform(0.1, 10)]))
            centre = r.choice(roots)
        elif t < 7:
            k = r.choice([1, 2, 3])
            kind = 'root%d' % k
            c = r.uniform(-2, 2)
            a = r.choice([-1, 1]) * r.uniform(0.5, 2)
            P = [c, a, abs(a) * r.uniform(0.1, 0.6) * r.choice([-1, 1])]
            centre = c
        else:
            kind = 'rat'
            c = r.uniform(-2, 2)
            P = [c, r.uniform(-0.6, 0.6)]
            centre = c
        w = 10.0 ** r.uniform(-3, 1.5) if r.random() < 0.85 else 10.0 ** r.uniform(2, 6)
        b0 = centre - w * r.uniform(0.05, 1)
        b1 = centre + w * r.uniform(0.05, 1)
        if r.random() < 0.15:                         # bracket that may miss the sign change
            sh = w * r.uniform(1, 3) * r.choice([-1, 1])
            b0, b1 = b0 + sh, b1 + sh
        if r.random() < 0.35:
            b0, b1 = b1, b0
        cases.append(dict(kind=kind, P=P, x0=guess(b0, b1), b0=b0, b1=b1, mi=mi, xt=xt, rt=rt, stream='random'))
    # exact end-point roots (integer data: every evaluation order is exact)
    for _ in range(ctx.n(14, 80)):
        ra, rb = r.randrange(-4, 5), r.randrange(-4, 5)
        P = poly_from_roots([float(ra), float(rb)], float(r.choice([1, -1, 2])))
        other = float(r.randrange(-6, 7))
        m = r.randrange(3)
        b0, b1 = (float(ra), other) if m == 0 else (other, float(ra)) if m == 1 else (float(ra), float(rb))
        if b0 == b1:
            b1 = b0 + 1.0
        mi, xt, rt = settings()
        cases.append(dict(kind='poly', P=P, x0=guess(b0, b1), b0=b0, b1=b1, mi=mi, xt=xt, rt=rt, stream='endpoint'))
    # guess exactly at a root with zero slope (0/0 in the Newton branch) and slow multiple-root runs from integer data
    for _ in range(ctx.n(6, 30)):
        c = float(r.randrange(-3, 4))
        P = poly_from_roots([c, c, c], float(r.choice([1, -1])))
        w0, w1 = float(r.randrange(1, 5)), float(r.randrange(1, 5))
        b0, b1 = c - w0, c + w1
        if r.random() < 0.4:
            b0, b1 = b1, b0
        x0 = c if r.random() < 0.6 else c + r.choice([0.25, -0.5, 0.3])
        cases.append(dict(kind='poly', P=P, x0=x0, b0=b0, b1=b1, mi=50, xt=1e-13, rt=0.0, stream='multiple-root'))
    # an end point, or the clipped guess, that is not an exact root but meets the residual tolerance (0 < |f| <= r_tol)
    for _ in range(ctx.n(14, 80)):
        rho = r.uniform(-3, 3)
        lead = r.choice([-1.0, 1.0]) * r.uniform(0.5, 3)
        P = poly_from_roots([rho], lead)
        rt = r.choice([1e-8, 1e-6, 1e-4])
        near = rho + r.choice([-1, 1]) * r.uniform(0.1, 0.8) * rt / abs(lead)
        far = rho + r.choice([-1, 1]) * r.uniform(0.5, 3)
        m = r.randrange(3)
        if m == 0:
            b0, b1, x0 = near, far, guess(near, far)
        elif m == 1:
            b0, b1, x0 = far, near, guess(near, far)
        else:
            b0, b1 = rho - r.uniform(0.5, 3), rho + r.uniform(0.5, 3)
            if r.random() < 0.4:
                b0, b1 = b1, b0
            x0 = near
        cases.append(dict(kind='poly', P=P, x0=x0, b0=b0, b1=b1, mi=50, xt=r.choice([1e-13, 0.0]), rt=rt, stream='within-tolerance'))
    # residual magnitudes 1e-200 .. 1e-300: the product fl*fh underflows, the sign change must be detected from the signs
    for _ in range(ctx.n(14, 90)):
        sc = 10.0 ** (-r.uniform(200, 285))          # below ~1e-290 intermediate values become subnormal, which XLA on CPU flushes to zero
        nr = r.choice([1, 1, 3])
        roots = [r.uniform(-3, 3) for _ in range(nr)]
        P = [sc * a for a in poly_from_roots(roots, r.choice([1.0, -1.0]) * r.uniform(0.5, 2))]
        centre = r.choice(roots)
        w = 10.0 ** r.uniform(-2, 1)
        b0, b1 = centre - w * r.uniform(0.05, 1), centre + w * r.uniform(0.05, 1)
        if r.random() < 0.2:
            sh = w * r.uniform(1, 3) * r.choice([-1, 1])
            b0, b1 = b0 + sh, b1 + sh
        if r.random() < 0.4:
            b0, b1 = b1, b0
        cases.append(dict(kind='poly', P=P, x0=guess(b0, b1), b0=b0, b1=b1, mi=r.choice([50, 100]), xt=r.choice([1e-13, 1e-10]), rt=r.choice([0.0, 0.0, sc * 1e-9]),
                          stream='tiny-residual'))
    # a function that does not propagate nan: without a sign change the result must still be nan
    for _ in range(ctx.n(8, 50)):
        roots = [r.uniform(-3, 3) for _ in range(r.choice([1, 2]))]
        P = poly_from_roots(roots, r.choice([1.0, -1.0]))
        lo = max(roots) + r.uniform(0.1, 2) if r.random() < 0.7 else min(roots) - r.uniform(3, 5)
        b0, b1 = lo, lo + r.uniform(0.1, 2)
        if r.random() < 0.4:
            b0, b1 = b1, b0
        mi, xt, rt = settings()
        cases.append(dict(kind='polyq', P=P, x0=guess(b0, b1), b0=b0, b1=b1, mi=mi, xt=xt, rt=rt, stream='nan-insensitive'))
    # linear residual through (almost) a bracket end at 0, guess chosen (by simulating one loop body in python floats) so that the
    # ROUNDED Newton range test accepts a step whose rounded iterate is outside the bracket (theorem C17_binary64_result_in_bracket_refuted,
    # finding F7f): exercises the model-vs-eager tie there, the compiled path (which fuses the test) and the eager conclusion
    want, tries = ctx.n(6, 30), 0
    while want > 0 and tries < 4000:
        tries += 1
        sl, x0 = r.uniform(0.5, 3), r.uniform(0.01, 0.5)
        F = sl * x0
        b = (x0 - 0.0) * sl - F
        a = (x0 - 1.0) * sl - F
        sg = lambda v: 1.0 if v > 0 else -1.0 if v < 0 else 0.0
        if sg(a) * sg(b) > 0 or abs(2.0 * F) > abs(1.0 * sl) or not (x0 + (-F / sl) < 0.0):
            continue
        want -= 1
        lead = r.choice([1.0, -1.0])           # increasing (xl = 0) or decreasing (xh = 0) residual
        P = [0.0, 0.0, 0.0, lead * sl, lead * -1e-30] + [0.0, 0.0, 0.0, lead * sl]
        cases.append(dict(kind='poly', P=P, x0=x0, b0=0.0, b1=1.0, mi=50, xt=r.choice([0.75, 0.75, 1e-13]), rt=0.0, stream='end-overshoot'))
    # smooth monotone functions on wide brackets: Newton must be accepted for the run to finish within the cap
    for _ in range(ctx.n(16, 120)):
        t = r.randrange(3)
        lead = r.choice([-1.0, 1.0]) * r.uniform(0.5, 2)
        rt0 = r.uniform(-3, 3)
        if t == 0:
            kind, P = 'poly', poly_from_roots([rt0], lead)
        elif t == 1:
            c2 = r.uniform(0.5, 2) ** 2
            cs = [lead, -lead * rt0, lead * c2, -lead * rt0 * c2]          # lead (x - r)(x^2 + c^2)
            dcs = [3 * cs[0], 2 * cs[1], cs[2]]
            kind, P = 'poly', [0.0] * (PAD - 4) + cs + [0.0] * (PAD - 4) + dcs
        else:
            kind, P = 'rat', [rt0, r.uniform(-0.6, 0.6)]
        w = 10.0 ** r.uniform(2, 6)
        b0, b1 = rt0 - w * r.uniform(0.05, 1), rt0 + w * r.uniform(0.05, 1)
        if r.random() < 0.5:
            b0, b1 = b1, b0
        cases.append(dict(kind=kind, P=P, x0=guess(b0, b1), b0=b0, b1=b1, mi=50, xt=1e-13, rt=0.0, stream='wide-monotone'))
    return cases


# ----------------------------------------------------------------------------- reference: textbook rtsafe in python floats

def ref_iterations(case, cap):
    """worst case of ref_iterations_k over the exact evaluation and two evaluations perturbed at rounding level (an
    ill-conditioned root may be 'hit exactly' by luck in one rounding regime and never in another: jit fuses multiply-adds)"""
    worst = 0
    for k in (0, 1, -1):
        n = ref_iterations_k(case, cap, k)
        if n is None:
            return None
        worst = max(worst, n)
    return worst


def ref_iterations_k(case, cap, k):
    """Numerical-Recipes rtsafe (Newton safeguarded by bisection, the algorithm the implementation documents) on the same
    function in plain python floats; returns the number of iterations to convergence, or None if `cap` is not enough.
    Used only to tell the known iteration-cap finding (the textbook algorithm needs more than max_iters too) from a defect."""
    E = _setup()
    _, val, der = E['fams'][case['kind']]
    jnp = E['jnp']
    P = jnp.array(case['P'])
    f = lambda x: (float(val(x, P)) + k * 2e-16 * f_scale(case['kind'], case['P'], x), float(der(x, P)))
    b0, b1 = case['b0'], case['b1']
    fl, fh = f(b0)[0], f(b1)[0]
    if not ((fl < 0 < fh) or (fh < 0 < fl)):
        return None
    xl, xh = (b0, b1) if fl < 0 else (b1, b0)
    x = min(max(case['x0'], b0), b1)
    dxo = abs(b1 - b0)
    dx = dxo
    F, DF = f(x)
    for i in range(1, cap + 1):
        if ((x - xh) * DF - F) * ((x - xl) * DF - F) > 0 or abs(2 * F) > abs(dxo * DF):
            dxo = dx
            dx = 0.5 * (xh - xl)
            x = xl + dx
            cv = x == xl
        else:
            dxo = dx
            if DF == 0:
                return None
            dx = -F / DF
            t = x
            x = x + dx
            cv = x == t
        F, DF = f(x)
        if F != F:
            return None
        if F < 0:
            xl = x
        else:
            xh = x
        if cv or abs(dx) < case['xt'] or abs(F) <= case['rt']:
            return i
    return None


# ----------------------------------------------------------------------------- running the implementation

_CACHE = {}


def _setup():
    if 'fams' not in _CACHE:
        import jax
        import jax.numpy as jnp
        import optimism  # noqa: F401
        from optimism import ScalarRootFind as S
        _CACHE.update(jax=jax, jnp=jnp, S=S, fams=_families(), jit={})
    return _CACHE


def run_eager(case):
    """rtsafe_ executed op by op (jax.disable_jit): the same source, IEEE binary64 without XLA fusion"""
    E = _setup()
    jax, jnp, S = E['jax'], E['jnp'], E['S']
    f = E['fams'][case['kind']][0]
    P = jnp.array(case['P'])
    with jax.disable_jit():
        x, info = S.rtsafe_(lambda x: f(x, P), case['x0'], jnp.array([case['b0'], case['b1']]),
                            S.Settings(case['mi'], case['xt'], case['rt']))
    return (float(x), bool(info.converged), int(info.iterations), float(info.residual_norm), float(info.correction_norm))


def run_compiled(cases):
    """find_root (public API, with custom_root) under jit + vmap, one compilation per family"""
    E = _setup()
    jax, jnp, S = E['jax'], E['jnp'], E['S']
    out = [None] * len(cases)
    by = {}
    for i, c in enumerate(cases):
        by.setdefault(c['kind'], []).append(i)
    for kind, idx in by.items():
        if kind not in E['jit']:
            f = E['fams'][kind][0]

            def one(P, x0, b0, b1, mi, xt, rt, f=f):
                x, info = S.find_root(lambda x: f(x, P), x0, jnp.array([b0, b1]), S.Settings(mi, xt, rt))
                return x, info.converged, info.iterations, info.residual_norm, info.correction_norm
            E['jit'][kind] = jax.jit(jax.vmap(one))
        g = lambda key: jnp.array([cases[i][key] for i in idx])
        x, cv, it, rs, dx = E['jit'][kind](g('P'), g('x0'), g('b0'), g('b1'), jnp.array([cases[i]['mi'] for i in idx]), g('xt'), g('rt'))
        for k, i in enumerate(idx):
            out[i] = (float(x[k]), bool(cv[k]), int(it[k]), float(rs[k]), float(dx[k]))
    return out


def run_single(case):
    """find_root called directly (no vmap)"""
    E = _setup()
    jnp, S = E['jnp'], E['S']
    f = E['fams'][case['kind']][0]
    P = jnp.array(case['P'])
    x, info = S.find_root(lambda x: f(x, P), case['x0'], jnp.array([case['b0'], case['b1']]), S.Settings(case['mi'], case['xt'], case['rt']))
    return (float(x), bool(info.converged), int(info.iterations), float(info.residual_norm), float(info.correction_norm))


def zero_slope_iterate(case):
    """replay eagerly with a logging oracle; returns an iterate where F == 0 and DF == 0 were returned, or None"""
    E = _setup()
    jax, jnp, S = E['jax'], E['jnp'], E['S']
    _, val, der = E['fams'][case['kind']]
    P = jnp.array(case['P'])
    log = []

    @jax.custom_jvp
    def f(x):
        return val(x, P)

    @f.defjvp
    def fj(p, t):
        v, d = val(p[0], P), der(p[0], P)
        try:
            log.append((float(p[0]), float(v), float(d)))
        except Exception:
            pass
        return v, d * t[0]
    with jax.disable_jit():
        S.rtsafe_(f, case['x0'], jnp.array([case['b0'], case['b1']]), S.Settings(case['mi'], case['xt'], case['rt']))
    for x, v, d in log:
        if x == x and (v != v or d != d or math.isinf(v) or math.isinf(d)):
            return ('nonfinite_oracle', x)
        if v == 0.0 and d == 0.0:
            return ('zero_over_zero', x)
    return None


# ----------------------------------------------------------------------------- L2: the theorems' conclusions on outputs

def classify(case):
    fl = py_val(case['kind'], case['P'], case['b0'])
    fh = py_val(case['kind'], case['P'], case['b1'])
    sl, sh = f_scale(case['kind'], case['P'], case['b0']), f_scale(case['kind'], case['P'], case['b1'])
    exact = case['stream'] in ('endpoint', 'multiple-root')
    rt = case['rt']
    # the sign of an end value, or its position relative to r_tol, could depend on multiply-add fusion
    fragile = (not exact) and (abs(abs(fl) - rt) < 1e-11 * sl or abs(abs(fh) - rt) < 1e-11 * sh)
    return fl, fh, fragile


STRICT = [False]    # set by search(): additionally demand that a converged result of a bounded-slope family is near a sign change of f


def concl(case, out, tag):
    """-> list of (clause, text, signature or None)"""
    x, cv, it, rs, dx = out
    fl, fh, fragile = classify(case)
    bad = []
    nan = x != x
    if nan == cv:
        bad.append(('nan_iff_not_converged', 'x=%r but converged=%r' % (x, cv), None))
    if fragile:
        return bad
    lo, hi = min(case['b0'], case['b1']), max(case['b0'], case['b1'])
    rt = case['rt']
    bracketed = (fl < 0 < fh) or (fh < 0 < fl)          # by signs (C17_sign_test_is_product_test: the product test over R)
    xc = min(max(case['x0'], case['b0']), case['b1'])   # np.clip
    fc = py_val(case['kind'], case['P'], xc) if xc == xc else math.nan
    if abs(fh) <= rt:
        if not (x == case['b1'] and it == 0 and cv):
            bad.append(('endpoint_root', '|f(b1)|=%r <= r_tol but returned x=%r after %d iterations' % (abs(fh), x, it), None))
    elif abs(fl) <= rt:
        if not (x == case['b0'] and it == 0 and cv):
            bad.append(('endpoint_root', '|f(b0)|=%r <= r_tol but returned x=%r after %d iterations' % (abs(fl), x, it), None))
    elif not bracketed:
        if not nan or cv:
            bad.append(('no_sign_change_nan', 'no sign change (f(b0)=%r, f(b1)=%r) but x=%r converged=%r' % (fl, fh, x, cv), None))
    else:
        if abs(fc) <= rt and abs(abs(fc) - rt) >= 1e-11 * f_scale(case['kind'], case['P'], xc) * (rt > 0):
            if not (x == xc and it == 0 and cv):
                bad.append(('guess_is_root', '|f(clipped guess %r)|=%r <= r_tol but returned x=%r after %d iterations' % (xc, abs(fc), x, it), None))
        if nan:
            if it == case['mi'] and rs == rs and dx == dx and not cv and case['mi'] > 0:
                sig = 'cap'
            elif rs != rs and it == case['mi'] and not cv:
                sig = 'nan_residual'
            else:
                sig = None
            bad.append(('sign_change_returns_root', 'sign change (f(b0)=%r, f(b1)=%r) but NaN returned after %d iterations, |F|=%r |dx|=%r'
                        % (fl, fh, it, rs, dx), sig))
        else:
            if not (lo <= x <= hi):
                # residual magnitudes below 1e-150: the product in the loop's Newton range test underflows to 0, the test is disabled
                under = max(abs(fl), abs(fh), abs(fc) if fc == fc else 0.0) < 1e-150
                # op-by-op execution only (finding F7f): outside by a rounding error of the accepted Newton step (<= 4 ulp of the bracket scale)
                dist = (lo - x) if x < lo else (x - hi)
                rounding = tag == 'rtsafe_ eager' and dist <= 4 * math.ulp(max(abs(lo), abs(hi), hi - lo))
                bad.append(('result_in_bracket', 'x=%r outside [%r, %r]' % (x, lo, hi),
                            'range_test_underflow' if under else 'newton_overshoot_rounding' if rounding else None))
    if not nan and cv and it > 0:
        moved = abs(dx) <= math.ulp(x) if x != 0 else dx == 0
        if not (abs(dx) < case['xt'] or rs <= case['rt'] * (1 + 1e-9) or moved):
            bad.append(('converged_reason', 'converged with |dx|=%r >= x_tol=%r, |F|=%r >= r_tol=%r and the iterate moved' % (dx, case['xt'], rs, case['rt']), None))
    if not nan:
        fx = abs(py_val(case['kind'], case['P'], x))
        if abs(fx - rs) > 1e-12 * f_scale(case['kind'], case['P'], x) + 1e-300:
            bad.append(('residual_is_f_at_result', 'residual_norm=%r but |f(x)|=%r at x=%r' % (rs, fx, x), None))
    if STRICT[0] and not nan and cv and it > 0 and bracketed and case['kind'] in ('poly', 'rat') and case['rt'] == 0 and case['xt'] <= 1e-6:
        h = max(100 * case['xt'], 1e-7 * (1 + abs(x)))
        fa, fb, fx0 = (py_val(case['kind'], case['P'], t) for t in (x - h, x + h, x))
        if fa * fb > 0 and abs(fx0) > 1e-9 * f_scale(case['kind'], case['P'], x):
            bad.append(('result_is_near_a_root', 'converged at x=%r with f(x)=%r but f has no sign change within %.3g of x' % (x, fx0, h), None))
    if it > case['mi'] or it < 0:
        bad.append(('iteration_cap', 'iterations=%d > max_iters=%d' % (it, case['mi']), None))
    return bad


def report(ctx, case, out, tag, bad):
    for clause, text, sig in bad:
        c = dict(case)
        c.update(out=list(out), mode=tag, clause=clause, sig=sig)
        if sig == 'cap':
            try:
                need = ref_iterations(case, 4 * case['mi'] + 40)
            except Exception:
                need = -1
            c['ref_iterations_needed'] = need        # None: not even 4*max_iters+40 iterations suffice
        if sig == 'nan_residual':
            try:
                z = zero_slope_iterate(case)
            except Exception:
                z = None
            if z is not None and z[0] == 'nonfinite_oracle':
                # f or f' is not finite at an iterate (e.g. the slope of |x-c|^(1/2^k) at x = c): outside the stated domain
                ctx.count('excluded_nonfinite_oracle')
                continue
            c['zero_slope_iterate'] = z[1] if z else None
            c['sig'] = 'zero_over_zero' if z is not None else None
        ctx.fail('conclusion', '%s [%s] %s(P=%r) x0=%r bracket=[%r,%r] settings=(%d,%r,%r): %s'
                 % (clause, tag, case['kind'], case['P'], case['x0'], case['b0'], case['b1'], case['mi'], case['xt'], case['rt'], text),
                 case=c, concrete=True)


# ----------------------------------------------------------------------------- gradient of the root vs the IFT value

def grad_cases(ctx):
    r = ctx.rng('grad')
    out = []
    for _ in range(ctx.n(40, 400)):
        t = r.randrange(3)
        p, q = r.uniform(0.2, 3), r.uniform(-2, 2)
        if t == 2:
            q = r.uniform(0.2, 3)
        out.append((t, p, q, r.uniform(-6, 6)))
    # root exactly on a bracket end (left / right; the end fixed, or moving with p at a rate different from the root's)
    for t in (3, 4, 5, 6):
        for _ in range(ctx.n(5, 40)):
            out.append((t, r.uniform(-3, 3), r.uniform(0.2, 3), r.uniform(-6, 6)))
    return out


def grad_eval(cases):
    E = _setup()
    jax, jnp, S = E['jax'], E['jnp'], E['S']
    fs = [lambda x, p, q: p * x ** 3 + x - q,
          lambda x, p, q: x / (1.0 + jnp.abs(x)) * p + 0.1 * x - 0.3 * q * p,
          lambda x, p, q: jnp.exp(0.3 * p * x) - q]
    fend = lambda x, p, q: q * (x - p) + (x - p) ** 3          # root exactly x = p, dx/dp = 1, dx/dq = 0
    fs += [fend] * 4

    def bracket_for(t, p):
        p0 = jax.lax.stop_gradient(p)
        return {3: lambda: jnp.array([p0, p0 + 3.0]), 4: lambda: jnp.array([p0 - 3.0, p0]),
                5: lambda: jnp.array([2 * p - p0, p0 + 3.0]), 6: lambda: jnp.array([p0 - 3.0, 2 * p - p0])}.get(t, lambda: jnp.array([-50.0, 50.0]))()
    res = []
    st = S.get_settings()
    for t in range(7):
        idx = [i for i, c in enumerate(cases) if c[0] == t]
        if not idx:
            continue
        f = fs[t]
        root = lambda p, q, x0, f=f, t=t: S.find_root(lambda x: f(x, p, q), x0, bracket_for(t, p), st)[0]
        g = jax.jit(jax.vmap(jax.value_and_grad(root, (0, 1))))
        ps, qs, x0s = (jnp.array([cases[i][k] for i in idx]) for k in (1, 2, 3))
        xs, (gp, gq) = g(ps, qs, x0s)
        fx = jax.vmap(jax.grad(f, 0))(xs, ps, qs)
        fp = jax.vmap(jax.grad(f, 1))(xs, ps, qs)
        fq = jax.vmap(jax.grad(f, 2))(xs, ps, qs)
        for k, i in enumerate(idx):
            res.append((i, float(xs[k]), float(gp[k]), float(gq[k]), float(-fp[k] / fx[k]), float(-fq[k] / fx[k]), float(f(xs[k], ps[k], qs[k]))))
    return res


# ----------------------------------------------------------------------------- derivative of the root under rescaling of the residual
# (seed C17-5: a tangent solve that returns 0 below an ABSOLUTE slope threshold).  The derivative of the root does not depend on the
# unit the residual is expressed in: f and c*f have the same roots and the same -f_a/f_x.  Residuals scaled by 10^k, k in -20..20,
# and families whose slope at the root is tiny without any scaling (flat powers near a small root, shallow lines).

SCALED_FAMS = ('cubic', 'flatpow', 'shallow', 'sigmoid')


def _scaled_f(name):
    import jax.numpy as jnp
    # f(x, a, c, m): residual family; a = parameter the root depends on, c = scale, m = second shape parameter
    return {'cubic': lambda x, a, c, m: c * (x ** 3 + m * x - a),                         # slope c (3 x^2 + m)
            'flatpow': lambda x, a, c, m: c * (x ** 9 - a ** 9),                          # slope 9 c x^8: ~1e-13 c at a = 0.02
            'shallow': lambda x, a, c, m: (3.0 * c) * (a - x) + c * (a - x) ** 3 * m,     # decreasing, slope -3c at the root x = a
            'sigmoid': lambda x, a, c, m: c * ((x - a) / (1.0 + jnp.abs(x - a)) + m * (x - a))}[name]


def scaled_cases(ctx):
    """-> list of (family, a, k, m, x0, b0, b1): residual scale c = 10^k"""
    r = ctx.rng('scaled-grad')
    out = []
    ks = list(range(-20, 21))
    n = ctx.n(3, 12)
    for fam in SCALED_FAMS:
        for k in ks:
            for _ in range(n if k % 4 == 0 or abs(k) >= 11 else max(1, n // 3)):
                if fam == 'cubic':
                    a, m, b0, b1 = r.uniform(0.5, 6), r.choice([0.0, 0.0, r.uniform(0, 2)]), 1e-3, 10.0
                elif fam == 'flatpow':
                    a, m, b0, b1 = r.uniform(0.015, 0.06), 0.0, 0.0, 1.0
                elif fam == 'shallow':
                    a, m, b0, b1 = r.uniform(-1.5, 1.5), r.uniform(0.1, 1.0), -2.0, 2.0
                else:
                    a, m, b0, b1 = r.uniform(-2, 2), r.uniform(0.0, 0.5), -5.0, 5.0
                if r.random() < 0.3:
                    b0, b1 = b1, b0
                out.append((fam, a, k, m, r.uniform(min(b0, b1) - 1, max(b0, b1) + 1), b0, b1))
    return out


def scaled_eval(cases):
    """-> list of (i, root, jacfwd, grad, ift, f_x, f_a) through the public find_root, jit + vmap, one compilation per family"""
    E = _setup()
    jax, jnp, S = E['jax'], E['jnp'], E['S']
    st = S.get_settings()
    res = []
    for fam in SCALED_FAMS:
        idx = [i for i, c in enumerate(cases) if c[0] == fam]
        if not idx:
            continue
        key = ('scaled', fam)
        if key not in E['jit']:
            f = _scaled_f(fam)

            def root(a, c, m, x0, b0, b1, f=f):
                return S.find_root(lambda x: f(x, a, c, m), x0, jnp.array([b0, b1]), st)[0]

            def one(a, c, m, x0, b0, b1, f=f, root=root):
                x, g = jax.value_and_grad(root)(a, c, m, x0, b0, b1)
                jf = jax.jacfwd(root)(a, c, m, x0, b0, b1)
                fx = jax.grad(f, 0)(x, a, c, m)
                fa = jax.grad(f, 1)(x, a, c, m)
                return x, jf, g, fx, fa
            E['jit'][key] = jax.jit(jax.vmap(one))
        col = lambda j: jnp.array([float(cases[i][j]) for i in idx])
        cs = jnp.array([10.0 ** cases[i][2] for i in idx])
        x, jf, g, fx, fa = E['jit'][key](col(1), cs, col(3), col(4), col(5), col(6))
        for k, i in enumerate(idx):
            fxk, fak = float(fx[k]), float(fa[k])
            ift = -fak / fxk if fxk != 0 else math.nan
            res.append((i, float(x[k]), float(jf[k]), float(g[k]), ift, fxk, fak))
    return res


def scaled_check(ctx, model_ok):
    cases = scaled_cases(ctx)
    rows = scaled_eval(cases)
    hist, tiny, nchk = {}, 0, 0
    base = {}          # (family, a, m, x0, b0, b1 rounded) is not shared between scales; the scale-1 derivative is the IFT value itself
    for (i, x, jf, g, ift, fx, fa) in rows:
        ctx.count('evaluations')
        fam, a, k, m, x0, b0, b1 = cases[i]
        if x != x or ift != ift:
            ctx.count('scaled_gradient_root_nan_skipped')
            continue
        nchk += 1
        hist[k] = hist.get(k, 0) + 1
        if 0 < abs(fx) < 1e-12:
            tiny += 1
        for nm, d in (('jax.jacfwd', jf), ('jax.grad', g)):
            if not C.close(d, ift, rtol=1e-9, atol=0.0):
                ctx.fail('conclusion', '%s of the root of %s (residual scaled by 1e%d, a=%r, m=%r, x0=%r, bracket [%r,%r]) = %r but the '
                         'implicit-function value -f_a/f_x = %r (root %r, slope at the root f_x = %r): the derivative of the root must not '
                         'depend on the unit of the residual' % (nm, fam, k, a, m, x0, b0, b1, d, ift, x, fx),
                         case=dict(clause='ift_scaled_gradient', fam=fam, a=a, k=k, m=m, x0=x0, b0=b0, b1=b1, mode=nm, deriv=d, ift=ift, slope=fx, sig=None),
                         concrete=True)
    ctx.count('scaled_gradient_checks', nchk)
    ctx.count('scaled_gradient_checks_with_slope_below_1e-12', tiny)
    ctx.cov['scaled_gradient_scales'] = {'1e%d' % k: v for k, v in sorted(hist.items())}
    if not model_ok or not rows:
        return
    # L1: custom_root's forward rule over the GENERATED tangent solve (model/M_C17d.v:root_jvp at binary64) against jax.jacfwd
    r = ctx.rng('scaled-grad-model')
    pick = r.sample(range(len(rows)), min(len(rows), ctx.n(60, 300)))
    pick = [j for j in pick if rows[j][1] == rows[j][1] and rows[j][4] == rows[j][4]]
    ex = ['enc_root_jvp %s %s %s' % (C.cf(rows[j][5]), C.cf(rows[j][6]), C.cf(1.0)) for j in pick]
    out = C.coq_eval(['From OV.model Require Import M_C17d.'], ex, 'C17d', shard=150)
    mism = 0
    for j, rr in zip(pick, out):
        (mv,) = C.dec_floats(rr)
        if not C.close(mv, rows[j][2], rtol=4e-16, atol=5e-324):
            mism += 1
            if mism <= 6:
                ctx.fail('correspondence', 'model root_jvp (generated tangent solve, binary64) = %r but jax.jacfwd of find_root = %r for %r (f_x=%r, f_a=%r)'
                         % (mv, rows[j][2], cases[rows[j][0]], rows[j][5], rows[j][6]), case=dict(case=list(cases[rows[j][0]]), model=mv, impl=rows[j][2]))
    ctx.count('root_jvp_model_vs_jacfwd_comparisons', len(pick))
    ctx.count('root_jvp_model_vs_jacfwd_mismatches', mism)


# ----------------------------------------------------------------------------- the check

def correspondence(ctx, model_ok):
    cases = gen_cases(ctx)
    comp = run_compiled(cases)
    ctx.count('evaluations', len(cases))
    distinct = set()
    hist = {}
    for c, o in zip(cases, comp):
        key = (c['kind'], tuple(c['P']), c['x0'], c['b0'], c['b1'], c['mi'], c['xt'], c['rt'])
        if o[2] >= 1 or o[0] != o[0] or c['stream'] != 'random':
            distinct.add(key)
        bad = concl(c, o, 'find_root jit+vmap')
        report(ctx, c, o, 'find_root jit+vmap', bad)
        h = 'nan' if o[0] != o[0] else 'converged'
        hist[h] = hist.get(h, 0) + 1
    ctx.count('distinct_nontrivial', len(distinct))
    ctx.cov['outcomes'] = hist
    ctx.cov['streams'] = {s: sum(1 for c in cases if c['stream'] == s) for s in ('random', 'endpoint', 'multiple-root', 'wide-monotone', 'tiny-residual', 'nan-insensitive', 'within-tolerance', 'end-overshoot')}
    # a few direct (un-vmapped) calls of the public API must agree with the batched ones
    r = ctx.rng('single')
    for i in r.sample(range(len(cases)), min(ctx.n(6, 25), len(cases))):
        o1 = run_single(cases[i])
        ctx.count('evaluations')
        same = (o1[1] == comp[i][1]) and (o1[2] == comp[i][2]) and C.close(o1[0], comp[i][0], rtol=1e-12, atol=1e-300)
        if not same:
            report(ctx, cases[i], o1, 'find_root direct', concl(cases[i], o1, 'find_root direct'))
            ctx.count('direct_vs_vmapped_differences')
    ctx.sample(dict(case={k: cases[0][k] for k in ('kind', 'P', 'x0', 'b0', 'b1', 'mi', 'xt', 'rt')}, find_root=list(comp[0])))
    # gradient of the root with respect to parameters of f versus the implicit-function-theorem value (theorem C17_ift)
    gc = grad_cases(ctx)
    ng = 0
    for (i, x, gp, gq, ip, iq, fx) in grad_eval(gc):
        ctx.count('evaluations')
        if x != x:
            continue
        ng += 1
        for nm, a, b in (('p', gp, ip), ('q', gq, iq)):
            if not C.close(a, b, rtol=1e-7, atol=1e-9):
                ctx.fail('conclusion', 'jax.grad of the root w.r.t. %s = %r but the implicit-function value -f_%s/f_x = %r (family %d, p=%r q=%r x0=%r, root %r)'
                         % (nm, a, nm, b, gc[i][0], gc[i][1], gc[i][2], gc[i][3], x),
                         case=dict(clause='ift_gradient', fam=gc[i][0], p=gc[i][1], q=gc[i][2], x0=gc[i][3], grad=a, ift=b, sig=None), concrete=True)
    ctx.count('gradient_checks', ng)
    scaled_check(ctx, model_ok)
    # rtsafe_ executed op by op on the end-overshoot stream: the conclusion clauses on its outputs (finding F7f)
    eager_cache = {}
    nout = 0
    for i, c in enumerate(cases):
        if c['stream'] == 'end-overshoot':
            e = eager_cache[i] = run_eager(c)
            ctx.count('evaluations')
            bad = concl(c, e, 'rtsafe_ eager')
            nout += any(b[0] == 'result_in_bracket' for b in bad)
            report(ctx, c, e, 'rtsafe_ eager', bad)
    ctx.count('eager_overshoot_cases', len(eager_cache))
    ctx.count('eager_results_outside_bracket_by_rounding', nout)
    if not model_ok:
        return
    # ---- L1: the model at binary64 against the implementation
    r2 = ctx.rng('eager')
    ne = min(len(cases), ctx.n(70, 450))
    pick = set(r2.sample(range(len(cases)), ne))
    pick |= {i for i, c in enumerate(cases) if c['stream'] in ('endpoint', 'multiple-root', 'tiny-residual', 'nan-insensitive', 'within-tolerance', 'end-overshoot')}
    ex = ['enc_result (let g := %s in rtsafe (feval g) (fdiff g) %s %s %s %d %s %s)'
          % (coq_fam(c['kind'], c['P']), C.cf(c['x0']), C.cf(c['b0']), C.cf(c['b1']), c['mi'], C.cf(c['xt']), C.cf(c['rt'])) for c in cases]
    res = C.coq_eval(IMPORTS, ex, 'C17', shard=150)
    mism = unstable = 0
    whyh = {}
    for i, (c, rr) in enumerate(zip(cases, res)):
        if rr[0] < 0:
            ctx.fail('correspondence', 'model ran out of fuel on case %d (cannot happen by C17_never_out_of_fuel)' % i, case=dict(c))
            continue
        why, mcv = rr[0], bool(rr[1])
        mx, mit, mF, mdx = C.dec_floats(rr[2:])
        whyh[why] = whyh.get(why, 0) + 1
        # (a) against find_root under jit+vmap: tolerance, and only when the trajectory length agrees (near-tie rule)
        o = comp[i]
        fl, fh, fragile = classify(c)
        if c['stream'] == 'end-overshoot':
            # by construction exactly at a switch of the rounded Newton range test (computed factor 0): the compiled path fuses the
            # multiply-subtract and takes the other branch; this stream is tied bit-for-bit to the op-by-op execution in (b) only
            ctx.count('range_test_tie_by_construction_compiled_comparison_skipped')
        elif not fragile:
            if (o[2] == int(mit) or (why == 1 and c['kind'] == 'polyq')) and o[1] == mcv:
                if not C.close(o[0], mx, rtol=1e-9, atol=1e-12):
                    # ill-conditioned (multiple) roots: the two roots may differ while both residuals are at rounding level
                    sc = f_scale(c['kind'], c['P'], mx)
                    lim = max(c['rt'], 1e-11 * sc)
                    if not (abs(py_val(c['kind'], c['P'], o[0])) <= lim and abs(mF) <= lim):
                        mism += 1
                        ctx.fail('correspondence', 'model root %r but find_root gives %r (same iteration count %d) for %s' % (mx, o[0], o[2], c), case=dict(c, model=mx, impl=o[0]))
                    else:
                        ctx.count('ill_conditioned_roots_compared_by_residual')
            else:
                unstable += 1
        # (b) against rtsafe_ executed eagerly: discrete data exact, floats within 4 ulp
        if i in pick and 0 < abs(mF) < 1e-300:
            ctx.count('subnormal_residual_eager_comparison_skipped')      # XLA flushes subnormals to zero, PrimFloat does not
        elif i in pick:
            e = eager_cache.get(i) or run_eager(c)
            ctx.count('evaluations')
            ok = (e[1] == mcv) and (e[2] == int(mit) or (why == 1 and c['kind'] == 'polyq')) and ((e[0] != e[0]) == (mx != mx))
            if ok and mx == mx:
                ok = C.close(e[0], mx, rtol=1e-15, atol=0.0) and C.close(e[3], abs(mF), rtol=1e-15, atol=5e-324) and C.close(e[4], abs(mdx), rtol=1e-15, atol=5e-324)
            if ok and why == 3:
                ok = C.close(e[3], abs(mF), rtol=1e-15, atol=5e-324) and C.close(e[4], abs(mdx), rtol=1e-15, atol=5e-324)
            if not ok:
                mism += 1
                if mism <= 12:
                    ctx.fail('correspondence', 'model (why=%d conv=%r x=%r iters=%r |F|=%r |dx|=%r) differs from eager rtsafe_ %r on %s'
                             % (why, mcv, mx, mit, abs(mF), abs(mdx), e, c), case=dict(c, model=[why, mcv, mx, mit, mF, mdx], impl=list(e)))
    ctx.count('model_vs_impl_comparisons', len(cases) + len(pick))
    ctx.count('model_vs_impl_mismatches', mism)
    ctx.count('trajectory_length_differs_jit_vs_model', unstable)
    ctx.cov['model_outcomes'] = {['converged', 'not_bracketed', 'zero_over_zero', 'iteration_cap'][k]: v for k, v in whyh.items()}


def search(ctx, reasons):
    import copy
    known = [f for f in C.load_known_findings() if f['property'] == ID and f['status'] == 'open']
    STRICT[0] = True
    for k in range(3):
        c2 = copy.copy(ctx)
        c2.tier = 'thorough'
        c2.failures, c2.counts, c2.cov, c2.samples = [], {}, {}, []
        c2.seed = ctx.seed + 1 + k
        correspondence(c2, False)
        for f in c2.failures:
            if f.get('concrete') and not any(matches_finding(f, kf) for kf in known):
                return f
    return None


# ----------------------------------------------------------------------------- known findings

def _witness_run(w):
    E = _setup()
    jnp, S = E['jnp'], E['S']
    fn = w['fn']
    if fn == 'signpow':
        f = lambda x: jnp.sign(x - w['c']) * jnp.abs(x - w['c']) ** w['p']
    elif fn == 'cube':
        f = lambda x: (x - w['c']) ** 3
    elif fn == 'const':
        f = lambda x: jnp.ones_like(x)
    elif fn == 'tiny_linear':
        f = lambda x: w['a'] * (x - w['c'])
    else:
        raise ValueError(fn)
    st = S.get_settings(*w.get('settings', [50, 1e-13, 0]))
    x, info = S.find_root(f, w['x0'], jnp.array(w['bracket']), st)
    fl, fh = float(f(w['bracket'][0])), float(f(w['bracket'][1]))
    return float(x), bool(info.converged), int(info.iterations), fl, fh


def finding_fails(ctx, f):
    w = f['witness']
    if 'case' in w and w.get('mode') == 'eager':
        case = w['case']
        return any(b[0] == w['clause'] and b[2] == w['sig'] for b in concl(case, run_eager(case), 'rtsafe_ eager'))
    if 'case' in w:
        case = w['case']
        return any(b[0] == w['clause'] for b in concl(case, run_compiled([case])[0], 'find_root jit+vmap'))
    x, cv, it, fl, fh = _witness_run(w)
    if w['sig'] in ('cap', 'zero_over_zero', 'underflow'):
        return (fl < 0) != (fh < 0) and fl != 0 and fh != 0 and x != x          # sign change, yet NaN
    if w['sig'] == 'nan_insensitive':
        return fl * fh > 0 and x == x                                            # no sign change, yet a number
    return False


def matches_finding(fl, f):
    c = fl.get('case') or {}
    w = f['witness']
    if w['sig'] == 'newton_overshoot_rounding':
        # only the op-by-op execution, only a result outside the bracket by a rounding error of the accepted Newton step
        return (fl.get('kind') == 'conclusion' and c.get('clause') == 'result_in_bracket' and c.get('sig') == 'newton_overshoot_rounding'
                and c.get('mode') == 'rtsafe_ eager')
    if w['sig'] == 'range_test_underflow':
        return fl.get('kind') == 'conclusion' and c.get('clause') == 'result_in_bracket' and c.get('sig') == 'range_test_underflow'
    if fl.get('kind') != 'conclusion' or c.get('clause') != 'sign_change_returns_root' or c.get('sig') != w['sig']:
        return False
    out = c.get('out') or [0, True, -1, 0, 0]
    if w['sig'] == 'cap':
        # the iteration cap also stops the textbook algorithm (to within 3 iterations): that, and only that, is finding F7
        need = c.get('ref_iterations_needed', -1)
        # ... or no tolerance was requested (x_tol = r_tol = 0: convergence only by exact floating-point coincidence) and the run
        # stagnates at rounding level (last |dx| within 4 ulp of the bracket scale) when the cap stops it
        stagnant = c.get('xt') == 0 and c.get('rt') == 0 and abs(out[4]) <= 4 * math.ulp(max(abs(c.get('b0', 0.0)), abs(c.get('b1', 0.0))))
        return out[0] != out[0] and not out[1] and out[2] == c.get('mi') and out[3] == out[3] and (need is None or need >= c.get('mi', 0) - 3 or stagnant)
    if w['sig'] == 'zero_over_zero':
        return out[0] != out[0] and not out[1] and c.get('zero_slope_iterate') is not None
    return False


def replay(ctx, path):
    rep = json.load(open(path))
    case = rep.get('failing_input')
    print('replay of', path)
    print(json.dumps(rep.get('reasons'), indent=1)[:3000])
    if not case:
        print('no concrete failing input recorded; broken obligations:', rep.get('broken'))
        return 1
    if case.get('clause') == 'ift_gradient':
        t = (case['fam'], case['p'], case['q'], case['x0'])
        (i, x, gp, gq, ip, iq, fx), = grad_eval([t])
        bad = not (C.close(gp, ip, rtol=1e-7, atol=1e-9) and C.close(gq, iq, rtol=1e-7, atol=1e-9))
        print('implementation now: grad=(%r,%r) ift=(%r,%r)' % (gp, gq, ip, iq))
        return 1 if bad else 0
    if case.get('clause') == 'ift_scaled_gradient':
        t = (case['fam'], case['a'], case['k'], case['m'], case['x0'], case['b0'], case['b1'])
        (i, x, jf, g, ift, fx, fa), = scaled_eval([t])
        bad = not (C.close(jf, ift, rtol=1e-9, atol=0.0) and C.close(g, ift, rtol=1e-9, atol=0.0))
        print('implementation now: root=%r jacfwd=%r grad=%r ift=%r slope=%r' % (x, jf, g, ift, fx))
        return 1 if bad else 0
    if 'kind' not in case:
        print('case is replayed by re-running the check')
        return 1
    outs = [('find_root jit+vmap', run_compiled([case])[0]), ('find_root direct', run_single(case))]
    rc = 0
    for tag, o in outs:
        bad = concl(case, o, tag)
        print(tag, '->', o, ':', [b[:2] for b in bad] or 'all clauses hold')
        if bad:
            rc = 1
    if 'model' in case and 'impl' in case:
        e = run_eager(case)
        print('eager rtsafe_ now:', e, ' model then:', case['model'])
        rc = 1
    return rc
