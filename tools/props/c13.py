"""C13 -- mesh construction, merging, reading and order elevation keep meshes valid (optimism/Mesh.py and readers)."""
import ast
import json
import os
import shutil
import sys
import types
from fractions import Fraction

from vlib import common as C

ID = 'C13'
READY = True
LEVEL_TEXT = ('Partial. Coq theorems over hand models tied to the source by exact comparison on every run: (1) structured generator: '
              '2(Nx-1)(Ny-1) elements, in-range connectivity using every node, every element counter-clockwise with twice-area '
              '(xs[ex+1]-xs[ex])(ys[ey+1]-ys[ey]) > 0 for any strictly increasing coordinate arrays, block_0 = all elements; '
              '(2) create_edges, for EVERY connectivity table: each undirected edge exactly once, left element/side hold the row\'s '
              'directed pair (boundary edges keep their owner\'s orientation), right element/side hold the reversed pair and -1 is '
              'returned only when no triangle does, holders unique when no directed pair repeats; (3) combine_mesh: node/element '
              'offsets, ranges, every node used, geometry untouched, and for ANY block / node-set / side-set names (distinct or equal; the '
              'model follows the repaired code 157ff14, which concatenates on equal names) no member is lost: every member of the first mesh '
              'and every shifted member of the second mesh is found under its name, member counts add up, members stay in range '
              '(formerly known finding F8, now a fixed finding replayed every run); (4) reader index arithmetic: 1-based to 0-based in range and one-to-one, blocks are consecutive '
              'ranges covering all elements, the 6-node permutation maps Exodus rows to the native vertex/face layout. '
              '(5) order elevation, connectivity: for the write-log model of create_higher_order_mesh_from_simplex_mesh (compared entry by entry with '
              'the implementation) and every certified reference element (checker pe_okb, proved sound, evaluated on the implementation\'s tables for '
              'ALL orders 1..5 with and without bubble on every run) and every connectivity without degenerate sides: no write is overwritten, vertex ids '
              'sit at the vertex positions, edge ids nV+e(p-1)+k at the face-interior positions of the left element in order and of the right element in '
              'reversed order (neighbours share edge nodes in matching order), interior ids at the interior positions, every id 0..nV+nE(p-1)+nT*nInt-1 '
              'is stored (no unused node), distinct slots get distinct ids (no duplicates), everything stored is in range; shared edge points agree '
              'up to delta|A-B| for 1-D nodes symmetric up to delta (Lobatto symmetry certificate evaluated in Coq over Q, delta = 1e-14). '
              'Every entry of every elevated row is written (certified element, no directed pair twice). Coordinates: the stacked coordinate array is '
              'modelled (vertex / edge-point / interior-point rows, compared with the implementation entry by entry), and the stored coordinate of every '
              'edge node is within delta(|X0-X2|+|X1-X2|) (+ delta\'|Xa-Xb| for the right element) of the affine image of its reference node, vertex and '
              'interior nodes exactly, where delta comes from the certificate that reference face nodes lie at the 1-D node parameters (evaluated in Coq over Q '
              'for all orders 1..5 with and without bubble, tol 1e-14). '
              '(6) THE WHOLE ELEVATED MESH in one closed statement (C13_elevated_mesh_affine / _certified / _shape): for every consistently oriented '
              'triangulation with in-range rows and no degenerate side, every element t and every reference position pos, the id stored at elevated[t][pos] '
              'is a node of the mesh and its stored coordinate em_coord (the stacked coordinate array computed from the function inputs only) is within '
              'delta(|X0-X2|+|X1-X2|) + delta\'(|X0-X1|+|X1-X2|+|X2-X0|) of the affine image of reference node pos (exactly at vertex and interior positions); '
              'one row per element, pe_n entries per row, every id 0..N-1 stored, vertex columns reproduce the simplex connectivity. All table hypotheses are '
              'discharged by ONE computed certificate elev_cert_okb (soundness proved over Q -> R) evaluated in Coq on the implementation\'s tables for orders 2..5 '
              'with and without bubble (delta = delta\' = 1e-14); the binary64 instance of the SAME definition em_coords is executed in Coq and compared with the '
              'implementation\'s coordinate array entry by entry (4e-16 scale). Not proved: binary64 rounding of the two matrix products. '
              '(6b) GEOMETRIC NON-DEGENERACY (round 4; C13_lagrange_shapes_reproduce_affine, C13_isoparametric_map_is_affine_exact, C13_isoparametric_jacobian, '
              'C13_elevated_jacobian_certified): optimism takes every element\'s geometry from its three vertex nodes only (FunctionSpace: jac = cross(v1-v0, v2-v0), '
              'J = column_stack((v0-v2, v1-v2))); proved: for every elevated element of the closed statement and every point at which the shape row reproduces '
              '1, xi0, xi1 and their gradients, the isoparametric map sum_a N_a x_a of the element\'s OWN stored nodes is the affine map of its simplex, its Jacobian '
              'matrix is exactly that column_stack and its determinant the simplex Jacobian (equalities for exact tables; with the certificate tolerances explicit '
              'bounds entry_bound / det_bound ~ (eps + lam*5*delta) * size, and positivity whenever twice the area exceeds det_bound); exact Lagrange shape functions '
              '(the solution of the transposed Vandermonde systems shape2d solves, ANY basis whose span contains the affine functions) reproduce at EVERY point; '
              'the implementation\'s numerically computed shape tables at the quadrature points are certified in Coq over Q on every run for orders 2..5 with and '
              'without bubble (jac_cert_okb: reproduction within 1e-12, sum|grad N| <= 256; soundness proved), and the conclusion is evaluated on every element '
              'of the implementation\'s elevated meshes at every quadrature point. Not proved: that vander2d\'s Dubiner basis spans P1 (hypothesis of the Lagrange '
              'theorem), the every-point statement for the bubble elements and for the binary64 linear solves (certified tables only). '
              '(7) READERS, whole file (C13_read_exodus_elements / _blocks / _nodesets / _sidesets / _simplex, C13_read_json_sidesets): for the model read_exodus of '
              'read_exodus_mesh as a function of the file content (1-based block records, node-set records, (element, side) records, name records with empty names) '
              'and every well-formed file: one mesh row per file row at block_first b + i holding the file row minus one (6-node rows in native order), all entries '
              'node ids; under pairwise distinct final names every block is stored under its name as the range of its rows and the ranges in order are exactly '
              '0..nE-1; every node set / side set is stored under its name with the same length, adding one gives back the file records (no member lost or merged), '
              'members in range (node ids; element ids and sides 0..2). The distinct-names hypothesis is needed: C13_read_exodus_name_clash_refuted (a block named '
              '\'block_2\' followed by an unnamed block) -- finding C13-READ-NAMES, fixed by /repo ce166ed, see (7b). The whole-file model is compared with '
              'the reader on in-memory files AND on the 8 real classic-netCDF Exodus files of the repository (6 of them, <= 2500 elements, also through Coq; all 8 '
              'through the conclusion predicate). The netCDF4 C library is not exercised: the reader code runs unchanged on a stand-in for netCDF4.Dataset backed by '
              'scipy.io.netcdf_file (real files) or by in-memory arrays; the 3 HDF5-based fixtures cannot be read here. '
              '(7b) round 4, after /repo ce166ed (the repair proposed by this check, applied): THE REPOSITORY\'S READER IS read_exodus_checked -- after the auto-naming loops '
              '_check_names_are_distinct raises ValueError when the final names of a kind coincide (None in the model), otherwise the reader does what read_exodus does. '
              'Headline, NO hypothesis on names (C13_read_exodus_mesh_whole_file, C13_read_exodus_checked_spec / _no_loss): on every well-formed file the reader either '
              'rejects -- exactly when some final names coincide -- or returns a mesh with one element per file row, every block / node set / side set stored under its '
              'name with all its members, blocks partitioning 0..nE-1, and block_maps whose entries in order are the element number map; it rejects exactly the files on '
              'which the reader without the check would drop a record (C13_read_exodus_rejects_iff_record_lost, from C13_dict_assignment_lossless_iff: dict(zip(names, vals)) '
              'keeps one entry per record IFF the names are pairwise distinct) -- no over-rejection. block_maps: C13_read_block_maps (block b gets the slice '
              '[first_b, first_b+n_b) of the element number map -- the file\'s or 1..nE); coordinates: C13_read_coords. The theorems (7) under the distinct-names hypothesis are the '
              'lemmas behind these; C13_read_exodus_name_clash_refuted / C13_read_block_maps_name_clash_refuted record what the reader did before the fix (finding '
              'C13-READ-NAMES, now fixed: its witness file is replayed every run and must be rejected). That the real reader IS read_exodus_checked is tied, not proved: '
              'the real reader is compared with the model (accept / ValueError, whole mesh, block_maps) on in-memory files with distinct names, on a stream whose final names often '
              'coincide (given names equal to each other or to auto-generated names), on the repository\'s fixtures, and by a fail-closed AST check that the three '
              '_check_names_are_distinct calls sit between the auto-naming loop and the first use of the names. '
              'Not modelled: the netCDF/JSON byte layer, name decoding, masked-array .filled() of the coordinate records.')
TECHNIQUE = 'Coq proof over hand models (nat/Z/list; coordinates over R in theorems) + vm_compute correspondence with exact integer comparison'
GEN = []
TARGETS = ['model/M_C13_Elevate.vo', 'model/M_C13_Coords.vo', 'model/M_C13_ElevMesh.vo', 'proofs/L_C13_ElevMesh.vo', 'model/M_C13_ReadFile.vo', 'proofs/L_C13_ReadFile.vo', 'proofs/L_C13_Elevate.vo', 'proofs/L_C13_Elev2.vo', 'proofs/L_C13_Elev3.vo', 'proofs/L_C13_Coords.vo', 'model/M_C13_Struct.vo', 'model/M_C13_Edges.vo', 'model/M_C13_Combine.vo', 'model/M_C13_Read.vo',
           'proofs/L_C13_Struct.vo', 'proofs/L_C13_Edges.vo', 'proofs/L_C13_Combine.vo', 'proofs/L_C13_Read.vo', 'proofs/L_C13_Top.vo',
           'model/M_C13_ReadChk.vo', 'proofs/L_C13_ReadChk.vo', 'model/M_C13_Jac.vo', 'proofs/L_C13_Jac.vo']
COQ_FILES = ['base/Num.v', 'model/M_C13_Struct.v', 'model/M_C13_Edges.v', 'model/M_C13_Combine.v', 'model/M_C13_Read.v',
             'proofs/L_C13_Struct.v', 'proofs/L_C13_Edges.v', 'proofs/L_C13_Combine.v', 'proofs/L_C13_Read.v', 'proofs/L_C13_Top.v',
             'model/M_C13_Elevate.v', 'model/M_C13_Coords.v', 'proofs/L_C13_Elevate.v', 'proofs/L_C13_Elev2.v', 'proofs/L_C13_Elev3.v', 'proofs/L_C13_Coords.v', 'model/M_C13_ElevMesh.v', 'proofs/L_C13_ElevMesh.v', 'model/M_C13_ReadFile.v', 'proofs/L_C13_ReadFile.v',
             'model/M_C13_ReadChk.v', 'proofs/L_C13_ReadChk.v', 'model/M_C13_Jac.v', 'proofs/L_C13_Jac.v', 'props/P_C13.v']
TRUSTED = ['Coq 8.16.1 kernel + vm_compute (no native_compute)',
           'hand-written models coq/model/M_C13_*.v, tied by exact comparison of connectivity, edge tables, merged meshes and reader outputs',
           'harness: exact float -> rational conversion of coordinates, SciPy Delaunay as a generator of valid triangulations',
           'stand-in for netCDF4.Dataset (the package is absent) backed by in-memory arrays or by scipy.io.netcdf_file for the real fixture files: the Exodus reader code runs unchanged on it, the netCDF4 C library does not']
ASSUMPTIONS = ['np.linspace returns strictly increasing arrays for the extents used (checked exactly on every generated case)',
               'order elevation: connectivity theorems are about the write-log model (functional array updates, last write wins); coordinate theorems are over R, the binary64 instance of the same definition is compared with the implementation (rounding of np.dot not proved)',
               'real Exodus files are read through scipy.io.netcdf_file instead of netCDF4 (classic / 64-bit-offset files only; byte order normalised to native as netCDF4 does); ReadMesh.read_json_mesh is exercised on real files written by the harness',
               'readers: the model of the repository\'s reader is read_exodus_checked (reader with the name check of ce166ed); that identification is tied by exact comparison (accept / ValueError, whole mesh, block_maps) and by the AST check names_check_structure, not proved; theorems stated with a distinct-names hypothesis are about read_exodus, the reader without the check',
               'isoparametric Jacobian: the every-point statement needs shape rows that reproduce the affine functions exactly (true of the exact solution of the Vandermonde systems when the basis spans P1 -- a hypothesis); the computed binary64 tables are covered at the quadrature points by the certificate (1e-12)',
               'numpy/jax indexing, unique and concatenate behave as modelled (tied by the correspondence, not proved)']
RULE = ('cases: structured sizes 2..7 x 2..7 with random extents; random Delaunay triangulations (6..30 points, optional hole, random cyclic '
        'rotation per element, occasionally one flipped element) through create_edges; random pairs of meshes with random block / node-set / '
        'side-set names (mostly clashing, some distinct) through combine_mesh; abstract Exodus descriptions (tri3/tri6, 1..3 blocks, named and unnamed sets) '
        'and JSON files through the readers, plus the 8 real classic-netCDF Exodus files of the repository (tests and examples); Exodus descriptions with 2..4 blocks / 0..3 node sets / 0..3 side sets whose '
        'names are drawn from {empty, the auto-generated names, one fixed name} so that final names often coincide (the reader must raise ValueError exactly then); '
        'elevation orders 2..5 with and without bubble, isoparametric Jacobian at every quadrature point of every elevated element.  Non-trivial = at least 2 elements; '
        'distinct = distinct inputs')
IMPORTS = ['From OV.model Require Import M_C13_Struct M_C13_Edges M_C13_Combine M_C13_Read M_C13_Elevate M_C13_Coords M_C13_ElevMesh M_C13_Jac.']
NAMES = ['block_0', 'left', 'right', 'top', 'bottom', 'all', 'inner', 'b1', 'b2']


def zl(l):
    return '[' + '; '.join('%d' % int(x) for x in l) + ']'


def zll(ll):
    return '[' + '; '.join(zl(l) for l in ll) + ']'


def frac(x):
    return Fraction(float(x))


def area2(a, b, c):
    return (b[0] - a[0]) * (c[1] - a[1]) - (c[0] - a[0]) * (b[1] - a[1])


# ------------------------------------------------------------------------------------------ generators
def delaunay_mesh(r, npts, hole=False, rotate=True, flip_one=False):
    import numpy as np
    from scipy.spatial import Delaunay
    pts = np.array([[r.random(), r.random()] for _ in range(npts)])
    tri = Delaunay(pts).simplices.tolist()
    tris = []
    for t in tri:
        a, b, c = (pts[i] for i in t)
        if area2(a, b, c) < 0:
            t = [t[0], t[2], t[1]]
        if abs(area2(*(pts[i] for i in t))) < 1e-9:
            continue
        cen = sum(pts[i] for i in t) / 3.0
        if hole and ((cen[0] - 0.5) ** 2 + (cen[1] - 0.5) ** 2) < 0.04:
            continue
        if rotate:
            k = r.randrange(3)
            t = t[k:] + t[:k]
        tris.append([int(i) for i in t])
    # drop unused points, renumber
    used = sorted({i for t in tris for i in t})
    ren = {o: n for n, o in enumerate(used)}
    tris = [[ren[i] for i in t] for t in tris]
    pts = pts[used]
    if flip_one and tris:
        k = r.randrange(len(tris))
        tris[k] = [tris[k][0], tris[k][2], tris[k][1]]
    if len(tris) < 2 and not hole:          # degenerate draw: try again (deterministic, same stream)
        return delaunay_mesh(r, npts + 1, hole, rotate, flip_one)
    return pts, tris


def validity(coords, conns, nverts=3, what=''):
    """exact validity predicate on a simplex mesh (vertex columns): list of violated clauses"""
    bad = []
    n = len(coords)
    used = set()
    for t, row in enumerate(conns):
        for i in row:
            if not (0 <= i < n):
                bad.append('%s element %d refers to node %d outside 0..%d' % (what, t, i, n - 1))
                return bad
            used.add(i)
    if used != set(range(n)):
        bad.append('%s nodes %s are not used by any element' % (what, sorted(set(range(n)) - used)[:5]))
    for t, row in enumerate(conns):
        a, b, c = ([frac(x) for x in coords[row[k]]] for k in range(3))
        if not area2(a, b, c) > 0:
            bad.append('%s element %d is not counter-clockwise with positive area (2A = %s)' % (what, t, float(area2(a, b, c))))
            break
    return bad


# ------------------------------------------------------------------------------------------ 1. structured generator
def part_structured(ctx, model_ok):
    import numpy as np
    from optimism import Mesh
    r = ctx.rng('struct')
    cases = []
    for _ in range(ctx.n(25, 200)):
        Nx, Ny = r.randrange(2, 8), r.randrange(2, 8)
        x0, y0 = r.uniform(-5, 5), r.uniform(-5, 5)
        ext = ([x0, x0 + 10 ** r.uniform(-3, 2)], [y0, y0 + 10 ** r.uniform(-3, 2)])
        cases.append((Nx, Ny, ext))
    cases += [(2, 2, ([0.0, 1.0], [0.0, 1.0])), (7, 2, ([0.0, 1e-3], [-1.0, 1.0]))]
    exprs = []
    impl = []
    for Nx, Ny, ext in cases:
        coords, conns = Mesh.create_structured_mesh_data(Nx, Ny, ext[0], ext[1])
        mesh = Mesh.construct_structured_mesh(Nx, Ny, ext[0], ext[1])
        coords, conns = np.asarray(coords), np.asarray(conns).tolist()
        impl.append((coords, conns, mesh))
        case = dict(part='structured', Nx=Nx, Ny=Ny, xExtent=ext[0], yExtent=ext[1])
        ctx.count('evaluations')
        # L2: the theorem's conclusion on the implementation's mesh
        bad = validity(coords.tolist(), conns, what='structured %dx%d:' % (Nx, Ny))
        if len(conns) != 2 * (Nx - 1) * (Ny - 1):
            bad.append('structured %dx%d: %d elements instead of %d' % (Nx, Ny, len(conns), 2 * (Nx - 1) * (Ny - 1)))
        blk = {k: np.asarray(v).tolist() for k, v in mesh.blocks.items()}
        if blk != {'block_0': list(range(len(conns)))}:
            bad.append('structured %dx%d: blocks %r are not block_0 = all elements' % (Nx, Ny, {k: v[:4] for k, v in blk.items()}))
        if np.asarray(mesh.simplexNodesOrdinals).tolist() != list(range(Nx * Ny)):
            bad.append('structured %dx%d: simplexNodesOrdinals is not 0..n-1' % (Nx, Ny))
        xs, ys = coords[:Nx, 0], coords[::Nx, 1]
        if not (all(xs[i] < xs[i + 1] for i in range(Nx - 1)) and all(ys[i] < ys[i + 1] for i in range(Ny - 1))):
            bad.append('structured %dx%d: coordinate arrays are not strictly increasing' % (Nx, Ny))
        for b in bad:
            ctx.fail('conclusion', b, case=case, concrete=True)
        exprs.append('map Z.of_nat (concat (struct_conns %d %d)) ++ [(-7)] ++ map Z.of_nat (struct_block0 %d %d)' % (Nx, Ny, Nx, Ny))
        exprs.append('flat_map (fun p => [fst p; snd p]) (struct_coords %d %d (fun i => Z.of_nat i) (fun j => Z.of_nat j))' % (Nx, Ny))
    ctx.count('distinct_nontrivial', len({(a, b, tuple(map(tuple, e))) for a, b, e in cases}))
    ctx.sample(dict(part='structured', Nx=cases[0][0], Ny=cases[0][1], extents=cases[0][2]))
    if not model_ok:
        return
    res = C.coq_eval(IMPORTS, exprs, 'C13s', shard=40)
    for k, (Nx, Ny, ext) in enumerate(cases):
        coords, conns, mesh = impl[k]
        got = res[2 * k]
        cut = got.index(-7)
        mconn = got[:cut]
        case = dict(part='structured', Nx=Nx, Ny=Ny, xExtent=ext[0], yExtent=ext[1])
        if mconn != [i for row in conns for i in row] or got[cut + 1:] != list(range(len(conns))):
            ctx.fail('correspondence', 'structured %dx%d: model connectivity differs from create_structured_mesh_data' % (Nx, Ny), case=case)
        # coordinates: node nx + Nx*ny carries (xs[nx], ys[ny]) -- the model lists the grid indices, compare through the linspace arrays
        idx = res[2 * k + 1]
        xs, ys = coords[:Nx, 0], coords[::Nx, 1]      # the implementation's linspace arrays (first row / first column)
        mcoords = [[float(xs[idx[2 * i]]), float(ys[idx[2 * i + 1]])] for i in range(len(idx) // 2)]
        if mcoords != coords.tolist():
            ctx.fail('correspondence', 'structured %dx%d: model coordinate ordering differs from the implementation' % (Nx, Ny), case=case)
        ctx.count('model_vs_impl_comparisons', 2)


# ------------------------------------------------------------------------------------------ 2. create_edges
def edges_concl(conns, rows, ccw=True):
    """conclusions of C13_edges_once / C13_edges_adjacency on an edge table; rows = [a,b,tl,pl,tr,pr]"""
    bad = []
    nT = len(conns)
    directed = {}
    for t, c in enumerate(conns):
        for p in range(3):
            directed.setdefault((c[p], c[(p + 1) % 3]), []).append((t, p))
    und = {tuple(sorted(k)) for k in directed}
    keys = [tuple(sorted((a, b))) for a, b, *_ in rows]
    if len(set(keys)) != len(keys):
        bad.append('an undirected edge is listed twice')
    if set(keys) != und:
        bad.append('edge set differs from the set of element sides (%d listed, %d exist)' % (len(set(keys)), len(und)))
    for a, b, tl, pl, tr, pr in rows:
        if not (0 <= tl < nT and 0 <= pl < 3 and (conns[tl][pl], conns[tl][(pl + 1) % 3]) == (a, b)):
            bad.append('left element/side (%d,%d) does not hold the directed edge (%d,%d)' % (tl, pl, a, b)); break
        if tr >= 0:
            if not (tr < nT and 0 <= pr < 3 and (conns[tr][pr], conns[tr][(pr + 1) % 3]) == (b, a)):
                bad.append('right element/side (%d,%d) does not hold the reversed edge (%d,%d)' % (tr, pr, b, a)); break
        elif (b, a) in directed or pr != -1:
            bad.append('edge (%d,%d) reported as boundary although a triangle holds the reversed pair' % (a, b)); break
    return bad


def part_edges(ctx, model_ok):
    import numpy as np
    from optimism import Mesh
    r = ctx.rng('edges')
    cases = []
    for i in range(ctx.n(25, 250)):
        pts, tris = delaunay_mesh(r, r.randrange(5, 30), hole=r.random() < 0.3, rotate=True, flip_one=(i % 8 == 7))
        if tris:
            cases.append((pts, tris, i % 8 == 7))
    cases.append((None, np.asarray(Mesh.create_structured_mesh_data(3, 2, [0., 1.], [0., 1.])[1]).tolist(), False))
    cases.append((None, [[0, 1, 2]], False))
    exprs, impl = [], []
    for pts, tris, flipped in cases:
        ec, ed = Mesh.create_edges(np.array(tris, dtype=np.int64))
        rows = [[int(a), int(b)] + [int(x) for x in e] for (a, b), e in zip(np.asarray(ec).tolist(), np.asarray(ed).tolist())]
        impl.append(rows)
        ctx.count('evaluations')
        for b in edges_concl(tris, rows):
            ctx.fail('conclusion', 'create_edges on a triangulation with %d elements: %s' % (len(tris), b),
                     case=dict(part='edges', conns=tris), concrete=True)
        exprs.append('enc_edges %s' % zll(tris))
    ctx.count('distinct_nontrivial', len({json.dumps(t) for _, t, _ in cases if len(t) >= 2}))
    ctx.sample(dict(part='edges', conns=cases[0][1][:6], first_rows=impl[0][:3]))
    if not model_ok:
        return
    res = C.coq_eval(IMPORTS, exprs, 'C13e', shard=40)
    for (pts, tris, flipped), rows, got in zip(cases, impl, res):
        mrows = [got[i:i + 6] for i in range(0, len(got), 6)]
        if mrows != rows:
            d = next((i for i, (a, b) in enumerate(zip(mrows, rows)) if a != b), min(len(mrows), len(rows)))
            ctx.fail('correspondence', 'create_edges: model row %d = %r but the implementation gives %r (%d vs %d rows)'
                     % (d, mrows[d] if d < len(mrows) else None, rows[d] if d < len(rows) else None, len(mrows), len(rows)),
                     case=dict(part='edges', conns=tris))
        ctx.count('model_vs_impl_comparisons')


# ------------------------------------------------------------------------------------------ 3. combine_mesh
def rand_mesh_with_sets(r, clash_pool):
    import numpy as np
    if r.random() < 0.5:
        from optimism import Mesh
        Nx, Ny = r.randrange(2, 5), r.randrange(2, 5)
        coords, conns = Mesh.create_structured_mesh_data(Nx, Ny, [0., 1.], [0., 1.])
        coords, conns = np.asarray(coords), np.asarray(conns).tolist()
    else:
        coords, conns = delaunay_mesh(r, r.randrange(4, 12))
    nE, nN = len(conns), len(coords)
    names = r.sample(clash_pool, r.randrange(1, 3))
    elems = list(range(nE))
    r.shuffle(elems)
    cut = sorted(r.sample(range(nE + 1), len(names) - 1)) if nE >= len(names) - 1 else [0] * (len(names) - 1)
    parts = [elems[a:b] for a, b in zip([0] + cut, cut + [nE])]
    blocks = {n: sorted(p) for n, p in zip(names, parts)}
    ns = None if r.random() < 0.3 else {n: sorted(r.sample(range(nN), r.randrange(0, min(4, nN) + 1))) for n in r.sample(clash_pool, r.randrange(0, 3))}
    ss = None if r.random() < 0.3 else {n: [[r.randrange(nE), r.randrange(3)] for _ in range(r.randrange(0, 4))] for n in r.sample(clash_pool, r.randrange(0, 3))}
    return dict(coords=coords.tolist(), conns=conns, blocks=blocks, nodeSets=ns, sideSets=ss)


def build_mesh(d):
    import jax.numpy as jnp
    import numpy as np
    from optimism import Mesh
    blocks = {k: jnp.array(v, dtype=jnp.int64) for k, v in d['blocks'].items()}
    ns = None if d['nodeSets'] is None else {k: jnp.array(v, dtype=jnp.int64) for k, v in d['nodeSets'].items()}
    ss = None if d['sideSets'] is None else {k: jnp.array(v, dtype=jnp.int64).reshape(-1, 2) for k, v in d['sideSets'].items()}
    return Mesh.construct_mesh_from_basic_data(jnp.array(d['coords']), jnp.array(d['conns'], dtype=jnp.int64), blocks, ns, ss)


def nid(name):
    if name not in NAMES:
        NAMES.append(name)
    return NAMES.index(name)


def cmesh_term(d):
    blocks = '[' + '; '.join('(%d, %s)' % (nid(k), zl(v)) for k, v in d['blocks'].items()) + ']'
    ns = 'None' if d['nodeSets'] is None else '(Some [' + '; '.join('(%d, %s)' % (nid(k), zl(v)) for k, v in d['nodeSets'].items()) + '])'
    ss = 'None' if d['sideSets'] is None else '(Some [' + '; '.join(
        '(%d, [%s])' % (nid(k), '; '.join('(%d, %d)' % (e, s) for e, s in v)) for k, v in d['sideSets'].items()) + '])'
    return '(mk_cmesh %d %s %s %s %s)' % (len(d['coords']), zll(d['conns']), blocks, ns, ss)


def enc_impl_mesh(m):
    import numpy as np
    out = [int(m.coords.shape[0]), int(m.conns.shape[0])] + [int(i) for i in np.asarray(m.conns).ravel()]
    out += [len(m.blocks)]
    for k, v in m.blocks.items():
        v = np.asarray(v).ravel().tolist()
        out += [nid(k), len(v)] + [int(x) for x in v]
    if m.nodeSets is None:
        out += [-1]
    else:
        out += [len(m.nodeSets)]
        for k, v in m.nodeSets.items():
            v = np.asarray(v).ravel().tolist()
            out += [nid(k), len(v)] + [int(x) for x in v]
    if m.sideSets is None:
        out += [-1]
    else:
        out += [len(m.sideSets)]
        for k, v in m.sideSets.items():
            v = np.asarray(v).reshape(-1, 2).tolist()
            out += [nid(k), len(v)] + [int(x) for row in v for x in row]
    return out


def combine_concl(d1, d2, m):
    """-> list of (clause, text, extra)"""
    import numpy as np
    bad = []
    n1, e1 = len(d1['coords']), len(d1['conns'])
    n2, e2 = len(d2['coords']), len(d2['conns'])
    conns = np.asarray(m.conns).tolist()
    if len(conns) != e1 + e2 or int(m.coords.shape[0]) != n1 + n2:
        bad.append(('counts', 'element/node counts do not add up', {}))
    if conns != d1['conns'] + [[i + n1 for i in row] for row in d2['conns']]:
        bad.append(('offsets', 'merged connectivity is not conns1 ++ (conns2 + n1)', {}))
    bad += [('valid', b, {}) for b in validity(np.asarray(m.coords).tolist(), conns, what='merged mesh:')]
    if np.asarray(m.simplexNodesOrdinals).tolist() != list(range(n1 + n2)):
        bad.append(('simplex', 'simplexNodesOrdinals of the merged mesh is not 0..n1+n2-1 (every node of a linear mesh is a vertex)', {}))
    if np.asarray(m.coords).tolist() != [list(x) for x in d1['coords']] + [list(x) for x in d2['coords']]:
        bad.append(('coords', 'merged coordinates are not coords1 ++ coords2', {}))

    def lost(kind, s1, s2, got, sh):
        if s1 is None and s2 is None:
            return
        got = {k: [tuple(x) if isinstance(x, list) else x for x in np.asarray(v).tolist()] for k, v in (got or {}).items()}
        for src, off, which in ((s1 or {}, None, 1), (s2 or {}, sh, 2)):
            for k, v in src.items():
                want = [x if off is None else off(x) for x in v]
                want = [tuple(x) if isinstance(x, list) else x for x in want]
                have = got.get(k, [])
                miss = [x for x in want if x not in have]
                if miss:
                    clash = k in (s1 or {}) and k in (s2 or {})
                    bad.append(('lost', '%s %r: %d of %d members of mesh %d are missing from the merged mesh' % (kind, k, len(miss), len(want), which),
                                dict(kind=kind, name=k, name_in_both=clash, from_mesh=which,
                                     merged_equals_second_only=(have == [tuple(x) if isinstance(x, list) else x for x in
                                                                         [sh(y) for y in (s2 or {}).get(k, [])]]))))
        top = e1 + e2 if kind != 'node set' else n1 + n2
        for k, v in got.items():
            for x in v:
                e = x[0] if isinstance(x, tuple) else x
                if not 0 <= e < top:
                    bad.append(('range', '%s %r has member %r outside the merged mesh' % (kind, k, x), {}))
                    return
    lost('block', d1['blocks'], d2['blocks'], m.blocks, lambda e: e + e1)
    lost('node set', d1['nodeSets'], d2['nodeSets'], m.nodeSets, lambda n: n + n1)
    lost('side set', d1['sideSets'], d2['sideSets'], m.sideSets, lambda es: [es[0] + e1, es[1]])
    return bad


def run_combine(ctx, pairs, model_ok, tag):
    import numpy as np
    from optimism import Mesh
    exprs, impl = [], []
    for d1, d2 in pairs:
        m1, m2 = build_mesh(d1), build_mesh(d2)
        m, disp = Mesh.combine_mesh((m1, np.zeros((len(d1['coords']), 2))), (m2, np.ones((len(d2['coords']), 2))))
        impl.append(m)
        ctx.count('evaluations')
        case = dict(part='combine', mesh1=d1, mesh2=d2)
        if int(np.asarray(disp).shape[0]) != len(d1['coords']) + len(d2['coords']):
            ctx.fail('conclusion', 'combine_mesh: displacement field length differs from the node count', case=case, concrete=True)
        for clause, text, extra in combine_concl(d1, d2, m):
            ctx.fail('conclusion', 'combine_mesh: ' + text, case=dict(case, clause=clause, **extra), concrete=True)
        exprs.append('enc_cmesh (combine_mesh %s %s)' % (cmesh_term(d1), cmesh_term(d2)))
    # histories: the SAME first mesh object is merged again with another mesh (a body combined with several counterparts);
    # merging must be a pure function of its inputs: the inputs and earlier results stay as they were, and the second
    # result satisfies the same conclusions
    plist = list(pairs)
    for i in range(0, len(plist), 3):
        d1, d2 = plist[i]
        d3 = plist[(i + 1) % len(plist)][1]
        m1, m2, m3 = build_mesh(d1), build_mesh(d2), build_mesh(d3)
        before1 = enc_impl_mesh(m1)
        mA, _ = Mesh.combine_mesh((m1, np.zeros((len(d1['coords']), 2))), (m2, np.ones((len(d2['coords']), 2))))
        encA = enc_impl_mesh(mA)
        mB, _ = Mesh.combine_mesh((m1, np.zeros((len(d1['coords']), 2))), (m3, np.ones((len(d3['coords']), 2))))
        ctx.count('evaluations')
        ctx.count('combine_histories')
        case = dict(part='combine', history='merge(m1,m2) then merge(m1,m3) with the same m1 object', mesh1=d1, mesh2=d2, mesh3=d3)
        if enc_impl_mesh(m1) != before1:
            ctx.fail('conclusion', 'combine_mesh: merging changed its first input mesh (its sets/blocks differ after the call)', case=case, concrete=True)
        if enc_impl_mesh(mA) != encA:
            ctx.fail('conclusion', 'combine_mesh: an earlier merged mesh changed when its first input was merged again', case=case, concrete=True)
        for clause, text, extra in combine_concl(d1, d3, mB):
            ctx.fail('conclusion', 'combine_mesh (second merge re-using the first mesh): ' + text, case=dict(case, clause=clause, **extra), concrete=True)
        got = {k: len(np.asarray(v).ravel()) for k, v in mB.blocks.items()}
        want = {}
        for dd in (d1, d3):
            for k, v in dd['blocks'].items():
                want[k] = want.get(k, 0) + len(v)
        if got != want:
            ctx.fail('conclusion', 'combine_mesh (second merge re-using the first mesh): block sizes %r, expected %r' % (got, want), case=case, concrete=True)
    if not model_ok:
        return
    res = C.coq_eval(IMPORTS, exprs, 'C13c' + tag, shard=40)
    for (d1, d2), m, got in zip(pairs, impl, res):
        want = enc_impl_mesh(m)
        if got != want:
            d = next((i for i, (a, b) in enumerate(zip(got, want)) if a != b), min(len(got), len(want)))
            ctx.fail('correspondence', 'combine_mesh: model and implementation differ at encoded position %d (%r vs %r)'
                     % (d, got[d:d + 6], want[d:d + 6]), case=dict(part='combine', mesh1=d1, mesh2=d2))
        ctx.count('model_vs_impl_comparisons')


def part_combine(ctx, model_ok):
    r = ctx.rng('combine')
    pairs = []
    for i in range(ctx.n(24, 200)):
        pool1 = pool2 = NAMES[:5]      # equal names in both meshes are frequent
        if i % 4 == 3:
            pool1, pool2 = NAMES[:4], NAMES[4:9]
        pairs.append((rand_mesh_with_sets(r, pool1), rand_mesh_with_sets(r, pool2)))
    pairs.append(F8_WITNESS)
    run_combine(ctx, pairs, model_ok, 'm')
    ctx.count('distinct_nontrivial', len(pairs))
    ctx.sample(dict(part='combine', blocks1=pairs[0][0]['blocks'], blocks2=pairs[0][1]['blocks']))


def _struct_dict(Nx, Ny):
    import numpy as np
    from optimism import Mesh
    coords, conns = Mesh.create_structured_mesh_data(Nx, Ny, [0., 1.], [0., 1.])
    return dict(coords=np.asarray(coords).tolist(), conns=np.asarray(conns).tolist(),
                blocks={'block_0': list(range(2 * (Nx - 1) * (Ny - 1)))}, nodeSets=None, sideSets=None)


class _Lazy:
    def __iter__(self):
        return iter((_struct_dict(3, 3), _struct_dict(3, 3)))


F8_WITNESS = _Lazy()


# ------------------------------------------------------------------------------------------ 4. readers
class _Dim:
    def __init__(self, n):
        self.n = n

    def __len__(self):
        return self.n


class _Var:
    def __init__(self, data, **attrs):
        import numpy as np
        self.data = data
        self.shape = np.asarray(data).shape if not isinstance(data, list) else (len(data),)
        for k, v in attrs.items():
            setattr(self, k, v)

    def set_auto_mask(self, flag):
        pass

    def __getitem__(self, key):
        import numpy as np
        d = self.data[key] if not isinstance(self.data, list) else self.data[key]
        if hasattr(d, 'copy') and not isinstance(d, list):
            d = d.copy()            # netCDF4 hands out a fresh array on every read (never a view of the file data)
        if getattr(self, 'masked', False):
            return np.ma.masked_array(d)
        return d


class _Dataset:
    store = {}

    def __init__(self, name, *a, **k):
        if name in _Dataset.store:
            self.dimensions, self.variables = _Dataset.store[name]
        else:
            self.dimensions, self.variables = load_netcdf3(str(name))

    def __enter__(self):
        return self

    def __exit__(self, *a):
        return False

    def __getitem__(self, key):
        return self.variables[key]


def load_netcdf3(path):
    """a REAL classic / 64-bit-offset netCDF file (Exodus II as written by most mesh generators) -> (dimensions, variables) of the
    stand-in Dataset, through scipy.io.netcdf_file (netCDF4 / HDF5-based files cannot be read here)"""
    import numpy as np
    import scipy.io
    f = scipy.io.netcdf_file(path, 'r', mmap=False)
    dims = {k: _Dim(int(v) if v is not None else 0) for k, v in f.dimensions.items()}
    var = {}
    for k, v in f.variables.items():
        attrs = {a: (b.decode() if isinstance(b, bytes) else b) for a, b in v._attributes.items()}
        attrs.pop('masked', None)
        data = np.array(v.data)
        if data.dtype.byteorder == '>':          # netCDF-3 stores big-endian; the netCDF4 library hands out native-endian arrays
            data = data.astype(data.dtype.newbyteorder('='))
        var[k] = _Var(data.copy(), masked=k.startswith('coord'), **attrs)
    f.close()
    return dims, var


REAL_EXODUS = ['optimism/test/patch_2_blocks.exo', 'optimism/test/patch_2_blocks.g', 'optimism/test/read_material_property_test.exo',
               'examples/hemisphere_cap/hemisphere_axisym.g', 'examples/hemisphere_cap/hemi_fine.g',
               'examples/tension_axisymmetric/CylindricalNotchTensionBar_R_1mm.g',
               'examples/tension_axisymmetric/CylindricalSmoothBar_R_3_175mm_M2_b.g', 'examples/hole_array/hole_array.exo']


def real_exodus_desc(path):
    """abstract description of a real file, read INDEPENDENTLY of the reader under test (0-based, like exodus_case)"""
    import numpy as np
    dims, var = load_netcdf3(path)

    def names(key, n):
        rec = var[key].data if key in var else []
        out = [b''.join(bytes(c) for c in row).split(b'\x00')[0].decode() for row in rec]
        return (out + [''] * n)[:n]
    nb = len(dims['num_el_blk'])
    blocks = [(np.asarray(var['connect%d' % (i + 1)].data) - 1).tolist() for i in range(nb)]
    nns = len(dims['num_node_sets']) if 'num_node_sets' in dims else 0
    nss = len(dims['num_side_sets']) if 'num_side_sets' in dims else 0
    nodesets = [(np.asarray(var['node_ns%d' % (i + 1)].data) - 1).tolist() for i in range(nns)]
    sidesets = [list(zip((np.asarray(var['elem_ss%d' % (i + 1)].data) - 1).tolist(), (np.asarray(var['side_ss%d' % (i + 1)].data) - 1).tolist())) for i in range(nss)]
    coords = np.column_stack([np.asarray(var['coordx'].data), np.asarray(var['coordy'].data)]).tolist()
    six = len(blocks[0][0]) == 6
    emap = np.asarray(var['elem_num_map'].data).tolist() if 'elem_num_map' in var else None
    return dict(six=six, coords=coords, blocks=blocks, bnames=names('eb_names', nb), nodesets=nodesets, nsnames=names('ns_names', nns),
                sidesets=sidesets, ssnames=names('ss_names', nss), emap=emap, file=path)


class NameIds:
    """names <-> ids of the reader model: the empty name is 0"""
    def __init__(self):
        self.tab = []

    def id(self, name):
        if name == '':
            return 0
        if name not in self.tab:
            self.tab.append(name)
        return 1 + self.tab.index(name)


def exo_expr(desc, ids):
    """Coq term: the whole-file model of the repository's reader (read_exodus_checked: since ce166ed the reader raises ValueError on equal
    final names; [-9] encodes the rejection) on the abstract description (1-based, as in the file)"""
    return 'enc_checked (read_exodus_checked %s)' % exo_args(desc, ids)


def exo_args(desc, ids):
    """the arguments `six autoB autoN autoS file` of read_exodus / read_exodus_checked / enc_block_maps for an abstract description"""
    one = lambda l: zl([i + 1 for i in l])
    blocks1 = '[' + '; '.join('[' + '; '.join(one(row) for row in b) + ']' for b in desc['blocks']) + ']'
    ns1 = '[' + '; '.join(one(s_) for s_ in desc['nodesets']) + ']'
    ss1 = '[' + '; '.join('(%s, %s)' % (one([e for e, _ in s_]), one([q for _, q in s_])) for s_ in desc['sidesets']) + ']'
    auto = lambda pre, n: zl([ids.id(pre + str(i + 1)) for i in range(n)])
    return ('%s (auto_of %s) (auto_of %s) (auto_of %s) (mk_exo %d %s %s %s %s %s %s)'
            % ('true' if desc['six'] else 'false', auto('block_', len(desc['blocks'])), auto('nodeset_', len(desc['nodesets'])),
               auto('sideset_', len(desc['sidesets'])), len(desc['coords']), blocks1, zl([ids.id(n) for n in desc['bnames']]),
               ns1, zl([ids.id(n) for n in desc['nsnames']]), ss1, zl([ids.id(n) for n in desc['ssnames']])))


def enc_read_mesh(mesh, ids):
    """the implementation's mesh in the encoding of enc_rmesh (simplexNodesOrdinals last)"""
    import numpy as np
    conns = np.asarray(mesh.conns)
    out = [int(conns.shape[0])] + [int(i) for i in conns.ravel()] + [-7]
    for d, two in ((mesh.blocks, False), (mesh.nodeSets, False), (mesh.sideSets, True)):
        out.append(len(d))
        for k, v in d.items():
            v = np.asarray(v)
            out += [ids.id(k), int(v.shape[0])] + [int(x) for x in v.ravel()]
        out.append(-7)
    return out, sorted(int(x) for x in np.asarray(mesh.simplexNodesOrdinals).tolist())


def exodus_no_loss(desc, mesh):
    """conclusions of C13_read_exodus_elements / _blocks / _nodesets / _sidesets on the implementation's mesh"""
    import numpy as np
    bad = []
    conns = np.asarray(mesh.conns).tolist()
    flat = [row for b in desc['blocks'] for row in b]
    n_, nE = len(desc['coords']), len(flat)
    perm = [0, 3, 1, 5, 4, 2]
    want = [[row[p_] for p_ in perm] for row in flat] if desc['six'] else flat
    if len(conns) != nE:
        bad.append('%d elements in the mesh, %d rows in the file (an element was lost)' % (len(conns), nE))
    elif conns != want:
        bad.append('connectivity is not the stacked file rows minus one%s' % (' in native 6-node order' if desc['six'] else ''))
    if any(not 0 <= i < n_ for row in conns for i in row):
        bad.append('connectivity refers to a node outside 0..%d' % (n_ - 1))
    final = lambda names, pre: [nm if nm else pre + str(i + 1) for i, nm in enumerate(names)]
    for kind, got, names, pre, vals, top in (('block', mesh.blocks, desc['bnames'], 'block_', None, nE),
                                             ('node set', mesh.nodeSets, desc['nsnames'], 'nodeset_', desc['nodesets'], n_),
                                             ('side set', mesh.sideSets, desc['ssnames'], 'sideset_', [[list(p_) for p_ in s_] for s_ in desc['sidesets']], nE)):
        fn = final(names, pre)
        if len(set(fn)) != len(fn):
            continue        # equal final names: outside the theorems' hypothesis (C13_read_exodus_name_clash_refuted)
        if list(got.keys()) != fn:
            bad.append('%s names %r differ from the file (expected %r)' % (kind, list(got.keys()), fn)); continue
        if kind == 'block':
            first = 0
            for b, k in zip(desc['blocks'], fn):
                if np.asarray(got[k]).tolist() != list(range(first, first + len(b))):
                    bad.append('block %r is not the range of its rows in the stacked table' % k); break
                first += len(b)
        else:
            for v, k in zip(vals, fn):
                g = np.asarray(got[k]).tolist()
                if g != v:
                    bad.append('%s %r: members differ from the file record minus one (%d in the file, %d read)' % (kind, k, len(v), len(g))); break
                ids_ = [x[0] if kind == 'side set' else x for x in g]
                if any(not 0 <= e < top for e in ids_) or (kind == 'side set' and any(not 0 <= x[1] < 3 for x in g)):
                    bad.append('%s %r has a member out of range' % (kind, k)); break
    return bad


def exodus_name_clash_witness():
    """C13_read_exodus_name_clash_refuted replayed on the implementation: a 3-node file with two one-element blocks, the first NAMED
    'block_2' (the auto-generated name of the second), the second unnamed"""
    import numpy as np
    if not install_fake_netcdf():
        return None
    from optimism import ReadExodusMesh
    dims = {'num_nodes': _Dim(4), 'num_dim': _Dim(2), 'num_el_blk': _Dim(2), 'num_nod_per_el1': _Dim(3), 'num_nod_per_el2': _Dim(3),
            'num_el_in_blk1': _Dim(1), 'num_el_in_blk2': _Dim(1)}
    var = {'coordx': _Var(np.array([0., 1., 1., 0.]), masked=True), 'coordy': _Var(np.array([0., 0., 1., 1.]), masked=True),
           'eb_names': _Var(names_record(['block_2', ''])),
           'connect1': _Var(np.array([[1, 2, 3]], dtype=np.int32), elem_type='TRI3'), 'connect2': _Var(np.array([[1, 3, 4]], dtype=np.int32), elem_type='TRI3'),
           'elem_num_map': _Var(np.array([10, 20], dtype=np.int32))}
    _Dataset.store['c13_name_clash'] = (dims, var)
    try:
        mesh = ReadExodusMesh.read_exodus_mesh('c13_name_clash')
    except ValueError as ex:
        return dict(rejected=str(ex)[:200])
    return dict(elements=int(np.asarray(mesh.conns).shape[0]), blocks={k: np.asarray(v).tolist() for k, v in mesh.blocks.items()},
                block_maps={k: np.asarray(v).tolist() for k, v in (getattr(mesh, 'block_maps', None) or {}).items()})


def install_fake_netcdf():
    if 'netCDF4' not in sys.modules:
        mod = types.ModuleType('netCDF4')
        mod.Dataset = _Dataset
        mod.__verif_fake__ = True
        sys.modules['netCDF4'] = mod
    return getattr(sys.modules['netCDF4'], '__verif_fake__', False)


def names_record(names, width=8):
    return [[bytes([c]) for c in n.encode()] + [b''] * (width - len(n)) for n in names]


def clashy_names(r, n, pre):
    """names prone to coincide with each other and with the auto-generated names pre<i+1>"""
    pool = [pre + str(i + 1) for i in range(n)] + ['A']
    return [('' if r.random() < 0.55 else r.choice(pool + ['u%d' % i])) for i in range(n)]


def enc_block_maps_impl(mesh, ids):
    import numpy as np
    bm = getattr(mesh, 'block_maps', None) or {}
    out = [len(bm)]
    for k, v in bm.items():
        v = np.asarray(v)
        out += [ids.id(k), int(v.shape[0])] + [int(x) for x in v.ravel()]
    return out


def names_check_structure():
    """structural tie of the repair ce166ed (fail-closed): in optimism/ReadExodusMesh.py each of _read_blocks / _read_node_sets /
    _read_side_sets contains the auto-naming loop `for i, name in enumerate(NAMES): if not name: NAMES[i] = ...` and, AFTER it in the same
    statement list and BEFORE anything else uses NAMES (the dict insertion), the statement `_check_names_are_distinct(NAMES, ...)`;
    and _check_names_are_distinct raises under a test comparing len(set(names)) with len(names).  -> list of defects (empty = ok)"""
    src = open(os.path.join(C.REPO, 'optimism', 'ReadExodusMesh.py')).read()
    tree = ast.parse(src)
    funcs = {n.name: n for n in tree.body if isinstance(n, ast.FunctionDef)}
    bad = []

    def uses(node, name):
        return any(isinstance(x, ast.Name) and x.id == name for x in ast.walk(node))

    def scan(stmts, fname):
        """first auto-naming loop found in any statement list of the function: (list, index, NAMES)"""
        for k, st in enumerate(stmts):
            if isinstance(st, ast.For) and isinstance(st.iter, ast.Call) and getattr(st.iter.func, 'id', '') == 'enumerate' and st.iter.args \
                    and isinstance(st.iter.args[0], ast.Name) and any(isinstance(x, ast.Assign) and isinstance(x.targets[0], ast.Subscript)
                                                                      and getattr(x.targets[0].value, 'id', None) == st.iter.args[0].id for x in ast.walk(st)):
                return stmts, k, st.iter.args[0].id
            for sub in ('body', 'orelse'):
                inner = getattr(st, sub, None)
                if isinstance(inner, list) and inner and not isinstance(st, ast.For):
                    found = scan(inner, fname)
                    if found:
                        return found
        return None
    for fname in ('_read_blocks', '_read_node_sets', '_read_side_sets'):
        fn = funcs.get(fname)
        if fn is None:
            bad.append('%s is missing' % fname); continue
        found = scan(fn.body, fname)
        if not found:
            bad.append('%s: the auto-naming loop was not found' % fname); continue
        stmts, k, names = found
        ok = False
        for st in stmts[k + 1:]:
            if isinstance(st, ast.Expr) and isinstance(st.value, ast.Call) and getattr(st.value.func, 'id', '') == '_check_names_are_distinct' \
                    and st.value.args and getattr(st.value.args[0], 'id', None) == names:
                ok = True
                break
            if uses(st, names):
                break            # the names are used (dict insertion) before they were checked
        if not ok:
            bad.append('%s: _check_names_are_distinct(%s, ...) is not called between the auto-naming loop and the first use of %s' % (fname, names, names))
    chk = funcs.get('_check_names_are_distinct')
    if chk is None:
        bad.append('_check_names_are_distinct is missing')
    else:
        arg = chk.args.args[0].arg if chk.args.args else None
        good = False
        for st in chk.body:
            if isinstance(st, ast.If) and any(isinstance(x, ast.Raise) for x in st.body) and isinstance(st.test, ast.Compare) \
                    and len(st.test.ops) == 1 and isinstance(st.test.ops[0], ast.NotEq):
                sides = [ast.dump(st.test.left), ast.dump(st.test.comparators[0])]
                want = [ast.dump(ast.parse('len(set(%s))' % arg, mode='eval').body), ast.dump(ast.parse('len(%s)' % arg, mode='eval').body)]
                good = sorted(sides) == sorted(want)
        if not good:
            bad.append('_check_names_are_distinct does not raise under `len(set(names)) != len(names)`')
    return bad


def clash_verdict(desc, mesh):
    """for every kind of record with EQUAL final names: is what the reader returned exactly the Python-dict overwrite (keys = distinct final
    names in order of first occurrence, value = the LAST record carrying that name)?  -> list of (kind, final names, keys, explained)"""
    import numpy as np
    out = []
    final = lambda names, pre: [nm if nm else pre + str(i + 1) for i, nm in enumerate(names)]
    first, ranges = 0, []
    for b in desc['blocks']:
        ranges.append(list(range(first, first + len(b))))
        first += len(b)
    for kind, got, names, pre, vals in (('block', mesh.blocks, desc['bnames'], 'block_', ranges),
                                        ('node set', mesh.nodeSets, desc['nsnames'], 'nodeset_', desc['nodesets']),
                                        ('side set', mesh.sideSets, desc['ssnames'], 'sideset_', [[list(p_) for p_ in s_] for s_ in desc['sidesets']])):
        fn = final(names, pre)
        if len(set(fn)) == len(fn):
            continue
        keys = list(got.keys())
        distinct = list(dict.fromkeys(fn))
        last = {k: v for k, v in zip(fn, vals)}
        explained = keys == distinct and all(np.asarray(got[k]).tolist() == last[k] for k in keys)
        out.append((kind, fn, keys, explained))
    return out


def exodus_case(r, clash=False):
    """abstract Exodus description -> (dims, vars, desc)"""
    import numpy as np
    six = r.random() < 0.5
    pts, tris = delaunay_mesh(r, r.randrange(5, 14), rotate=True)
    coords = pts.tolist()
    rows = [list(t) for t in tris]
    if six:   # add mid-side nodes: Exodus order v0 v1 v2 m01 m12 m20
        mids = {}
        for t in rows:
            for p in range(3):
                k = tuple(sorted((t[p], t[(p + 1) % 3])))
                if k not in mids:
                    mids[k] = len(coords)
                    coords.append([(coords[k[0]][0] + coords[k[1]][0]) / 2, (coords[k[0]][1] + coords[k[1]][1]) / 2])
        rows = [t + [mids[tuple(sorted((t[p], t[(p + 1) % 3])))] for p in range(3)] for t in rows]
    nb = min(r.randrange(2, 5) if clash else r.randrange(1, 4), len(rows))
    cut = sorted(r.sample(range(1, len(rows)), nb - 1)) if nb > 1 else []
    blocks = [rows[a:b] for a, b in zip([0] + cut, cut + [len(rows)])]
    bnames = clashy_names(r, nb, 'block_') if clash else [r.choice(['', 'blk%d' % i]) for i in range(nb)]
    nns = r.randrange(0, 4) if clash else r.randrange(0, 3)
    nodesets = [r.sample(range(len(coords)), r.randrange(1, 6)) for _ in range(nns)]      # file order, NOT sorted (real files list nodes along a curve)
    nsnames = clashy_names(r, nns, 'nodeset_') if clash else [r.choice(['', 'ns%d' % i]) for i in range(nns)]
    nss = r.randrange(0, 4) if clash else r.randrange(0, 3)
    sidesets = [[(r.randrange(len(rows)), r.randrange(3)) for _ in range(r.randrange(1, 4))] for _ in range(nss)]
    ssnames = clashy_names(r, nss, 'sideset_') if clash else [r.choice(['', 'ss%d' % i]) for i in range(nss)]
    width = 12 if clash else 8
    names_record_ = lambda names: names_record(names, width)
    dims = {'num_nodes': _Dim(len(coords)), 'num_dim': _Dim(2), 'num_el_blk': _Dim(nb)}
    var = {'coordx': _Var(np.array([c[0] for c in coords]), masked=True), 'coordy': _Var(np.array([c[1] for c in coords]), masked=True),
           'eb_names': _Var(names_record_(bnames))}
    etype = 'TRI6' if six else r.choice(['TRI3', 'tri', 'TRI'])
    for i, b in enumerate(blocks):
        dims['num_nod_per_el%d' % (i + 1)] = _Dim(6 if six else 3)
        dims['num_el_in_blk%d' % (i + 1)] = _Dim(len(b))
        var['connect%d' % (i + 1)] = _Var(np.array(b, dtype=np.int32) + 1, elem_type=etype)
    if nns:
        dims['num_node_sets'] = _Dim(nns)
        var['ns_names'] = _Var(names_record_(nsnames))
        for i, s in enumerate(nodesets):
            var['node_ns%d' % (i + 1)] = _Var(np.array(s, dtype=np.int32) + 1)
    if nss:
        dims['num_side_sets'] = _Dim(nss)
        var['ss_names'] = _Var(names_record_(ssnames))
        for i, s in enumerate(sidesets):
            var['elem_ss%d' % (i + 1)] = _Var(np.array([e for e, _ in s], dtype=np.int32) + 1)
            var['side_ss%d' % (i + 1)] = _Var(np.array([p for _, p in s], dtype=np.int32) + 1)
    emap = None
    if r.random() < 0.5:
        emap = r.sample(range(1, 10 * len(rows) + 1), len(rows))       # global element numbers (1-based, arbitrary)
        var['elem_num_map'] = _Var(np.array(emap, dtype=np.int32))
    desc = dict(six=six, coords=coords, blocks=blocks, bnames=bnames, nodesets=nodesets, nsnames=nsnames, sidesets=sidesets, ssnames=ssnames, emap=emap)
    return dims, var, desc


def part_readers(ctx, model_ok):
    import numpy as np
    from optimism import Interpolants, ReadMesh
    r = ctx.rng('read')
    # (a) literal table and native layout
    src = open(os.path.join(C.REPO, 'optimism', 'ReadExodusMesh.py')).read()
    perm = None
    for node in ast.walk(ast.parse(src)):
        if isinstance(node, ast.Assign) and getattr(node.targets[0], 'id', '') == 'exodusToNativeTri6NodeOrder':
            perm = [int(e.value) for e in node.value.args[0].elts]
    el = Interpolants.make_parent_element_2d(2)
    native = dict(vertex=np.asarray(el.vertexNodes).tolist(), faces=np.asarray(el.faceNodes).tolist(),
                  coords=np.asarray(el.coordinates).tolist())
    ctx.count('evaluations')
    # geometric meaning of the permutation on the native reference element: vertices at face ends, mid-side nodes at midpoints
    ok_geo = True
    for f in native['faces']:
        a, m, b = (native['coords'][i] for i in f)
        ok_geo &= abs(m[0] - (a[0] + b[0]) / 2) < 1e-14 and abs(m[1] - (a[1] + b[1]) / 2) < 1e-14
    if not ok_geo:
        ctx.fail('conclusion', 'native quadratic element: face node 1 is not the mid-point of its face', case=dict(part='native'), concrete=True)
    exprs = ['map Z.of_nat exo2native', 'map Z.of_nat native_vertex', 'map Z.of_nat (concat native_faces)']
    # (b) Exodus reader on an in-memory dataset
    fake = install_fake_netcdf()
    cases, wexprs, wcases = [], [], []
    bexprs, bcases, kexprs, kcases, cexprs_, ccases = [], [], [], [], [], []
    if fake:
        from optimism import ReadExodusMesh
        for i in range(ctx.n(15, 120)):
            dims, var, desc = exodus_case(r)
            key = 'mem%d' % i
            _Dataset.store[key] = (dims, var)
            mesh = ReadExodusMesh.read_exodus_mesh(key)
            cases.append((desc, mesh))
            ctx.count('evaluations')
            case = dict(part='exodus', desc=desc)
            conns = np.asarray(mesh.conns).tolist()
            flat = [row for b in desc['blocks'] for row in b]
            vcols = np.asarray(mesh.parentElement.vertexNodes).tolist()
            bad = validity(np.asarray(mesh.coords).tolist(), [[row[c] for c in vcols] for row in conns], what='exodus mesh:') if not desc['six'] else []
            if np.asarray(mesh.coords).tolist() != desc['coords']:
                bad.append('coordinates differ from the file')
            # names: given names are kept, unnamed entities get block_<i+1> / nodeset_<i+1> / sideset_<i+1> (1-based, as in the file)
            for kind, got, names, auto in (('block', mesh.blocks, desc['bnames'], 'block_'), ('node set', mesh.nodeSets, desc['nsnames'], 'nodeset_'),
                                           ('side set', mesh.sideSets, desc['ssnames'], 'sideset_')):
                want = [nm if nm else auto + str(i + 1) for i, nm in enumerate(names)]
                if list(got.keys()) != want:
                    bad.append('%s names %r differ from the file (expected %r)' % (kind, list(got.keys()), want))
            if desc['six']:
                n_ = len(desc['coords'])
                vrows = [[row[c] for c in vcols] for row in conns]
                if any(not 0 <= i < n_ for row in conns for i in row):
                    bad.append('tri6 connectivity out of range')
                elif sorted({i for row in conns for i in row}) != list(range(n_)):
                    bad.append('tri6 connectivity does not use every node')
                else:
                    cc = np.asarray(mesh.coords).tolist()
                    if any(not area2(*[[frac(x) for x in cc[i]] for i in vr]) > 0 for vr in vrows):
                        bad.append('tri6 element not counter-clockwise')
            bm = getattr(mesh, 'block_maps', None)
            emap = desc['emap'] if desc['emap'] is not None else list(range(1, len(flat) + 1))
            if bm is None or [x for v in bm.values() for x in np.asarray(v).tolist()] != emap or list(bm.keys()) != list(mesh.blocks.keys()) \
                    or [len(np.asarray(v)) for v in bm.values()] != [len(b) for b in desc['blocks']]:
                bad.append('block_maps are not the per-block slices of the element number map')
            if desc['six']:
                faces = np.asarray(mesh.parentElement.faceNodes).tolist()
                for t, row in enumerate(conns):
                    for s in range(3):
                        if [row[p] for p in faces[s]] != [flat[t][s], flat[t][3 + s], flat[t][(s + 1) % 3]]:
                            bad.append('tri6 element %d: native face %d does not list (vertex, mid-side, vertex) of the file row' % (t, s)); break
                if sorted(np.asarray(mesh.simplexNodesOrdinals).tolist()) != sorted({i for row in flat for i in row[:3]}):
                    bad.append('tri6: simplexNodesOrdinals is not the set of vertex ids')
            blk = [np.asarray(v).tolist() for v in mesh.blocks.values()]
            if [x for b in blk for x in b] != list(range(len(flat))) or [len(b) for b in blk] != [len(b) for b in desc['blocks']]:
                bad.append('blocks are not consecutive ranges covering all elements')
            if [np.asarray(v).tolist() for v in mesh.nodeSets.values()] != desc['nodesets']:
                bad.append('node set members differ from the file (after 1-based -> 0-based)')
            if [list(map(tuple, np.asarray(v).tolist())) for v in mesh.sideSets.values()] != desc['sidesets']:
                bad.append('side set members differ from the file (after 1-based -> 0-based)')
            if len(mesh.blocks) != len(desc['blocks']) or len(mesh.nodeSets) != len(desc['nodesets']) or len(mesh.sideSets) != len(desc['sidesets']):
                bad.append('a block or set was lost (name clash of auto-generated names?)')
            bad += exodus_no_loss(desc, mesh)
            for b in bad:
                ctx.fail('conclusion', 'read_exodus_mesh: ' + b, case=case, concrete=True)
            blocks1 = '[' + '; '.join(zll([[i + 1 for i in row] for row in b]) for b in desc['blocks']) + ']'
            exprs.append('map Z.of_nat (concat (%s (read_conns (map (map (map Z.to_nat)) %s)))) ++ [(-7)] ++ '
                         'map Z.of_nat (concat (read_block_ranges (map (map (map Z.to_nat)) %s)))'
                         % ('map permute_tri6' if desc['six'] else 'id', blocks1, blocks1))
            ids = NameIds()
            wexprs.append(exo_expr(desc, ids))
            wcases.append((desc, enc_read_mesh(mesh, ids), 'in-memory'))
            # block_maps model (M_C13_ReadChk.read_block_maps over the blocks dict of the whole-file model), same name ids
            bexprs.append('enc_block_maps %s %s' % (exo_args(desc, ids), zl([0] + desc['emap']) if desc['emap'] is not None else '[]'))
            bcases.append((desc, enc_block_maps_impl(mesh, ids), 'in-memory'))
            ctx.count('exodus_tri6_files' if desc['six'] else 'exodus_tri3_files')
            ctx.count('exodus_blocks', len(desc['blocks']))
            ctx.count('exodus_unnamed_entities', sum(1 for nm in desc['bnames'] + desc['nsnames'] + desc['ssnames'] if not nm))
            ctx.count('exodus_set_members', sum(len(x) for x in desc['nodesets']) + sum(len(x) for x in desc['sidesets']))
        # (b'') files whose FINAL names may coincide (given names equal to each other or to an auto-generated name).  Since ce166ed the
        # repository's reader IS the checked reader: it must raise ValueError exactly when the final names of some kind are not pairwise
        # distinct (model read_exodus_checked, C13_read_exodus_checked_spec) and on every file it accepts nothing may be lost, with no
        # hypothesis on names (C13_read_exodus_checked_no_loss); a silently shortened dict is a regression of fixed finding C13-READ-NAMES
        for d_ in names_check_structure():
            ctx.fail('structural', 'ReadExodusMesh.py: ' + d_, case=dict(part='names_check_structure', defect=d_))
        ctx.count('names_check_structure_checks', 4)
        r2 = ctx.rng('readclash')
        for i in range(ctx.n(14, 90)):
            dims, var, desc = exodus_case(r2, clash=True)
            key = 'clash%d' % i
            _Dataset.store[key] = (dims, var)
            final = lambda names, pre: [nm if nm else pre + str(j + 1) for j, nm in enumerate(names)]
            fns = [final(desc['bnames'], 'block_'), final(desc['nsnames'], 'nodeset_'), final(desc['ssnames'], 'sideset_')]
            clash = any(len(set(fn)) != len(fn) for fn in fns)
            ctx.count('evaluations')
            ctx.count('exodus_clash_stream_files')
            ctx.count('exodus_clash_stream_files_with_equal_final_names', int(clash))
            case = dict(part='exodus_clash', desc=desc)
            try:
                mesh = ReadExodusMesh.read_exodus_mesh(key)
            except ValueError:
                mesh = None
            ctx.count('reader_rejections' if mesh is None else 'reader_acceptances')
            if (mesh is None) != clash:
                ctx.fail('conclusion', 'read_exodus_mesh %s a well-formed file whose final names are %spairwise distinct (blocks %r, node sets %r, side sets %r)'
                         % ('rejects' if mesh is None else 'accepts', 'not ' if clash else '', fns[0], fns[1], fns[2]),
                         case=dict(part='exodus_clash', clause='accept-iff-distinct', final_names=fns, desc=desc), concrete=True)
            ids = NameIds()
            args = exo_args(desc, ids)
            emap_term = zl([0] + desc['emap']) if desc['emap'] is not None else '[]'
            if mesh is not None:
                for b in exodus_no_loss(desc, mesh):
                    ctx.fail('conclusion', 'read_exodus_mesh: ' + b, case=case, concrete=True)
                for kind, fn, keys, explained in clash_verdict(desc, mesh):
                    ctx.fail('conclusion', 'read_exodus_mesh keeps %d of %d %ss: final names %r coincide and an earlier record is dropped silently%s'
                             % (len(keys), len(fn), kind, fn, ' (plain dict overwrite: regression of fixed finding C13-READ-NAMES)' if explained else ''),
                             case=dict(part='exodus_clash', clause='record-lost', kind=kind, final_names=fn, kept=keys, equal_final_names=True,
                                       explained_by_dict_overwrite=bool(explained), desc=desc), concrete=True)
                    ctx.count('exodus_clash_records_lost', len(fn) - len(keys))
                if len(mesh.blocks) != len(desc['blocks']) or len(mesh.nodeSets) != len(desc['nodesets']) or len(mesh.sideSets) != len(desc['sidesets']):
                    ctx.fail('conclusion', 'read_exodus_mesh accepted the file but returns %d/%d/%d blocks / node sets / side sets for %d/%d/%d records'
                             % (len(mesh.blocks), len(mesh.nodeSets), len(mesh.sideSets), len(desc['blocks']), len(desc['nodesets']), len(desc['sidesets'])),
                             case=dict(part='exodus_clash', clause='count', desc=desc), concrete=True)
                if np.asarray(mesh.coords).tolist() != desc['coords']:
                    ctx.fail('conclusion', 'read_exodus_mesh: coordinates differ from the file', case=case, concrete=True)
                bexprs.append('enc_block_maps %s %s' % (args, emap_term))
                bcases.append((desc, enc_block_maps_impl(mesh, ids), 'equal-names stream'))
            cexprs_.append('enc_checked (read_exodus_checked %s)' % args)
            ccases.append((desc, None if mesh is None else enc_read_mesh(mesh, ids)))
        # (b') REAL Exodus files of the repository (classic netCDF), read by the unchanged reader code through the scipy-backed stand-in
        for rel in REAL_EXODUS:
            path = os.path.join(C.REPO, rel)
            if not os.path.exists(path):
                ctx.notes.append('exodus fixture %s is missing' % rel)
                continue
            desc = real_exodus_desc(path)
            mesh = ReadExodusMesh.read_exodus_mesh(path)
            ctx.count('evaluations')
            ctx.count('exodus_real_files')
            nE = sum(len(b) for b in desc['blocks'])
            ctx.count('exodus_real_elements', nE)
            ctx.count('exodus_set_members', sum(len(x) for x in desc['nodesets']) + sum(len(x) for x in desc['sidesets']))
            bad = exodus_no_loss(desc, mesh)
            if np.asarray(mesh.coords).tolist() != desc['coords']:
                bad.append('coordinates differ from the file')
            vcols = np.asarray(mesh.parentElement.vertexNodes).tolist()
            cc = np.asarray(mesh.coords)
            vr = np.asarray(mesh.conns)[:, vcols]
            a2 = (cc[vr[:, 1], 0] - cc[vr[:, 0], 0]) * (cc[vr[:, 2], 1] - cc[vr[:, 0], 1]) - (cc[vr[:, 2], 0] - cc[vr[:, 0], 0]) * (cc[vr[:, 1], 1] - cc[vr[:, 0], 1])
            if not (a2 > 0).all():
                bad.append('%d elements are not counter-clockwise' % int((a2 <= 0).sum()))
            if sorted(set(np.asarray(mesh.conns).ravel().tolist())) != list(range(len(desc['coords']))):
                bad.append('connectivity does not use every node of the file')
            for b in bad:
                ctx.fail('conclusion', 'read_exodus_mesh(%s): %s' % (rel, b), case=dict(part='exodus_file', file=rel), concrete=True)
            if nE <= 2500:
                ids = NameIds()
                wexprs.append(exo_expr(desc, ids))
                wcases.append((dict(file=rel), enc_read_mesh(mesh, ids), rel))
    else:
        ctx.notes.append('a real netCDF4 is importable; the in-memory Exodus stream is skipped')
    # (c) JSON reader on real files
    workdir = os.path.join(C.RUN, 'c13_%d' % os.getpid())
    os.makedirs(workdir, exist_ok=True)
    jexprs, jwant = [], []
    try:
        for i in range(ctx.n(6, 40)):
            pts, tris = delaunay_mesh(r, r.randrange(4, 12))
            ns = {'ns%d' % k: sorted(r.sample(range(len(pts)), r.randrange(1, 3))) for k in range(r.randrange(0, 3))}
            ss = {'ss%d' % k: [[r.randrange(len(tris)) for _ in range(2)], [r.randrange(3) for _ in range(2)]] for k in range(r.randrange(0, 3))}
            path = os.path.join(workdir, 'm%d.json' % i)
            with open(path, 'w') as fh:
                json.dump(dict(coordinates=pts.tolist(), connectivity=tris, nodeSets=ns, sideSets=ss), fh)
            mesh = ReadMesh.read_json_mesh(path)
            ctx.count('evaluations')
            bad = validity(np.asarray(mesh.coords).tolist(), np.asarray(mesh.conns).tolist(), what='json mesh:')
            if np.asarray(mesh.conns).tolist() != tris or np.asarray(mesh.coords).tolist() != pts.tolist():
                bad.append('coordinates/connectivity differ from the file')
            if {k: np.asarray(v).tolist() for k, v in mesh.nodeSets.items()} != ns:
                bad.append('node sets differ from the file')
            if {k: np.asarray(v).tolist() for k, v in mesh.sideSets.items()} != {k: [list(p) for p in zip(*v)] for k, v in ss.items()}:
                bad.append('side sets differ from the file')
            for b in bad:
                ctx.fail('conclusion', 'read_json_mesh: ' + b, case=dict(part='json', conns=tris), concrete=True)
            jids = NameIds()
            jexprs.append('enc_dict_pairs (read_json_sidesets [%s])' % '; '.join(
                '(%d, (zn %s, zn %s))' % (jids.id(k), zl(v[0]), zl(v[1])) for k, v in ss.items()))
            jwant.append([len(mesh.sideSets)] + [x for k, v in mesh.sideSets.items()
                                                 for x in [jids.id(k), int(np.asarray(v).shape[0])] + [int(y) for y in np.asarray(v).ravel()]])
            ctx.count('json_files')
    finally:
        shutil.rmtree(workdir, ignore_errors=True)
    if not model_ok:
        return
    res = C.coq_eval(IMPORTS, exprs, 'C13r', shard=40)
    if res[0] != perm:
        ctx.fail('correspondence', 'exodusToNativeTri6NodeOrder in the source is %r, the model proves the layout theorem for %r' % (perm, res[0]),
                 case=dict(part='perm', source=perm))
    if res[1] != native['vertex'] or res[2] != [i for f in native['faces'] for i in f]:
        ctx.fail('correspondence', 'native quadratic element tables differ from the model: vertexNodes %r faceNodes %r' % (native['vertex'], native['faces']),
                 case=dict(part='native'))
    for (desc, mesh), got in zip(cases, res[3:]):
        cut = got.index(-7)
        if got[:cut] != [int(i) for i in np.asarray(mesh.conns).ravel()] or got[cut + 1:] != [int(x) for v in mesh.blocks.values() for x in np.asarray(v).tolist()]:
            ctx.fail('correspondence', 'read_exodus_mesh: model connectivity/block ranges differ from the implementation', case=dict(part='exodus', desc=desc))
        ctx.count('model_vs_impl_comparisons')
    # whole-file reader model (M_C13_ReadFile.read_exodus) against the implementation: connectivity, block / node-set / side-set
    # dicts (names, order, members), simplexNodesOrdinals (as a set)
    wres = C.coq_eval(['From OV.model Require Import M_C13_Combine M_C13_Read M_C13_ReadFile M_C13_ReadChk.'], wexprs + jexprs, 'C13f', shard=6, timeout=900)
    for (desc, (want, wsimplex), tag), got in zip(wcases, wres):
        if -7 not in got:
            ctx.fail('correspondence', 'read_exodus_mesh (%s): the model read_exodus_checked rejects a file the reader accepted' % tag, case=dict(part='exodus', desc=desc))
            continue
        cut = len(got) - 1 - got[::-1].index(-7)
        if got[:cut + 1] != want or sorted(got[cut + 1:]) != wsimplex:
            d = next((i for i, (a, b) in enumerate(zip(got, want)) if a != b), min(len(got), len(want)))
            ctx.fail('correspondence', 'read_exodus_mesh (%s): the whole-file reader model differs from the implementation at encoded position %d (%r vs %r)%s'
                     % (tag, d, got[d:d + 6], want[d:d + 6], '' if got[:cut + 1] != want else ' [simplexNodesOrdinals]'),
                     case=dict(part='exodus', desc=desc))
        ctx.count('model_vs_impl_comparisons')
        ctx.count('whole_file_model_comparisons')
    for want, got in zip(jwant, wres[len(wcases):]):
        if got != want:
            ctx.fail('correspondence', 'read_json_mesh: side sets of the model (%r) differ from the implementation (%r)' % (got[:12], want[:12]), case=dict(part='json'))
        ctx.count('model_vs_impl_comparisons')
    # equal-names stream and block_maps: models of M_C13_ReadChk against the implementation
    kres = C.coq_eval(['From OV.model Require Import M_C13_Combine M_C13_Read M_C13_ReadFile M_C13_ReadChk.'], kexprs + bexprs + cexprs_, 'C13g', shard=12, timeout=900, jobs=2)
    for (desc, want, tag), got in zip(bcases, kres[len(kcases):]):
        if got != want:
            ctx.fail('correspondence', 'read_exodus_mesh (%s): block_maps of the model %r differ from the implementation %r' % (tag, got[:14], want[:14]),
                     case=dict(part='exodus_clash', desc=desc))
        ctx.count('model_vs_impl_comparisons')
        ctx.count('block_maps_model_comparisons')
    for (desc, want), got in zip(ccases, kres[len(kcases) + len(bcases):]):
        if want is None:
            ok = got == [-9]
        else:
            cut = len(got) - 1 - got[::-1].index(-7) if -7 in got else -1
            ok = got[:cut + 1] == want[0] and sorted(got[cut + 1:]) == want[1]
        if not ok:
            ctx.fail('correspondence', 'read_exodus_mesh (equal-names stream): the model read_exodus_checked (%s) differs from the reader (%s%s)'
                     % ('rejects' if got == [-9] else 'accepts', 'raises ValueError' if want is None else 'accepts',
                        '' if (want is None) != (got != [-9]) or want is None else ', different mesh'), case=dict(part='exodus_clash', desc=desc))
        ctx.count('model_vs_impl_comparisons')
        ctx.count('checked_reader_model_comparisons')


# ------------------------------------------------------------------------------------------ 5. order elevation (tests only)
def part_elevate(ctx, model_ok=False):
    import numpy as np
    import jax.numpy as jnp
    from optimism import Mesh
    r = ctx.rng('elev')
    todo = []
    for i in range(ctx.n(7, 40)):
        order = [2, 3, 4, 5, 2, 3, 4][i % 7]
        bubble = (i % 3 == 1)
        if i % 2 == 0:
            pts, tris = delaunay_mesh(r, r.randrange(5, 9), rotate=True)
        else:
            c, t = Mesh.create_structured_mesh_data(r.randrange(2, 4), r.randrange(2, 4), [0., 1.], [0., 2.])
            pts, tris = np.asarray(c), np.asarray(t).tolist()
        todo.append((order, bubble, pts, tris))
    exprs, slots, exprs2, full, done, exprs3, fullc = [], [], [], [], [], [], []
    for order, bubble, pts, tris in todo:
        base = Mesh.construct_mesh_from_basic_data(jnp.array(pts), jnp.array(tris, dtype=jnp.int64), {'b': jnp.arange(len(tris))},
                                                   None, {'s': jnp.array([[0, 0]])})
        try:
            m = Mesh.create_higher_order_mesh_from_simplex_mesh(base, order, useBubbleElement=bubble)
        except Exception as ex:
            ctx.fail('conclusion', 'order elevation (order %d%s) raised %r' % (order, ' bubble' if bubble else '', ex),
                     case=dict(part='elevate', order=order, bubble=bubble, coords=np.asarray(pts).tolist(), conns=tris), concrete=True)
            done.append(False)
            continue
        done.append(True)
        ctx.count('evaluations')
        ctx.count('elevation_cases')
        conns = np.asarray(m.conns)
        coords = np.asarray(m.coords)
        pe = m.parentElement
        bad = []
        n = coords.shape[0]
        if sorted(set(conns.ravel().tolist())) != list(range(n)):
            bad.append('connectivity does not use exactly the nodes 0..%d' % (n - 1))
        ec, ed = Mesh.create_edges(np.array(tris))
        m1 = order - 1
        nint = int(np.asarray(pe.interiorNodes).shape[0])
        if n != len(pts) + len(ec) * m1 + len(tris) * nint:
            bad.append('node count %d is not nV + nE(p-1) + nT*nInt' % n)
        faces = np.asarray(pe.faceNodes)
        for (tl, pl, tr, pr) in np.asarray(ed).tolist():
            if tr >= 0 and conns[tl, faces[pl]].tolist() != conns[tr, faces[pr]].tolist()[::-1]:
                bad.append('edge nodes of elements %d and %d do not match in reversed order' % (tl, tr)); break
        ref = np.asarray(pe.coordinates)
        for t in range(len(tris)):
            X = pts[np.array(tris[t])]
            img = ref[:, [0]] * X[0] + ref[:, [1]] * X[1] + (1 - ref[:, [0]] - ref[:, [1]]) * X[2]
            if np.abs(img - coords[conns[t]]).max() > 1e-12 * max(1.0, np.abs(X).max()):
                bad.append('element %d: nodes are not at the affine image of the reference nodes' % t); break
        # coordinate model (M_C13_Coords.elev_coord): row nV+e*m+k is the edge point at the k-th 1-D interior node between edgeConns[e],
        # row nV+nE*m+t*nI+k the interior point with the reference coordinates of interior node k as weights
        pe1 = m.parentElement1d
        s1 = np.asarray(pe1.coordinates)[np.asarray(pe1.interiorNodes)]
        nV_ = len(pts)
        P = np.asarray(pts)
        for e, (a, b) in enumerate(np.asarray(ec).tolist()):
            want = (1 - s1)[:, None] * P[a] + s1[:, None] * P[b]
            if np.abs(coords[nV_ + e * m1:nV_ + (e + 1) * m1] - want).max(initial=0.0) > 4e-16 * max(1.0, np.abs(P).max()):
                bad.append('coordinate rows of edge %d are not (1-s_k) X[a] + s_k X[b]' % e); break
        if nint:
            Nref = ref[np.asarray(pe.interiorNodes)]
            for t in range(len(tris)):
                Xt = P[np.array(tris[t])]
                want = Nref[:, [0]] * Xt[0] + Nref[:, [1]] * Xt[1] + (1 - Nref[:, [0]] - Nref[:, [1]]) * Xt[2]
                base_ = nV_ + len(ec) * m1 + t * nint
                if np.abs(coords[base_:base_ + nint] - want).max() > 4e-16 * max(1.0, np.abs(P).max()):
                    bad.append('coordinate rows of the interior nodes of element %d are not the barycentric combination of its vertices' % t); break
        if not np.array_equal(coords[:nV_], P):
            bad.append('the first nV coordinate rows are not the vertex coordinates')
        if len({tuple(np.round(c, 10)) for c in coords.tolist()}) != n:
            bad.append('two nodes share the same position (duplicate nodes)')
        if np.asarray(m.conns[:, np.asarray(pe.vertexNodes)]).tolist() != tris:
            bad.append('vertex columns do not reproduce the simplex connectivity')
        # slot -> id numbering of the implementation, to be compared with the model (L1)
        left = [conns[tl, faces[pl][1:-1]].tolist() for (tl, pl, tr, pr) in np.asarray(ed).tolist()]
        right = [conns[tr, faces[pr][1:-1]].tolist() if tr >= 0 else list(range(len(pts) + e * m1, len(pts) + (e + 1) * m1))[::-1]
                 for e, (tl, pl, tr, pr) in enumerate(np.asarray(ed).tolist())]
        inter = conns[:, np.asarray(pe.interiorNodes)].tolist() if nint else []
        slots.append([i for l in left for i in l] + [i for l in right for i in l] + [i for l in inter for i in l])
        exprs.append('enc_elev %d %d %d %d %d' % (len(pts), len(ec), len(tris), m1, nint))
        pe_term = '(mk_pe %d %s %s %s %s %s)' % (int(ref.shape[0]), zl(np.asarray(pe.vertexNodes)), zl(faces[0][1:-1]), zl(faces[1][1:-1]),
                                                  zl(faces[2][1:-1]), zl(np.asarray(pe.interiorNodes)))
        exprs2.append('enc_elevated %s %d %d %s' % (pe_term, len(pts), m1, zll(tris)))
        full.append([int(i) for i in conns.ravel()])
        # closed statement (C13_elevated_mesh_affine) on the implementation's mesh: for EVERY (element, reference position) the stored
        # coordinate is the affine image of the reference node within em_bound (delta = delta' = 1e-14) + binary64 rounding of the products
        for t in range(len(tris)):
            Xt = P[np.array(tris[t])]
            img = ref[:, [0]] * Xt[0] + ref[:, [1]] * Xt[1] + (1 - ref[:, [0]] - ref[:, [1]]) * Xt[2]
            bnd = 1e-14 * (np.abs(Xt[0] - Xt[2]) + np.abs(Xt[1] - Xt[2])) + 1e-14 * (np.abs(Xt[0] - Xt[1]) + np.abs(Xt[1] - Xt[2]) + np.abs(Xt[2] - Xt[0])) \
                + 2e-15 * max(1.0, np.abs(P).max())
            if conns[t].max() >= n or (np.abs(coords[conns[t]] - img) > bnd).any():
                bad.append('element %d: a node is out of range or farther from the affine image of its reference node than the proved bound' % t); break
        ctx.count('closed_statement_entries', int(conns.size))
        # C13_isoparametric_jacobian on the implementation's mesh: at every quadrature point of every element the Jacobian matrix of the
        # isoparametric map sum_a N_a x_a of the element's OWN nodes is column_stack((v0 - v2, v1 - v2)) and its determinant is the simplex
        # Jacobian cross(v1 - v0, v2 - v0) that FunctionSpace uses (bound: det_bound with eps 1e-12, lam 256, delta 1e-14, plus binary64
        # rounding of the sums), and it is positive
        from optimism import Interpolants as _I, QuadratureRule as _Q
        qr = _Q.create_quadrature_rule_on_triangle(min(2 * order, 10))
        shp = _I.compute_shapes(pe, qr.xigauss)
        Gx_, Gy_, Nv_ = np.asarray(shp.gradients)[:, :, 0], np.asarray(shp.gradients)[:, :, 1], np.asarray(shp.values)
        vn = np.asarray(pe.vertexNodes)
        for t in range(len(tris)):
            Xe = coords[conns[t]]
            v = Xe[vn]
            J0 = np.column_stack((v[0] - v[2], v[1] - v[2]))
            jac = float(np.cross(v[1] - v[0], v[2] - v[0]))
            J = np.stack([np.stack([Gx_ @ Xe[:, 0], Gy_ @ Xe[:, 0]], axis=-1), np.stack([Gx_ @ Xe[:, 1], Gy_ @ Xe[:, 1]], axis=-1)], axis=-2)   # (nq, 2, 2)
            size = float(np.abs(v).max() + np.abs(J0).max())
            eb = (1e-12 + 256 * 5e-14 + 1e-12) * size
            det = J[:, 0, 0] * J[:, 1, 1] - J[:, 0, 1] * J[:, 1, 0]
            pos = Nv_ @ Xe
            img = np.asarray(qr.xigauss)[:, [0]] * v[0] + np.asarray(qr.xigauss)[:, [1]] * v[1] + (1 - np.asarray(qr.xigauss)[:, [0]] - np.asarray(qr.xigauss)[:, [1]]) * v[2]
            if np.abs(J - J0).max() > eb or np.abs(det - jac).max() > 4 * eb * size + 2 * eb * eb or np.abs(pos - img).max() > eb:
                bad.append('element %d: the isoparametric map of its nodes is not the affine map of its simplex (Jacobian entries off by %.3g, determinant by %.3g, position by %.3g)'
                           % (t, np.abs(J - J0).max(), np.abs(det - jac).max(), np.abs(pos - img).max())); break
            if jac > 4 * eb * size + 2 * eb * eb and not (det > 0).all():
                bad.append('element %d: non-positive isoparametric Jacobian at a quadrature point' % t); break
            ctx.count('isoparametric_jacobian_points', int(det.shape[0]))
        # binary64 execution of the SAME coordinate definition the closed theorem is about (em_coords), both components
        refl = '[' + '; '.join('(%s, %s)' % (C.cf(float(x)), C.cf(float(y))) for x, y in ref.tolist()) + ']'
        s1l = '[' + '; '.join(C.cf(float(x)) for x in s1.tolist()) + ']'
        for comp in (0, 1):
            exprs3.append('enc_em_coords [%s] %s %s %s %d %s' % ('; '.join(C.cf(float(x)) for x in P[:, comp].tolist()), s1l, refl, pe_term, m1, zll(tris)))
        fullc.append((coords, nV_, len(ec) * m1))
        for b in bad:
            ctx.fail('conclusion', 'order elevation (order %d%s, %d elements): %s' % (order, ' bubble' if bubble else '', len(tris), b),
                     case=dict(part='elevate', order=order, bubble=bubble, coords=np.asarray(pts).tolist(), conns=tris), concrete=True)
    if model_ok:
        # K certificates over the complete configuration set: reference elements of order 1..5 with and without bubble, Lobatto nodes 1..5
        from optimism import Interpolants
        cexprs, cnames = [], []
        for order in range(1, 6):
            for bub in (False, True):
                el = Interpolants.make_parent_element_2d_with_bubble(order) if bub else Interpolants.make_parent_element_2d(order)
                fc = np.asarray(el.faceNodes)
                cexprs.append('pe_cert (mk_pe %d %s %s %s %s %s) %d' % (int(np.asarray(el.coordinates).shape[0]), zl(np.asarray(el.vertexNodes)),
                                                                       zl(fc[0][1:-1]), zl(fc[1][1:-1]), zl(fc[2][1:-1]), zl(np.asarray(el.interiorNodes)), order - 1))
                cnames.append('reference element order %d%s: position tables partition the nodes' % (order, ' bubble' if bub else ''))
                if order >= 2:
                    qq = lambda x: '(%d # %d)' % (Fraction(float(x)).numerator, Fraction(float(x)).denominator)
                    refc = np.asarray(el.coordinates)
                    e1 = Interpolants.make_parent_element_1d(order)
                    s1d = np.asarray(e1.coordinates)[np.asarray(e1.interiorNodes)]
                    cexprs.append('ref_coord_cert [%s] (map Z.to_nat %s) [map Z.to_nat %s; map Z.to_nat %s; map Z.to_nat %s] [%s] (1 # 100000000000000)'
                                  % ('; '.join('(%s, %s)' % (qq(x), qq(y)) for x, y in refc), zl(np.asarray(el.vertexNodes)), zl(fc[0][1:-1]), zl(fc[1][1:-1]), zl(fc[2][1:-1]),
                                     '; '.join(qq(x) for x in s1d)))
                    cnames.append('reference element order %d%s: vertex positions at the unit points, face nodes at the 1-D node parameters of their side (1e-14)' % (order, ' bubble' if bub else ''))
                if order >= 2:
                    # ONE certificate for all table hypotheses of C13_elevated_mesh_certified (soundness proved: elevated_mesh_certified)
                    cexprs.append('elev_cert (mk_pe %d %s %s %s %s %s) %d [%s] %s [%s] %s (1 # 100000000000000)'
                                  % (int(refc.shape[0]), zl(np.asarray(el.vertexNodes)), zl(fc[0][np.asarray(e1.interiorNodes)]), zl(fc[1][np.asarray(e1.interiorNodes)]),
                                     zl(fc[2][np.asarray(e1.interiorNodes)]), zl(np.asarray(el.interiorNodes)), order - 1,
                                     '; '.join('(%s, %s)' % (qq(x), qq(y)) for x, y in refc), zll(fc.tolist()),
                                     '; '.join(qq(x) for x in np.asarray(e1.coordinates)), zl(np.asarray(e1.interiorNodes))))
                    cnames.append('reference element order %d%s: combined certificate elev_cert_okb of the closed elevated-mesh theorem (1e-14)' % (order, ' bubble' if bub else ''))
                    # ONE certificate for C13_elevated_jacobian_certified: the tables above + the implementation's shape table at the quadrature
                    # points (values, both parametric gradient rows): degree-1 reproduction within 1e-12, sum |grad N| <= 256
                    from optimism import QuadratureRule
                    qrule = QuadratureRule.create_quadrature_rule_on_triangle(min(2 * order, 10))
                    shp = Interpolants.compute_shapes(el, qrule.xigauss)
                    ql = lambda v: '[' + '; '.join(qq(x) for x in np.asarray(v).tolist()) + ']'
                    recs = '; '.join('((%s, %s), (%s, (%s, %s)))' % (qq(xi[0]), qq(xi[1]), ql(Nq), ql(Gq[:, 0]), ql(Gq[:, 1]))
                                     for xi, Nq, Gq in zip(np.asarray(qrule.xigauss), np.asarray(shp.values), np.asarray(shp.gradients)))
                    cexprs.append('jac_cert (mk_pe %d %s %s %s %s %s) %d [%s] %s [%s] %s [%s] (1 # 100000000000000) (1 # 1000000000000) (256 # 1)'
                                  % (int(refc.shape[0]), zl(np.asarray(el.vertexNodes)), zl(fc[0][np.asarray(e1.interiorNodes)]), zl(fc[1][np.asarray(e1.interiorNodes)]),
                                     zl(fc[2][np.asarray(e1.interiorNodes)]), zl(np.asarray(el.interiorNodes)), order - 1,
                                     '; '.join('(%s, %s)' % (qq(x), qq(y)) for x, y in refc), zll(fc.tolist()),
                                     '; '.join(qq(x) for x in np.asarray(e1.coordinates)), zl(np.asarray(e1.interiorNodes)), recs))
                    cnames.append('reference element order %d%s: certificate jac_cert_okb of the isoparametric-Jacobian theorem (tables 1e-14, shape table at %d quadrature points 1e-12, sum|grad N| <= 256)'
                                  % (order, ' bubble' if bub else '', int(np.asarray(qrule.xigauss).shape[0])))
                    ctx.count('shape_table_rows_certified', int(np.asarray(qrule.xigauss).shape[0]))
            xn = [Fraction(float(x)) for x in np.asarray(Interpolants.get_lobatto_nodes_1d(order))]
            cexprs.append('lobatto_sym_cert [%s] (1 # 100000000000000)' % '; '.join('(%d # %d)' % (q.numerator, q.denominator) for q in xn))
            cnames.append('Lobatto nodes of degree %d are symmetric about 1/2 within 1e-14' % order)
        cres = C.coq_eval(IMPORTS, cexprs, 'C13k', shard=40)
        for nm, got in zip(cnames, cres):
            ctx.count('certificates')
            if got != [1]:
                ctx.fail('certificate', 'certificate failed: ' + nm, case=dict(part='certificate', what=nm))
        ctx.cov['certificates_exhaustive_over'] = 'orders 1..5 x {plain, bubble} reference elements; Lobatto degrees 1..5'
        res = C.coq_eval(IMPORTS, exprs, 'C13v', shard=40)
        todo = [t for t, ok in zip(todo, done) if ok]
        for (order, bubble, pts, tris), want, got in zip(todo, slots, res):
            if got != want:
                ctx.fail('correspondence', 'order elevation (order %d%s): the ids in the (edge,k)/(element,k) slots differ from the model numbering'
                         % (order, ' bubble' if bubble else ''), case=dict(part='elevate', order=order, bubble=bubble, conns=tris))
            ctx.count('model_vs_impl_comparisons')
        res3 = C.coq_eval(IMPORTS, exprs3, 'C13x', shard=8, timeout=600)
        for k, ((order, bubble, pts, tris), (coords, nv_, ne_)) in enumerate(zip(todo, fullc)):
            scale = 4e-16 * max(1.0, float(np.abs(np.asarray(pts)).max()))
            for comp in (0, 1):
                got = C.dec_floats(res3[2 * k + comp])
                case = dict(part='elevate', order=order, bubble=bubble, coords=np.asarray(pts).tolist(), conns=tris, component=comp)
                if len(got) != coords.shape[0]:
                    ctx.fail('correspondence', 'order elevation (order %d%s): the coordinate model has %d nodes, the implementation %d'
                             % (order, ' bubble' if bubble else '', len(got), coords.shape[0]), case=case)
                    continue
                d = [i for i, (a, b) in enumerate(zip(got, coords[:, comp].tolist())) if not abs(a - b) <= scale]
                if d:
                    ctx.fail('correspondence', 'order elevation (order %d%s): coordinate %d of node %d is %r in the implementation, %r in the model em_coords (%s row)'
                             % (order, ' bubble' if bubble else '', comp, d[0], float(coords[d[0], comp]), got[d[0]],
                                'vertex' if d[0] < nv_ else 'edge' if d[0] < nv_ + ne_ else 'interior'), case=case)
                ctx.count('em_coords_vertex_rows', nv_)
                ctx.count('em_coords_edge_rows', ne_)
                ctx.count('em_coords_interior_rows', coords.shape[0] - nv_ - ne_)
            ctx.count('model_vs_impl_comparisons')
        res2 = C.coq_eval(IMPORTS, exprs2, 'C13w', shard=4, timeout=900)
        for (order, bubble, pts, tris), want, got in zip(todo, full, res2):
            case = dict(part='elevate', order=order, bubble=bubble, conns=tris)
            if got[0] != 1:
                ctx.fail('correspondence', 'order elevation (order %d%s): the reference element tables do not partition the node positions (certificate pe_okb fails)'
                         % (order, ' bubble' if bubble else ''), case=case)
            if got[1:] != want:
                ctx.fail('correspondence', 'order elevation (order %d%s): connectivity of the write-log model differs from the implementation'
                         % (order, ' bubble' if bubble else ''), case=case)
            ctx.count('model_vs_impl_comparisons')


# ------------------------------------------------------------------------------------------ 6. purity / aliasing / histories
def snapshot(m):
    """everything observable of a Mesh tuple, as plain Python data"""
    import numpy as np

    def dd(d, two=False):
        if d is None:
            return None
        return [(k, np.asarray(v).reshape(-1, 2).tolist() if two else np.asarray(v).ravel().tolist()) for k, v in d.items()]
    bm = getattr(m, 'block_maps', None)
    return dict(coords=np.asarray(m.coords).tolist(), conns=np.asarray(m.conns).tolist(), simplex=np.asarray(m.simplexNodesOrdinals).tolist(),
                degree=int(m.parentElement.degree), nref=int(np.asarray(m.parentElement.coordinates).shape[0]),
                blocks=dd(m.blocks), nodeSets=dd(m.nodeSets), sideSets=dd(m.sideSets, True),
                block_maps=None if bm is None else [(k, np.asarray(v).tolist()) for k, v in bm.items()])


def build_mesh_np(d, kind):
    """like build_mesh; kind 'numpy': sets and blocks hold plain numpy arrays (as the Exodus reader returns them), which CAN be mutated in place"""
    import numpy as np
    if kind != 'numpy':
        return build_mesh(d)
    import jax.numpy as jnp
    from optimism import Mesh
    blocks = {k: np.array(v, dtype=np.int64) for k, v in d['blocks'].items()}
    ns = None if d['nodeSets'] is None else {k: np.array(v, dtype=np.int64) for k, v in d['nodeSets'].items()}
    ss = None if d['sideSets'] is None else {k: jnp.array(v, dtype=jnp.int64).reshape(-1, 2) for k, v in d['sideSets'].items()}
    return Mesh.construct_mesh_from_basic_data(jnp.array(d['coords']), jnp.array(d['conns'], dtype=jnp.int64), blocks, ns, ss)


def purity_case(c):
    """one purity / history scenario, fully described by the plain-data case c; -> list of violated clauses"""
    import numpy as np
    import jax.numpy as jnp
    from optimism import Mesh
    bad = []
    op = c['op']
    if op == 'combine_history':
        d1, d2, d3 = c['mesh1'], c['mesh2'], c['mesh3']
        m1, m2, m3 = (build_mesh_np(d, c.get('arrays', 'jax')) for d in (d1, d2, d3))
        s1, s2, s3 = snapshot(m1), snapshot(m2), snapshot(m3)
        z = lambda d: np.zeros((len(d['coords']), 2))
        mA, _ = Mesh.combine_mesh((m1, z(d1)), (m2, z(d2)))
        sA = snapshot(mA)
        mB, _ = Mesh.combine_mesh((m1, z(d1)), (m3, z(d3)))
        mC, _ = Mesh.combine_mesh((m2, z(d2)), (m1, z(d1)))          # m1 now as SECOND argument, m2 re-used as first
        if snapshot(m1) != s1:
            bad.append('combine_mesh changed its first input mesh (observable data differ after the calls)')
        if snapshot(m2) != s2 or snapshot(m3) != s3:
            bad.append('combine_mesh changed its second input mesh')
        if snapshot(mA) != sA:
            bad.append('an earlier merged mesh changed when one of its inputs was merged again')
        mA2, _ = Mesh.combine_mesh((build_mesh_np(d1, c.get('arrays', 'jax')), z(d1)), (build_mesh_np(d2, c.get('arrays', 'jax')), z(d2)))
        if snapshot(mA2) != sA:
            bad.append('merging equal inputs twice gives different results (the first result depends on history)')
        for tag, (da, db, mm) in dict(second=(d1, d3, mB), swapped=(d2, d1, mC)).items():
            for clause, text, extra in combine_concl(da, db, mm):
                bad.append('%s merge re-using an input: %s' % (tag, text))
    elif op == 'elevate':
        d = c['mesh']
        base = build_mesh_np(d, c.get('arrays', 'jax'))
        if c.get('block_maps', True):
            base = base._replace(block_maps={k: np.asarray(v) + 100 for k, v in base.blocks.items()})
        s0 = snapshot(base)
        kw = dict(useBubbleElement=c['bubble'], copyNodeSets=c['copyNodeSets'], createNodeSetsFromSideSets=c['createNS'])
        mA = Mesh.create_higher_order_mesh_from_simplex_mesh(base, c['order'], **kw)
        sA = snapshot(mA)
        mB = Mesh.create_higher_order_mesh_from_simplex_mesh(base, c['order'], **kw)
        if snapshot(base) != s0:
            bad.append('order elevation changed its input mesh')
        if snapshot(mB) != sA or snapshot(mA) != sA:
            bad.append('elevating the same mesh twice gives different results / changes the earlier result')
        if sA['blocks'] != s0['blocks'] or sA['sideSets'] != s0['sideSets'] or sA['block_maps'] != s0['block_maps']:
            bad.append('order elevation changed blocks, side sets or block maps (element ids and sides are unchanged by elevation)')
        if sA['degree'] != c['order']:
            bad.append('parent element of the elevated mesh has degree %d, requested %d' % (sA['degree'], c['order']))
        n = len(sA['coords'])
        faces = np.asarray(mA.parentElement.faceNodes)
        conns = np.asarray(mA.conns)
        if c['createNS'] and d['sideSets'] is not None:
            want = [(k, sorted({int(i) for e, sd in v for i in conns[e, faces[sd]]})) for k, v in d['sideSets'].items()]
            if sA['nodeSets'] != want:
                bad.append('node sets created from side sets are not exactly the nodes on those sides: %r vs %r' % (sA['nodeSets'], want))
        elif c['copyNodeSets']:
            if sA['nodeSets'] != s0['nodeSets']:
                bad.append('copyNodeSets: node sets differ from the input mesh')
        elif sA['nodeSets'] is not None:
            bad.append('node sets present although neither copyNodeSets nor createNodeSetsFromSideSets was requested')
        for k, v in (sA['nodeSets'] or []):
            if any(not 0 <= i < n for i in v):
                bad.append('node set %r of the elevated mesh refers to a node outside 0..%d' % (k, n - 1))
        if sA['simplex'] != list(range(len(d['coords']))) or sA['coords'][:len(d['coords'])] != s0['coords']:
            bad.append('vertex nodes of the elevated mesh are not the original nodes, in order')
    elif op == 'mesh_with':
        d = c['mesh']
        base = build_mesh_np(d, c.get('arrays', 'jax'))
        base = base._replace(block_maps={k: np.asarray(v) + 100 for k, v in base.blocks.items()})     # as a mesh read from Exodus carries them
        s0 = snapshot(base)
        newc = jnp.array(d['coords']) + 0.25
        nb = {'only': jnp.arange(len(d['conns']))}
        nn = {'n0': jnp.array([0])}
        a, b, e = Mesh.mesh_with_coords(base, newc), Mesh.mesh_with_blocks(base, nb), Mesh.mesh_with_nodesets(base, nn)
        if snapshot(base) != s0:
            bad.append('mesh_with_* changed its input mesh')
        sa, sb, se = snapshot(a), snapshot(b), snapshot(e)
        for nm, sn, fld, val in (('mesh_with_coords', sa, 'coords', np.asarray(newc).tolist()), ('mesh_with_blocks', sb, 'blocks', [('only', list(range(len(d['conns']))))]),
                                 ('mesh_with_nodesets', se, 'nodeSets', [('n0', [0])])):
            if sn[fld] != val:
                bad.append('%s did not install the new %s' % (nm, fld))
            if any(sn[k] != s0[k] for k in s0 if k != fld):
                bad.append('%s changed a field other than %s' % (nm, fld))
    elif op == 'edges_numpy':
        conns = np.array(c['conns'], dtype=np.int64)
        keep = conns.copy()
        ec1, ed1 = Mesh.create_edges(conns)
        ec1, ed1 = np.asarray(ec1).copy(), np.asarray(ed1).copy()
        ec2, ed2 = Mesh.create_edges(conns)
        if not np.array_equal(conns, keep):
            bad.append('create_edges changed its input connectivity array')
        if not (np.array_equal(ec1, ec2) and np.array_equal(ed1, ed2)):
            bad.append('create_edges returns different tables when called twice on the same input')
    elif op == 'json_reread':
        from optimism import ReadMesh
        workdir = os.path.join(C.RUN, 'c13p_%d' % os.getpid())
        os.makedirs(workdir, exist_ok=True)
        try:
            pa, pb = os.path.join(workdir, 'a.json'), os.path.join(workdir, 'b.json')
            for path, content in ((pa, c['A']), (pb, c['B'])):
                with open(path, 'w') as fh:
                    json.dump(content, fh)
            a1 = snapshot(ReadMesh.read_json_mesh(pa))
            b1 = snapshot(ReadMesh.read_json_mesh(pb))
            a2 = snapshot(ReadMesh.read_json_mesh(pa))
            with open(pa, 'w') as fh:
                json.dump(c['B'], fh)
            a3 = snapshot(ReadMesh.read_json_mesh(pa))           # same path, new content: must not be served from a cache
            if a1 != a2:
                bad.append('reading the same JSON file twice (with another file read in between) gives different meshes')
            if a3 != b1:
                bad.append('re-reading a path after its content changed returns stale data (reader caches by file name)')
            if a1['conns'] != c['A']['connectivity'] or b1['conns'] != c['B']['connectivity']:
                bad.append('connectivity differs from the file')
        finally:
            shutil.rmtree(workdir, ignore_errors=True)
    elif op == 'exodus_reread':
        import random
        if not install_fake_netcdf():
            return bad
        from optimism import ReadExodusMesh
        ra, rb = random.Random(c['seedA']), random.Random(c['seedB'])
        (da, va, _), (db, vb, _) = exodus_case(ra), exodus_case(rb)
        raw = {k: (np.array(v.data).copy() if not isinstance(v.data, list) else None) for k, v in va.items()}
        _Dataset.store['pa'], _Dataset.store['pb'] = (da, va), (db, vb)
        a1 = snapshot(ReadExodusMesh.read_exodus_mesh('pa'))
        b1 = snapshot(ReadExodusMesh.read_exodus_mesh('pb'))
        a2 = snapshot(ReadExodusMesh.read_exodus_mesh('pa'))
        _Dataset.store['pa'] = (db, vb)
        a3 = snapshot(ReadExodusMesh.read_exodus_mesh('pa'))
        if a1 != a2:
            bad.append('reading the same Exodus data twice (with another file in between) gives different meshes')
        if a3 != b1:
            bad.append('re-reading a name after its content changed returns stale data (reader caches by file name)')
        for k, v in va.items():
            if raw[k] is not None and not np.array_equal(np.array(v.data), raw[k]):
                bad.append('the reader modified the file data it was given (variable %s)' % k)
    elif op == 'structured_full':
        m = Mesh.construct_structured_mesh(c['Nx'], c['Ny'], c['xExtent'], c['yExtent'], elementOrder=c['order'], useBubbleElement=c['bubble'])
        sm = snapshot(m)
        nV, nE = c['Nx'] * c['Ny'], 2 * (c['Nx'] - 1) * (c['Ny'] - 1)
        if sm['simplex'] != list(range(nV)):
            bad.append('simplexNodesOrdinals is not 0..Nx*Ny-1')
        if sm['blocks'] != [('block_0', list(range(nE)))]:
            bad.append('blocks of the structured mesh are not {block_0: all elements}')
        if sm['degree'] != c['order'] or any(len(row) != sm['nref'] for row in sm['conns']):
            bad.append('element degree / row width do not match the requested order')
        vn = np.asarray(m.parentElement.vertexNodes).tolist()
        bad += validity(sm['coords'][:nV], [[row[i] for i in vn] for row in sm['conns']], what='structured mesh (vertex columns):')
        if sorted({i for row in sm['conns'] for i in row}) != list(range(len(sm['coords']))):
            bad.append('connectivity does not use exactly the nodes 0..n-1')
    else:
        bad.append('unknown purity op %r' % op)
    return bad


def part_purity(ctx):
    import numpy as np
    r = ctx.rng('purity')
    cases = []
    for i in range(ctx.n(8, 50)):
        pool = NAMES[:4]
        cases.append(dict(part='purity', op='combine_history', arrays=['jax', 'numpy'][i % 2],
                          mesh1=rand_mesh_with_sets(r, pool), mesh2=rand_mesh_with_sets(r, pool), mesh3=rand_mesh_with_sets(r, pool)))
    for i in range(ctx.n(8, 40)):
        d = rand_mesh_with_sets(r, NAMES[:5])
        if d['sideSets'] is None or i % 2 == 0:
            d['sideSets'] = {'s%d' % k: [[r.randrange(len(d['conns'])), r.randrange(3)] for _ in range(r.randrange(1, 4))] for k in range(r.randrange(1, 3))}
        cases.append(dict(part='purity', op='elevate', arrays=['jax', 'numpy'][i % 2], mesh=d, order=r.choice([2, 3, 4]), bubble=(i % 3 == 0 and False),
                          copyNodeSets=(i % 4 == 1), createNS=(i % 2 == 0)))
        if cases[-1]['order'] in (2, 3) and i % 3 == 0:
            cases[-1]['bubble'] = True
    for i in range(ctx.n(3, 12)):
        cases.append(dict(part='purity', op='mesh_with', arrays=['jax', 'numpy'][i % 2], mesh=rand_mesh_with_sets(r, NAMES[:5])))
    for i in range(ctx.n(3, 12)):
        pts, tris = delaunay_mesh(r, r.randrange(5, 12))
        cases.append(dict(part='purity', op='edges_numpy', conns=tris))
    for i in range(ctx.n(2, 8)):
        def content():
            pts, tris = delaunay_mesh(r, r.randrange(4, 10))
            return dict(coordinates=pts.tolist(), connectivity=tris, nodeSets={'n': [0, 1]}, sideSets={'s': [[0, 1], [0, 2]]})
        cases.append(dict(part='purity', op='json_reread', A=content(), B=content()))
    for i in range(ctx.n(2, 8)):
        cases.append(dict(part='purity', op='exodus_reread', seedA=r.randrange(1 << 30), seedB=r.randrange(1 << 30)))
    for i in range(ctx.n(6, 30)):
        order = [1, 2, 3, 4, 5, 2][i % 6]
        cases.append(dict(part='purity', op='structured_full', Nx=r.randrange(2, 5), Ny=r.randrange(2, 5), xExtent=[0.0, r.uniform(0.5, 3)], yExtent=[-1.0, r.uniform(0, 2)],
                          order=order, bubble=(order in (2, 3) and i % 2 == 1)))
    for c in cases:
        ctx.count('evaluations')
        ctx.count('purity_histories')
        for b in purity_case(c):
            ctx.fail('conclusion', 'purity/history (%s): %s' % (c['op'], b), case=c, concrete=True)
    ctx.count('distinct_nontrivial', len(cases))


# ------------------------------------------------------------------------------------------ driver interface
def correspondence(ctx, model_ok):
    import optimism  # noqa: F401
    part_structured(ctx, model_ok)
    part_edges(ctx, model_ok)
    part_combine(ctx, model_ok)
    part_readers(ctx, model_ok)
    part_elevate(ctx, model_ok)
    part_purity(ctx)
    ctx.cov['parts'] = ['structured', 'edges', 'combine', 'readers(exodus in-memory, equal-final-names stream against read_exodus_checked, AST check of the name checks, block_maps model, real files, json files)', 'elevation (write-log connectivity model, binary64 coordinate model, certificates incl. shape-table reproduction, isoparametric Jacobian on the implementation)', 'purity/aliasing/histories (combine, elevate incl. node-set flags, mesh_with_*, create_edges, reader re-reads)']


def search(ctx, reasons):
    import copy
    c2 = copy.copy(ctx)
    c2.failures, c2.counts, c2.cov, c2.samples, c2.notes = [], {}, {}, [], []
    c2.tier = 'thorough'
    c2.seed = ctx.seed + 1
    correspondence(c2, False)
    known = [f for f in C.load_known_findings() if f['property'] == ID and f['status'] == 'open']
    for fl in c2.failures:
        if fl.get('concrete') and not any(matches_finding(fl, f) for f in known):
            return fl
    return None


def matches_finding(fl, f):
    c = fl.get('case') or {}
    if f['id'] == 'C13-READ-NAMES':
        return False          # fixed (ce166ed): nothing is excused any more; a recurrence is reported by finding_fails and by the equal-names stream
    if f['id'] == 'F8':
        return (c.get('part') == 'combine' and c.get('clause') == 'lost' and bool(c.get('name_in_both')) and c.get('from_mesh') == 1
                and bool(c.get('merged_equals_second_only')))
    return False


def finding_fails(ctx, f):
    import copy
    import optimism  # noqa: F401
    if f['id'] == 'C13-READ-NAMES':
        # fixed by ce166ed: the witness file (block NAMED 'block_2' + unnamed second block, elements numbered 10, 20) must be REJECTED with
        # ValueError.  Recurrence = the reader returns a mesh with fewer blocks than records / an element in no block / block_maps that do not
        # give every block the global numbers of its own elements (what C13_read_exodus_name_clash_refuted and
        # C13_read_block_maps_name_clash_refuted describe for the reader without the check)
        w = exodus_name_clash_witness()
        ctx.cov['read_exodus_name_clash_replay'] = w
        if w is None or 'rejected' in w:
            return False
        emap = [10, 20]
        covered = sorted(e for v in w['blocks'].values() for e in v)
        maps_ok = set(w['block_maps']) == set(w['blocks']) and all(w['block_maps'][k] == [emap[e] for e in v] for k, v in w['blocks'].items())
        return len(w['blocks']) < 2 or covered != [0, 1] or not maps_ok
    c2 = copy.copy(ctx)
    c2.failures, c2.counts = [], {}
    run_combine(c2, [tuple(F8_WITNESS)], False, 'k')
    return any(matches_finding(fl, f) for fl in c2.failures)


def replay(ctx, path):
    import optimism  # noqa: F401
    import numpy as np
    from optimism import Mesh
    rep = json.load(open(path))
    case = rep.get('failing_input')
    print('replay of', path)
    print(json.dumps(rep.get('reasons'), indent=1)[:3000])
    if not case:
        print('no concrete failing input recorded; broken obligations:', rep.get('broken'))
        return 1
    part = case.get('part')
    bad = []
    if part == 'structured':
        coords, conns = Mesh.create_structured_mesh_data(case['Nx'], case['Ny'], case['xExtent'], case['yExtent'])
        bad = validity(np.asarray(coords).tolist(), np.asarray(conns).tolist())
        if len(np.asarray(conns)) != 2 * (case['Nx'] - 1) * (case['Ny'] - 1):
            bad.append('element count')
    elif part == 'edges':
        ec, ed = Mesh.create_edges(np.array(case['conns'], dtype=np.int64))
        rows = [[int(a), int(b)] + [int(x) for x in e] for (a, b), e in zip(np.asarray(ec).tolist(), np.asarray(ed).tolist())]
        bad = edges_concl(case['conns'], rows)
    elif part == 'combine' and 'mesh3' not in case:
        ctx.failures = []
        run_combine(ctx, [(case['mesh1'], case['mesh2'])], False, 'r')
        known = [f for f in C.load_known_findings() if f['property'] == ID and f['status'] == 'open']
        bad = [fl['what'] for fl in ctx.failures if not any(matches_finding(fl, f) for f in known)]
    elif part == 'exodus_file':
        install_fake_netcdf()
        from optimism import ReadExodusMesh
        path = os.path.join(C.REPO, case['file'])
        bad = exodus_no_loss(real_exodus_desc(path), ReadExodusMesh.read_exodus_mesh(path))
    elif part == 'purity':
        bad = purity_case(case)
    elif part == 'combine' and 'mesh3' in case:
        bad = purity_case(dict(op='combine_history', mesh1=case['mesh1'], mesh2=case['mesh2'], mesh3=case['mesh3']))
    else:
        print('case kind %r is replayed by re-running the check' % part)
        return 1
    print('implementation now:', bad or 'conclusion holds')
    return 1 if bad else 0
