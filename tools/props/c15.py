"""C15 -- Newmark stepping: equations of motion, update formulas, energy conservation, rigid translation, total mass."""
import json
import math

from vlib import common as C

ID = 'C15'
READY = True
LEVEL_TEXT = ('Full in exact arithmetic: Coq theorems over R about predict / correct / kinetic_energy_density re-translated from '
              'Mechanics.py on every run, applied entry by entry to fields over an arbitrary index set, with the mass and stiffness forms '
              'ANY symmetric bilinear forms: Newmark update formulas for every beta <> 0, dt <> 0; stationarity of the algorithmic energy '
              '<=> M A1 + fint(U1) = 0 (any differentiable strain energy); energy conservation for gamma = 1/2, beta = 1/4, linear fint, '
              'consistent initial acceleration, every sequence of non-zero variable steps (premise shown necessary by a refutation witness); '
              'rigid translation at constant velocity exact for every sequence of steps (M positive definite, K >= 0, K c = 0); '
              'partition of unity => kinetic energy of a rigid velocity = 1/2 rho area |v|^2 and total consistent mass = rho area. '
              'The hypotheses on the forms are DISCHARGED for the quadrature model of the mesh integrals (model/M_C15_FE.v: any mesh = list of elements with '
              'connectivity and per-quadrature-point volume weight, shape values, shape gradients; kinetic_energy_density, linear_strain, '
              '_linear_elastic_energy_density, _make_properties regenerated; plane strain): mass form sum_q w_q rho u(x_q).v(x_q) and stiffness form '
              'sum_q w_q eps(u):C:eps(v) are symmetric bilinear for every mesh; reported kinetic / strain / algorithmic energies = 1/2 m(v,v), 1/2 k(u,u), '
              'alg_energy(m,k); m >= 0 and k >= 0 for w_q >= 0 (rho, mu, kappa >= 0; mu, kappa > 0 from E > 0, -1 < nu < 1/2); null space of m = fields '
              'vanishing at all quadrature points, so M is positive definite <=> the quadrature points are unisolvent (definiteness from w_q > 0 alone '
              'REFUTED by a witness: under-integration); K c = 0 for translations from sum_a grad N_a = 0 (C03); energy conservation and rigid '
              'translation restated over the modelled energies with no hypothesis on forms; total mass m(c,c\') = rho * sum_q w_q * c.c\' from the '
              'partition of unity; composed with C03 (meshes built from reference tables satisfying the certificate predicates RefIds/TriQuadExact): '
              '|total mass - rho * area * c.c\'| <= |rho c.c\'| area ((1+2 epsq) eps (2+eps) + 2 epsq), exact for exact tables. '
              'LINEARITY / SCALE INVARIANCE (round 4): predict and correct are homogeneous and additive in their array arguments for every gamma, beta, dt '
              '(no side condition); the new acceleration is zero only for a zero correction; a corrector with an absolute dead band |UCorrection| <= tau is '
              'refuted as non-homogeneous for every tau > 0; one step commutes with scaling / addition whenever the minimiser does; for linear elasticity '
              '(M positive definite, K >= 0, beta > 0) the stationary point of the algorithmic energy is unique, so every minimiser oracle is linear and the '
              'whole run is a linear map of the initial state (every gamma, every sequence of non-zero steps; kinetic + strain energy scales with s^2), restated over the modelled energies of a mesh '
              'with no hypothesis on forms (C15_fe_run_scale_invariant / _additive). '
              'PURITY (round 4): store model of the statements of predict / correct (model/M_C15_Purity.v: heap of (value, writable) objects, names -> addresses, '
              'x += e in place for writable objects and rebinding otherwise, jit(f) runs on fresh immutable copies); statement lists, returned names and the jit '
              'wrapping in the DynamicsFunctions(...) constructor call are regenerated from the AST on every run (gen/CFG_c15.v, fail closed); theorem: a function '
              'that is wrapped in jit OR never augments a name that may denote a caller object leaves every pre-existing object unchanged, for every value oracle, '
              'writability, heap and argument list (C15_predict_pure / C15_correct_pure instantiate it on the regenerated tables by computation); immutable '
              'arguments imply purity for any function; the unwrapped predict on writable arrays is refuted by a witness (the jit wrapper is load-bearing). '
              'Streams: purity + Newmark formulas against the ORIGINAL state under a step-doubling driver on numpy / read-only numpy / jax state; scale invariance '
              'of whole runs and of predict / correct on arrays over amplitudes 1e-12..1e12 (bit-for-bit for powers of two), additivity of predict / correct. '
              'Pressure projection (round 4 follow-up): not modelled, but the L2 clauses (balance M A1 + d(compute_output_strain_energy)/dU(U1) = 0, kinetic + REPORTED strain energy conserved, update formulas) are checked on the dynamics functions\' own outputs for a factory call with pressureProjectionDegree = 0 on quadratic triangles (linear elastic at strains ~1e-7, and neo-Hookean at finite strain for the balance). '
              'Still premises: unisolvence (false for admitted under-integrating rules; checked numerically), K c = 0 only exact for exact tables, '
              'the mesh-integral model is tied to FunctionSpace/Mechanics by correspondence (binary64 energies, forms, algorithmic energy on real '
              'function spaces incl. an under-integrated order-2 one), axisymmetric / pressure projection not modelled; everything in binary64 is '
              'covered by the correspondence on the real DynamicsFunctions (dense Newton solve of the algorithmic energy inside the harness).')
TECHNIQUE = 'Coq proof (Reals + Coquelicot) over kernels regenerated from the Python AST + field model; vm_compute/PrimFloat correspondence'
GEN = ['Mechanics', 'TensorMath', 'LinearElastic', 'CFG_c15']
ANCHOR_FILES = ['optimism/FunctionSpace.py']     # hand-modelled in model/M_C15_FE.v: interpolate_to_point, compute_quadrature_point_field_gradient, integrate_over_block
TARGETS = ['proofs/L_C15.vo', 'model/M_C15_Newmark.vo', 'model/M_C15_FE.vo', 'proofs/L_C15fe.vo', 'proofs/L_C15fe_C03.vo',
           'model/M_C15_Purity.vo', 'proofs/L_C15lin.vo', 'proofs/L_C15linfe.vo', 'proofs/L_C15pure.vo']
COQ_FILES = ['base/Num.v', 'model/M_C15_Newmark.v', 'model/M_C15_FE.v', 'proofs/L_C15.v', 'proofs/L_C15fe.v', 'proofs/L_C15fe_C03.v',
             'model/M_C15_Purity.v', 'proofs/L_C15lin.v', 'proofs/L_C15linfe.v', 'proofs/L_C15pure.v', 'props/P_C15.v']
TRUSTED = ['Coq 8.16.1 kernel + vm_compute (no native_compute)',
           'tools/vlib/py2coq.py translator (Python ast -> Gallina over Num T; closure variable newmarkParameters as leading parameters gamma, beta; arrays elementwise), cross-checked by running the generated kernels at binary64 against DynamicsFunctions.predict/correct on arrays',
           'field model model/M_C15_Newmark.v (algorithmic energy as in compute_newmark_lagrangian; kinetic energy as weighted sum over quadrature points), cross-checked at binary64 against compute_output_kinetic_energy / compute_element_masses on real function spaces',
           'mesh-integral model model/M_C15_FE.v (interpolate_to_point, compute_quadrature_point_field_gradient, zero padding of tensor_2D_to_3D, integrate_over_block, compute_newmark_lagrangian composed with the regenerated LinearElastic / TensorMath / Mechanics kernels), cross-checked at binary64 (relative 1e-12 of the rounding scale = sum of |terms| / Cauchy-Schwarz scale of the forms) against compute_output_kinetic_energy, compute_output_strain_energy, compute_algorithmic_energy and u.M.v, u.K.v with the jax Hessians, on real function spaces (order 1, order 2 fully and under-integrated); fs.shapes / fs.shapeGrads / fs.vols / mesh.conns are read from the function space',
           'C03 development (proofs/L_C03lift.v, L_C03cert.v): lifting theorems and certificate predicates used by the composition theorems',
           'harness: dense Newton minimisation of DynamicsFunctions.compute_algorithmic_energy with jax.grad/jax.hessian (the library solver is not part of this property); tolerances: kernels 8 ulp, balance/stationarity 1e-8 of the two forces + rounding floor 1e-14 sqrt(n) (|K| |U1| + |M| (|U1|+|Up|)/(beta dt^2)) (the forces vanish by cancellation in a rigid translation), update 1e-11 relative, energy drift 1e-10 * E0 * steps',
           'store model model/M_C15_Purity.v + extractor tools/vlib/extract_c15.py: Python semantics of augmented assignment (in place exactly for writable numpy.ndarray, rebinding for jax arrays / tracers), of jax.jit (the body only sees fresh immutable tracers of the arguments) and freedom from side effects of arithmetic and np.* (jax.numpy) calls are modelled by hand; cross-checked on the implementation by the purity stream (caller-held numpy / read-only numpy / jax arrays compared bit-for-bit before and after every predict / correct call of a step-doubling driver)',
           'scale streams: factors 2^k are exact in binary64, so the scaled run must equal the scaled unit run to 1e-12 normwise (observed 0); other factors 1e-9 normwise for runs, 1e-14 of the rounding scale per entry for predict / correct on arrays; additivity 1e-14 of the rounding scale',
           'theorems are over exact reals; binary64 rounding is covered only by the correspondence']
ASSUMPTIONS = ['exact real arithmetic in theorems; dt <> 0 and beta <> 0 stated explicitly (division in correct)',
               'abstract theorems: mass form m and stiffness form k are symmetric bilinear forms on fields (Section hypotheses sbf); for translation also m positive definite, k positive semi-definite, k c = 0 -- all proved for the quadrature model of the forms (C15_fe_*) except definiteness, which is proved EQUIVALENT to unisolvence of the quadrature points (premise; smallest eigenvalue of the assembled mass matrix checked numerically in every run)',
               'C15_fe_* theorems: premises on the mesh data are stated explicitly (w_q >= 0 or > 0; one shape value / gradient per element node; shape values sum to 1; shape gradients sum to 0); they follow from C03 for meshes built from reference tables satisfying RefIds / TriQuadExact (C15_c03_mesh_premises); checked numerically on fs.shapes / fs.shapeGrads / fs.vols of every problem',
               'the minimiser is an oracle returning a stationary point of the algorithmic energy (hypothesis stationary_at)',
               'general strain energies: directional differentiability (hypothesis HdSE); proved outright for the quadratic energy',
               'partition of unity of the shape functions at the quadrature points (premise of the mass theorems; property C03)',
               'linearity of the run: quadratic strain energy (linear elasticity), M positive definite (<=> unisolvence), K >= 0, beta > 0, all dt <> 0; linearity of predict / correct themselves needs nothing',
               'purity theorems quantify over every value oracle / writability / heap / argument list of the store model; that the store model describes CPython + numpy + jax is trusted (see TRUSTED) and sampled by the purity stream',
               'functional extensionality (standard library axiom) for equality of fields']
RULE = ('pressure-projection problems (own random stream): create_dynamics_functions(..., pressureProjectionDegree=0) on a structured order-2 mesh, (a) linear elastic, trapezoidal, random consistent state scaled to strains ~1e-7 (the volume-averaged-J scaling makes the energy non-quadratic at O(strain); drift tolerance 1e-6 per step, observed <= 3e-8), 8 (thorough 40) variable steps: balance against the gradient of the REPORTED strain energy, energy conservation with the reported energies; (b) neo-Hookean, random Newmark parameters, start at rest with a non-rigid velocity (displacement per step <= 3% of the node spacing), 4 (thorough 15) steps: balance and update formulas. '
        'purity stream (problems 0 and 1 of every run, trapezoidal, order 1 and 2): state held by the caller as writable numpy arrays, read-only numpy arrays and jax arrays; step-doubling driver (one step dt and two steps dt/2 from the SAME state objects, the half steps accepted) over random step sizes; after every predict / correct call the arrays handed in are compared bit-for-bit with copies taken before, predictor / update formulas are evaluated against those copies, accepted states conserve energy resp. reproduce a rigid translation. '
        'scale streams: one random consistent state per problem, run of 3 (thorough 8) variable steps, repeated from s * state for s = 2^k nearest 1e-12..1e12 (10 values), 10^k (6 values) and random factors over 24 decades, compared normwise with s * (unit run); predict / correct on arrays of 24 entries (magnitudes over six decades, some zeros; numpy and jax arguments) for the same factors plus additivity on a second random triple. '
        'mesh-integral model stream (fe_model): on three real function spaces per run (structured order 1; distorted order 2 with the under-integrating degree-2 rule; distorted order 2 fully integrated) the arrays fs.shapes / fs.shapeGrads / fs.vols / mesh.conns are fed to model/M_C15_FE.v and its kinetic, strain and algorithmic energies, mass and stiffness forms on seeded random fields (displacement amplitude 5% of the width, random predictor offset, dt over two decades) and total volume are compared with the library\'s reported energies and the jax Hessians of them; a problem is distinct by (mesh, order, rule, material constants). '
        'additional problems in every tier: element order 2 (thorough: also 3) with UNDER-integrating rules (degree 2 / 4) on distorted meshes with non-rigid initial velocity, energy measured with the library\'s own compute_output_kinetic_energy + compute_output_strain_energy; entrywise equality of the mass driving the integrator (beta dt^2 (Hessian of the algorithmic energy - K)) and the mass of the reported kinetic energy. '
        'meshes: structured, random extents and divisions, element order 1 and 2; material: linear elastic with random E, nu, density; '
        'Newmark parameters: trapezoidal and random (gamma >= 1/2, beta >= (gamma+1/2)^2/4); random initial displacement/velocity fields with '
        'consistent initial acceleration; variable time steps over two decades. Kernel inputs: random scalars over ten decades incl. exact '
        'dyadic ones. A step is non-trivial when displacement, velocity and acceleration are all non-zero; distinct = distinct (mesh, parameters, step)')
IMPORTS = ['From OV.gen Require Import Gen_Mechanics Gen_LinearElastic.', 'From OV.model Require Import M_C15_Newmark M_C15_FE.']


def fl(x):
    return C.cf(float(x))


_I = {}


def impl():
    if _I:
        return _I
    import jax
    import jax.numpy as jnp
    import numpy as onp
    import optimism  # noqa: F401
    from optimism import Mechanics, Mesh, FunctionSpace, QuadratureRule
    from optimism.material import LinearElastic, Neohookean
    _I.update(jax=jax, jnp=jnp, onp=onp, Mechanics=Mechanics, Mesh=Mesh, FS=FunctionSpace, QR=QuadratureRule, LE=LinearElastic, NH=Neohookean)
    return _I


class Problem:
    """a real DynamicsFunctions on a structured mesh plus dense-Newton minimisation of its algorithmic energy"""

    def __init__(self, Nx, Ny, xe, ye, order, E, nu, rho, gamma, beta, material='linear', qdeg=None, distort=0.0, dseed=0, mode='plane strain', ppd=None):
        I = impl()
        jax, jnp = I['jax'], I['jnp']
        qdeg = qdeg if qdeg is not None else 2 * order
        self.args = dict(Nx=Nx, Ny=Ny, xExtent=xe, yExtent=ye, order=order, E=E, nu=nu, rho=rho, gamma=gamma, beta=beta, material=material,
                         qdeg=qdeg, distort=distort, dseed=dseed, mode=mode, ppd=ppd)
        self.full_rule = qdeg >= 2 * order
        if distort > 0:
            # distorted mesh: interior vertices of the structured simplex mesh moved by a seeded random fraction of the cell size,
            # then elevated to the requested order (mid-side / interior nodes follow the straight-sided elements)
            import random as _random
            base = I['Mesh'].construct_structured_mesh(Nx, Ny, xe, ye)
            X = I['onp'].array(base.coords)
            rr = _random.Random(dseed)
            hx, hy = (xe[1] - xe[0]) / (Nx - 1), (ye[1] - ye[0]) / (Ny - 1)
            for k in range(X.shape[0]):
                interior = xe[0] + 1e-9 < X[k, 0] < xe[1] - 1e-9 and ye[0] + 1e-9 < X[k, 1] < ye[1] - 1e-9
                if interior:
                    X[k, 0] += distort * hx * rr.uniform(-1, 1)
                    X[k, 1] += distort * hy * rr.uniform(-1, 1)
            mesh = I['Mesh'].construct_mesh_from_basic_data(jnp.asarray(X), base.conns, {'block': jnp.arange(base.conns.shape[0])})
            if order > 1:
                mesh = I['Mesh'].create_higher_order_mesh_from_simplex_mesh(mesh, order)
        else:
            mesh = I['Mesh'].construct_structured_mesh(Nx, Ny, xe, ye, elementOrder=order)
        qr = I['QR'].create_quadrature_rule_on_triangle(degree=qdeg)
        self.fs = I['FS'].construct_function_space(mesh, qr, mode2D=('axisymmetric' if mode == 'axisymmetric' else 'cartesian'))
        self.mesh = mesh
        props = {'elastic modulus': E, 'poisson ratio': nu, 'density': rho}
        mat = (I['LE'] if material == 'linear' else I['NH']).create_material_model_functions(props)
        self.dyn = I['Mechanics'].create_dynamics_functions(self.fs, mode, mat, I['Mechanics'].NewmarkParameters(gamma=gamma, beta=beta),
                                                            **({} if ppd is None else dict(pressureProjectionDegree=ppd)))
        self.state = self.dyn.compute_initial_state()
        self.shape = mesh.coords.shape
        self.n = self.shape[0] * self.shape[1]
        self.rho, self.gamma, self.beta = rho, gamma, beta
        self.area = (xe[1] - xe[0]) * (ye[1] - ye[0])
        if mode == 'axisymmetric':      # volume of revolution of the rectangle about the axis r = 0
            self.area = math.pi * (xe[1] ** 2 - xe[0] ** 2) * (ye[1] - ye[0])
        self.mode = mode
        sh = self.shape
        dyn, st = self.dyn, self.state
        ealg = lambda u, up, dt: dyn.compute_algorithmic_energy(u.reshape(sh), up.reshape(sh), st, dt)
        self.ealg = jax.jit(ealg)
        self.galg = jax.jit(jax.grad(ealg, 0))
        self.halg = jax.jit(jax.hessian(ealg, 0))
        se = lambda u: dyn.compute_output_strain_energy(u.reshape(sh), st, 0.0)
        ke = lambda v: dyn.compute_output_kinetic_energy(v.reshape(sh))
        self.se, self.ke = jax.jit(se), jax.jit(ke)
        self.gse, self.gke = jax.jit(jax.grad(se)), jax.jit(jax.grad(ke))
        self.hse, self.hke = jax.jit(jax.hessian(se)), jax.jit(jax.hessian(ke))

    def op_norms(self):
        """infinity norms of the mass and (rest-state) stiffness matrices: scales of the individual terms of M A + K U before cancellation"""
        if not hasattr(self, '_norms'):
            I = impl()
            z = I['jnp'].zeros(self.n)
            M, K = I['onp'].array(self.hke(z)), I['onp'].array(self.hse(z))
            self._norms = (float(abs(M).sum(axis=1).max()), float(abs(K).sum(axis=1).max()))
        return self._norms

    def rounding_floor(self, U1, Up, dt):
        """size of the rounding error of  K U1 + M (U1 - Up) / (beta dt^2)  evaluated in binary64: each term is a sum of n products of
        the stated magnitudes (the result itself may be zero by cancellation, e.g. in a rigid translation where both forces vanish)"""
        jnp = impl()['jnp']
        Mn, Kn = self.op_norms()
        u1, up = float(jnp.max(jnp.abs(U1))), float(jnp.max(jnp.abs(Up)))
        return 1e-14 * math.sqrt(self.n) * (Kn * u1 + Mn * (u1 + up) / (self.beta * dt * dt))

    def min_detF(self, U):
        """smallest det(I + grad u) over all quadrature points (the property quantifies over uninverted configurations)"""
        I = impl()
        onp = I['onp']
        Ue = onp.array(U).reshape(self.shape)[onp.array(self.mesh.conns)]            # (ne, nen, 2)
        G = onp.einsum('eai,eqaj->eqij', Ue, onp.array(self.fs.shapeGrads))          # (ne, nq, 2, 2)
        F = G + onp.eye(2)
        d = F[..., 0, 0] * F[..., 1, 1] - F[..., 0, 1] * F[..., 1, 0]
        return float(d.min()) if onp.all(onp.isfinite(d)) else float('-inf')

    def minimise(self, up, dt, iters=3):
        I = impl()
        jnp = I['jnp']
        u = up
        for _ in range(iters if self.args['material'] == 'linear' else 12):
            g = self.galg(u, up, dt)
            H = self.halg(u, up, dt)
            u = u - jnp.linalg.solve(H, g)
        return u

    def step(self, U, V, A, dt):
        """predict; minimise; correct -- with the implementation's own predict/correct on the (n,2) arrays"""
        sh = self.shape
        Up, Vp = self.dyn.predict(U.reshape(sh), V.reshape(sh), A.reshape(sh), dt)
        Up, Vp = Up.ravel(), Vp.ravel()
        U1 = self.minimise(Up, dt)
        V1, A1 = self.dyn.correct((U1 - Up).reshape(sh), Vp.reshape(sh), A.reshape(sh), dt)
        return U1, V1.ravel(), A1.ravel(), Up


def random_problem(ctx, r, trapezoidal, order=None, material='linear', qdeg=None, distort=0.0, mode='plane strain', ppd=None):
    order = order or r.choice([1, 2])
    Nx, Ny = (r.randrange(3, 6), r.randrange(3, 5)) if order >= 2 else (r.randrange(3, 8), r.randrange(3, 7))
    xe, ye = (0.0, r.uniform(0.5, 2.0)), (0.0, r.uniform(0.2, 1.0))
    if mode == 'axisymmetric':
        r0 = r.uniform(0.3, 1.0)        # hollow cylinder: keeps u_r / r regular
        xe = (r0, r0 + xe[1])
    E, nu, rho = 10.0 ** r.uniform(0, 2), r.uniform(0.0, 0.4), 10.0 ** r.uniform(-1, 1)
    if trapezoidal:
        gamma, beta = 0.5, 0.25
    else:
        gamma = r.uniform(0.5, 1.0)
        beta = 0.25 * (gamma + 0.5) ** 2 * r.uniform(1.0, 1.5)
    return Problem(Nx, Ny, xe, ye, order, E, nu, rho, gamma, beta, material, qdeg=qdeg, distort=distort, dseed=r.randrange(1 << 30), mode=mode, ppd=ppd)


def nrm(x):
    return float(impl()['jnp'].linalg.norm(x))


def check_steps(ctx, P, r, nsteps, kind, distinct, init=None, dts_fixed=None, amp_factor=1.0, drift_rtol=1e-10, rest_start=False, tag=''):
    """run nsteps of the real integrator; returns number of steps.  kind: 'general' | 'energy' | 'translation'.
    init = (U, V, A) and dts_fixed replay a recorded state exactly (every failure case stores U0, V0, A0 and the step sizes)"""
    I = impl()
    jnp, onp = I['jnp'], I['onp']
    n = P.n
    Lx = P.args['xExtent'][1]
    amp = 0.05 * Lx * amp_factor
    a_ = P.args
    hmin = min((a_['xExtent'][1] - a_['xExtent'][0]) / (a_['Nx'] - 1), (a_['yExtent'][1] - a_['yExtent'][0]) / (a_['Ny'] - 1)) / a_['order']
    dt_unit = Lx / math.sqrt(P.args['E'] / P.rho) * 10
    dt_max = 10.0 ** -0.5 * dt_unit
    if P.args['material'] != 'linear':
        # a finite-strain material is only defined for det(I + grad u) > 0: keep the random nodal displacements well below the node spacing
        # (0.05 * Lx can exceed the element height of a thin mesh and invert elements -- an inadmissible state, not a library failure);
        # the start state is then TESTED for det F > 0.4 below and every later state is tested again
        amp = min(amp, 0.1 * hmin)
    nonlinear = P.args['material'] != 'linear'
    c, off = (0.0, 0.0), (0.0, 0.0)
    if init is not None:
        U, V, A = (jnp.array(x, dtype=float) for x in init)
        if kind == 'translation':
            c, off = (float(V[0]), float(V[1])), (float(U[0]), float(U[1]))
    elif kind == 'translation':
        c = (r.uniform(-1, 1), r.uniform(-1, 1))
        off = (r.uniform(-1, 1), r.uniform(-1, 1)) if r.random() < 0.5 else (0.0, 0.0)
        if P.mode == 'axisymmetric':      # only the axial translation is a rigid motion of a body of revolution
            c, off = (0.0, c[1]), (0.0, off[1])
        U = jnp.tile(jnp.array(off), P.shape[0])
        V = jnp.tile(jnp.array(c), P.shape[0])
        A = jnp.zeros(n)
    else:
        V = jnp.array([r.uniform(-1, 1) for _ in range(n)]) * amp_factor
        if nonlinear:
            # keep the motion inside the uninverted range over the run: velocity * largest step well below the node spacing
            V = V * (0.1 * hmin / dt_max)
        if P.full_rule and not rest_start:
            U = jnp.array([r.uniform(-amp, amp) for _ in range(n)])
            # consistent initial acceleration: M A0 + fint(U0) = 0
            M = P.hke(jnp.zeros(n))
            A = -jnp.linalg.solve(M, P.gse(U))
        else:
            # under-integrating rule: the mass matrix may be singular; start from rest position (fint = 0, A0 = 0 is consistent)
            U = jnp.zeros(n)
            A = jnp.zeros(n)
    if init is None and nonlinear:
        # admissible start: det(I + grad u) > 0.4 at every quadrature point (components and neighbouring nodes can add up, so test, not estimate)
        shrink = 0
        while P.min_detF(U) <= 0.4 and shrink < 60:
            U, shrink = 0.5 * U, shrink + 1
        A = -jnp.linalg.solve(P.hke(jnp.zeros(n)), P.gse(U)) if P.full_rule else A
        ctx.cov['nonlinear_start_min_detF'] = P.min_detF(U)
    case0 = dict(fn='newmark', kind=kind, drift_rtol=drift_rtol, U0=[float(x) for x in U], V0=[float(x) for x in V], A0=[float(x) for x in A], **P.args)
    E0 = float(P.ke(V) + P.se(U))
    if not (math.isfinite(E0) and bool(jnp.all(jnp.isfinite(A)))):
        ctx.fail('conclusion', 'initial energy or consistent initial acceleration is not finite (E0 = %r): the reported kinetic/strain '
                 'energies or their derivatives are NaN/inf on an admissible state' % E0, case=case0, concrete=True)
        return 0
    U0, t = U, 0.0
    dts = []
    worst = dict(balance=0.0, stationarity=0.0, update=0.0, drift=0.0, translation=0.0)
    for k in range(nsteps):
        dt = float(dts_fixed[k]) if dts_fixed is not None and k < len(dts_fixed) else 10.0 ** r.uniform(-2.5, -0.5) * dt_unit
        dts.append(dt)
        U1, V1, A1, Up = P.step(U, V, A, dt)
        case = dict(case0, step=k, dts=list(dts), seed_stream=kind)
        if nonlinear and not P.min_detF(U1) > 0.4:
            ctx.notes.append('finite-strain run left the uninverted range (min det F = %.3g) at step %d: stream stopped there' % (P.min_detF(U1), k))
            return k
        floor = P.rounding_floor(U1, Up, dt)
        # (a) the harness' minimiser did its job (not a property clause; guards the other checks)
        g = P.galg(U1, Up, dt)
        fi, ma = P.gse(U1), P.gke(A1)
        fsc = nrm(fi) + nrm(ma) + 1e-300
        if fsc > 1e-6:
            worst['stationarity'] = max(worst['stationarity'], nrm(g) / fsc)
        if not (nrm(g) <= 1e-8 * fsc + 1e-12 + floor):
            ctx.notes.append('harness Newton solve did not converge at step %d (%s): |grad| = %.3g' % (k, kind, nrm(g)))
            if P.args['material'] == 'linear':
                # the algorithmic energy of a linear-elastic body is a convex quadratic: Newton on its exact Hessian cannot fail unless
                # the energy / its derivatives are not what compute_newmark_lagrangian promises (NaN, indefinite or inconsistent Hessian)
                ctx.fail('correspondence', 'dense Newton on the quadratic algorithmic energy did not reach a stationary point at step %d (%s): '
                         '|grad| = %r, forces %r' % (k, kind, nrm(g), fsc), case=case)
            return k
        # (b) balance of momentum at the new time: M A1 + fint(U1) = 0
        res = nrm(fi + ma)
        if fsc > 1e-6:
            worst['balance'] = max(worst['balance'], res / fsc)
        if not (res <= 1e-8 * fsc + 1e-12 + floor):
            ctx.fail('conclusion', 'balance of momentum violated after the step: |M A1 + fint(U1)| = %.3g (forces %.3g)' % (res, fsc), case=case, concrete=True)
        # (c) Newmark update formulas
        b_, g_ = P.beta, P.gamma
        eu = nrm(U1 - (U + dt * V + dt * dt * ((0.5 - b_) * A + b_ * A1)))
        ev = nrm(V1 - (V + dt * ((1 - g_) * A + g_ * A1)))
        usc = nrm(U1) + dt * nrm(V) + dt * dt * (nrm(A) + nrm(A1)) + 1e-300
        vsc = nrm(V1) + dt * (nrm(A) + nrm(A1)) + 1e-300
        worst['update'] = max(worst['update'], eu / usc, ev / vsc)
        if not (eu <= 1e-11 * usc and ev <= 1e-11 * vsc):
            ctx.fail('conclusion', 'Newmark update formulas violated: |dU| = %.3g (scale %.3g), |dV| = %.3g (scale %.3g)' % (eu, usc, ev, vsc), case=case, concrete=True)
        U, V, A = U1, V1, A1
        t += dt
        if kind == 'energy':
            En = float(P.ke(V) + P.se(U))
            drift = abs(En - E0) / E0
            worst['drift'] = max(worst['drift'], drift)
            if not (drift <= drift_rtol * (k + 1) + 1e-12):
                ctx.fail('conclusion', 'total energy not conserved with trapezoidal parameters: E0 = %r, E after %d steps = %r (relative drift %.3g)'
                         % (E0, k + 1, En, drift), case=case, concrete=True)
                break
        if kind == 'translation':
            exact = U0 + t * jnp.tile(jnp.array(c), P.shape[0])
            err = float(jnp.max(jnp.abs(U - exact)))
            worst['translation'] = max(worst['translation'], err)
            if not (err <= 1e-11 * (1 + t * max(abs(c[0]), abs(c[1]))) and float(jnp.max(jnp.abs(A))) <= 1e-8):
                ctx.fail('conclusion', 'rigid translation at constant velocity not reproduced: max error %.3g after %d steps (t = %.3g), max |A| = %.3g'
                         % (err, k + 1, t, float(jnp.max(jnp.abs(A)))), case=dict(case, c=c, offset=off), concrete=True)
                break
        if kind != 'translation':
            distinct.add((json.dumps(P.args, sort_keys=True), kind, k))
    for kk, v in worst.items():
        ctx.cov.setdefault('worst_' + tag + kk, 0.0)
        ctx.cov['worst_' + tag + kk] = max(ctx.cov['worst_' + tag + kk], v)
    return nsteps


def check_hypotheses_and_mass(ctx, P, r):
    """the Section hypotheses of the theorems, and the mass clauses, on the assembled forms of a real function space"""
    I = impl()
    jnp, onp = I['jnp'], I['onp']
    n = P.n
    case = dict(fn='forms', **P.args)
    M = onp.array(P.hke(jnp.zeros(n)))
    K = onp.array(P.hse(jnp.zeros(n)))
    msc, ksc = abs(M).max(), abs(K).max()
    if not (onp.all(onp.isfinite(M)) and onp.all(onp.isfinite(K))):
        ctx.fail('conclusion', 'Hessian of the reported kinetic or strain energy at the rest state is not finite (NaN/inf entries)', case=case, concrete=True)
        return dict(M=M, K=K, sxx=float('nan'))
    if not (abs(M - M.T).max() <= 1e-12 * msc and abs(K - K.T).max() <= 1e-12 * ksc):
        ctx.fail('conclusion', 'mass or stiffness form is not symmetric', case=case, concrete=True)
    ev = onp.linalg.eigvalsh(0.5 * (M + M.T))
    ek = onp.linalg.eigvalsh(0.5 * (K + K.T))
    # the mass that DRIVES the integrator (inertia term of the algorithmic energy: beta dt^2 * (Hessian of E_alg - K)) must be the
    # mass implied by the REPORTED kinetic energy (Hessian of compute_output_kinetic_energy), entry by entry
    dt_ = 0.37
    z = jnp.zeros(n)
    Malg = P.beta * dt_ * dt_ * (onp.array(P.halg(z, z, dt_)) - K)
    dev = abs(Malg - M).max() if onp.all(onp.isfinite(Malg)) else float('nan')
    if not dev <= 1e-9 * msc:
        ctx.fail('conclusion', 'mass of the algorithmic energy differs from the mass of compute_output_kinetic_energy: max entry difference %.3g (scale %.3g)'
                 % (dev, msc), case=case, concrete=True)
    if not P.full_rule:
        if ev.min() < -1e-10 * msc:
            ctx.fail('conclusion', 'mass matrix has a negative eigenvalue %r' % ev.min(), case=case, concrete=True)
    elif ev.min() <= 0:
        ctx.fail('conclusion', 'consistent mass matrix is not positive definite: min eigenvalue %r' % ev.min(), case=case, concrete=True)
    if ek.min() < -1e-9 * ksc:
        ctx.fail('conclusion', 'linear-elastic stiffness is not positive semi-definite: min eigenvalue %r' % ek.min(), case=case, concrete=True)
    cx = onp.tile([1.0, 0.0], P.shape[0])
    cy = onp.tile([0.0, 1.0], P.shape[0])
    if not ((P.mode == 'axisymmetric' or abs(K @ cx).max() <= 1e-9 * ksc) and abs(K @ cy).max() <= 1e-9 * ksc):
        ctx.fail('conclusion', 'K c <> 0 for a rigid translation c', case=case, concrete=True)
    # quadratic forms really are the energies
    v = onp.array([r.uniform(-1, 1) for _ in range(n)])
    if not (abs(float(P.ke(jnp.array(v))) - 0.5 * v @ M @ v) <= 1e-10 * msc * n):
        ctx.fail('conclusion', 'kinetic energy is not 1/2 V.M.V', case=case, concrete=True)
    # total mass
    target = P.rho * P.area
    tot_x, tot_y, cross = cx @ M @ cx, cy @ M @ cy, cx @ M @ cy
    if not (abs(tot_x - target) <= 1e-11 * target and abs(tot_y - target) <= 1e-11 * target and abs(cross) <= 1e-11 * target):
        ctx.fail('conclusion', 'consistent mass does not sum to density*area: sum_xx = %r, sum_yy = %r, density*area = %r' % (tot_x, tot_y, target), case=case, concrete=True)
    em = onp.array(P.dyn.compute_element_masses())
    ne = em.shape[0]
    em = em.reshape(ne, -1, 2, em.shape[-2] if em.ndim == 5 else em.shape[1] // 1, 2) if em.ndim == 5 else em
    sxx = float(em[:, :, 0, :, 0].sum()) if em.ndim == 5 else float('nan')
    if em.ndim != 5:
        ctx.fail('correspondence', 'compute_element_masses returns an array of shape %r, expected (elements, nodes, 2, nodes, 2)' % (em.shape,), case=case)
    if em.ndim == 5 and not (abs(sxx - target) <= 1e-11 * target):
        ctx.fail('conclusion', 'compute_element_masses: x-x entries sum to %r but density*area = %r' % (sxx, target), case=case, concrete=True)
    if em.ndim == 5:
        # entry by entry: the element mass matrices scattered through the connectivity ARE the consistent mass matrix implied by the
        # reported kinetic energy (catches a redistribution of mass that keeps the total, e.g. lumping or a different quadrature)
        conns = onp.array(P.mesh.conns)
        Ma = onp.zeros((n, n))
        nen = conns.shape[1]
        for e_ in range(ne):
            dofs = onp.array([[2 * conns[e_, a], 2 * conns[e_, a] + 1] for a in range(nen)]).ravel()
            Ma[onp.ix_(dofs, dofs)] += em[e_].reshape(2 * nen, 2 * nen)
        devm = abs(Ma - M).max()
        if not (devm <= 1e-11 * msc):
            ctx.fail('conclusion', 'assembled compute_element_masses differs from the mass matrix of compute_output_kinetic_energy: max entry difference %.3g (scale %.3g)'
                     % (devm, msc), case=case, concrete=True)
    vel = (r.uniform(-3, 3), r.uniform(-3, 3))
    T = float(P.ke(jnp.tile(jnp.array(vel), P.shape[0])))
    Tex = 0.5 * target * (vel[0] ** 2 + vel[1] ** 2)
    if not (abs(T - Tex) <= 1e-11 * Tex):
        ctx.fail('conclusion', 'kinetic energy of a rigid velocity %r is %r, expected 1/2 rho area |v|^2 = %r' % (vel, T, Tex), case=case, concrete=True)
    ctx.cov['element_mass_array_shape'] = list(onp.array(P.dyn.compute_element_masses()).shape)
    # premises of the C15_fe_* theorems on the real tables of this function space: positive volume weights, one shape value / gradient per
    # element node, shape values sum to 1 and shape gradients to 0 at every quadrature point (C03's identities, here on the actual arrays)
    shp, grd, vol = onp.array(P.fs.shapes), onp.array(P.fs.shapeGrads), onp.array(P.fs.vols)
    nen = onp.array(P.mesh.conns).shape[1]
    if not (shp.shape[2] == nen and grd.shape[2] == nen and grd.shape[3] == 2 and shp.shape[:2] == vol.shape and grd.shape[:2] == vol.shape):
        ctx.fail('correspondence', 'function-space arrays do not have one shape value / gradient per element node and quadrature point: shapes %r shapeGrads %r vols %r conns %r'
                 % (shp.shape, grd.shape, vol.shape, onp.array(P.mesh.conns).shape), case=case)
    else:
        pou_def = float(abs(shp.sum(axis=2) - 1).max())
        gs_def = float(abs(grd.sum(axis=2)).max() / max(abs(grd).max(), 1e-300))
        ctx.cov['worst_shape_sum_defect'] = max(ctx.cov.get('worst_shape_sum_defect', 0.0), pou_def)
        ctx.cov['worst_grad_sum_defect_rel'] = max(ctx.cov.get('worst_grad_sum_defect_rel', 0.0), gs_def)
        if not (vol.min() > 0):
            ctx.fail('conclusion', 'a quadrature-point volume weight is not positive (min %r): premise w_q > 0 of the definiteness theorems' % float(vol.min()), case=case, concrete=True)
        if not (pou_def <= 1e-12 and gs_def <= 1e-11):
            ctx.fail('conclusion', 'shape functions do not sum to 1 (defect %r) or their gradients not to 0 (relative defect %r) at a quadrature point: '
                     'premises of the mass-total and K c = 0 theorems' % (pou_def, gs_def), case=case, concrete=True)
    return dict(M=M, K=K, sxx=sxx)


# ----------------------------------------------------------------------------- purity of predict / correct (caller's state not mutated)

ARRAY_KINDS = ('numpy', 'numpy-readonly', 'jax')


def as_kind(x, akind):
    """a fresh array of the requested kind holding the values of x (numpy: writable C array, as restored from a checkpoint file;
    numpy-readonly: the same with the WRITEABLE flag cleared, as given by onp.load(mmap_mode='r') / a broadcast view; jax: jax.numpy)"""
    I = impl()
    a = I['onp'].array(x, dtype=float, copy=True)
    if akind == 'jax':
        return I['jnp'].array(a)
    if akind == 'numpy-readonly':
        a.setflags(write=False)
    return a


def _unchanged(ctx, names, arrays, copies, where, case):
    """the caller's objects hold bit-for-bit what they held before the call"""
    onp = impl()['onp']
    ok = True
    for nm, a, c in zip(names, arrays, copies):
        b = onp.asarray(a)
        if b.shape != c.shape or not onp.array_equal(b, c, equal_nan=True):
            k = int(onp.argmax(onp.abs(b - c).ravel())) if b.shape == c.shape else -1
            ctx.fail('conclusion', '%s changed the caller\'s array %s in place (%s state): entry %d was %r and is %r after the call -- predict/correct '
                     'are functions of the old state; the state handed to them must still be the old state afterwards'
                     % (where, nm, case['array_kind'], k, float(c.ravel()[k]) if k >= 0 else None, float(b.ravel()[k]) if k >= 0 else None),
                     case=case, concrete=True)
            ok = False
    return ok


def pure_step(ctx, P, U, V, A, dt, akind, case, worst, keep=None):
    """one Newmark step with the implementation's predict / correct called on the CALLER'S arrays (kind akind), asserting that (i) the arrays
    handed in are unchanged afterwards and (ii) the Newmark predictor / update formulas hold against the ORIGINAL state (copies taken before
    the calls).  Returns the new state as fresh arrays of the same kind, or None after a failure."""
    I = impl()
    jnp, onp = I['jnp'], I['onp']
    b_, g_ = P.beta, P.gamma
    U0, V0, A0 = (onp.array(x, dtype=float, copy=True) for x in (U, V, A))
    out = None
    with ctx.guarded('predict on %s state' % akind, case):
        out = P.dyn.predict(U, V, A, dt)
    if out is None:
        return None
    Up, Vp = out
    ok = _unchanged(ctx, ('U', 'V', 'A'), (U, V, A), (U0, V0, A0), 'predict(U, V, A, dt=%r)' % dt, case)
    Upn, Vpn = onp.array(Up, dtype=float, copy=True), onp.array(Vp, dtype=float, copy=True)
    if keep is not None:      # the RESULT objects of this call, held by the driver while it goes on calling predict / correct
        keep.append(('predict(dt=%r)' % dt, ('U_predicted', 'V_predicted'), (Up, Vp), (Upn.copy(), Vpn.copy())))
    eup = onp.linalg.norm(Upn - (U0 + dt * V0 + 0.5 * dt * dt * (1.0 - 2.0 * b_) * A0))
    evp = onp.linalg.norm(Vpn - (V0 + dt * (1.0 - g_) * A0))
    usc = onp.linalg.norm(U0) + dt * onp.linalg.norm(V0) + dt * dt * onp.linalg.norm(A0) + 1e-300
    vsc = onp.linalg.norm(V0) + dt * onp.linalg.norm(A0) + 1e-300
    worst['predictor'] = max(worst.get('predictor', 0.0), eup / usc, evp / vsc)
    if not (eup <= 1e-13 * usc and evp <= 1e-13 * vsc):
        ctx.fail('conclusion', 'predictor formulas violated against the state the step was started from (%s state): |Up - (U + dt V + dt^2 (1/2 - beta) A)| = %.3g '
                 '(scale %.3g), |Vp - (V + dt (1 - gamma) A)| = %.3g (scale %.3g)' % (akind, eup, usc, evp, vsc), case=case, concrete=True)
        ok = False
    U1 = onp.array(P.minimise(jnp.array(Upn).ravel(), dt)).reshape(P.shape)
    # correct(UCorrection, Vp, A, dt) on caller-held arrays of the same kind
    UC, Vpk = as_kind(U1 - Upn, akind), as_kind(Vpn, akind)
    UCc, Vpc = onp.array(UC, copy=True), onp.array(Vpk, copy=True)
    out = None
    with ctx.guarded('correct on %s state' % akind, case):
        out = P.dyn.correct(UC, Vpk, A, dt)
    if out is None:
        return None
    V1, A1 = (onp.array(x, dtype=float, copy=True) for x in out)
    if keep is not None:
        keep.append(('correct(dt=%r)' % dt, ('V_new', 'A_new'), tuple(out), (V1.copy(), A1.copy())))
    ok = _unchanged(ctx, ('UCorrection', 'V', 'A'), (UC, Vpk, A), (UCc, Vpc, A0), 'correct(UCorrection, V, A, dt=%r)' % dt, case) and ok
    eu = onp.linalg.norm(U1 - (U0 + dt * V0 + dt * dt * ((0.5 - b_) * A0 + b_ * A1)))
    ev = onp.linalg.norm(V1 - (V0 + dt * ((1 - g_) * A0 + g_ * A1)))
    usc = onp.linalg.norm(U1) + dt * onp.linalg.norm(V0) + dt * dt * (onp.linalg.norm(A0) + onp.linalg.norm(A1)) + 1e-300
    vsc = onp.linalg.norm(V1) + dt * (onp.linalg.norm(A0) + onp.linalg.norm(A1)) + 1e-300
    worst['update'] = max(worst.get('update', 0.0), eu / usc, ev / vsc)
    if not (eu <= 1e-11 * usc and ev <= 1e-11 * vsc):
        ctx.fail('conclusion', 'Newmark update formulas violated against the state the step was started from (%s state held by the caller): |dU| = %.3g (scale %.3g), '
                 '|dV| = %.3g (scale %.3g)' % (akind, eu, usc, ev, vsc), case=case, concrete=True)
        ok = False
    return (as_kind(U1, akind), as_kind(V1, akind), as_kind(A1, akind)) if ok else None


def purity_case(ctx, P, akind, U, V, A, dts, kind='energy'):
    """step-doubling driver on caller-held state of kind akind: from the SAME (U, V, A) one step dt and two steps dt/2 (the two half steps are
    accepted); every call asserts purity and the formulas against the original state; accepted states conserve energy (trapezoidal, linear
    elastic) / reproduce the rigid translation.  Returns the number of steps taken."""
    I = impl()
    jnp, onp = I['jnp'], I['onp']
    case = dict(fn='newmark_purity', kind=kind, array_kind=akind, U0=[float(x) for x in onp.asarray(U).ravel()], V0=[float(x) for x in onp.asarray(V).ravel()],
                A0=[float(x) for x in onp.asarray(A).ravel()], dts=[float(d) for d in dts], **P.args)
    sh = P.shape
    U, V, A = (as_kind(onp.asarray(x, dtype=float).reshape(sh), akind) for x in (U, V, A))
    Ustart, Vstart = onp.array(U, copy=True), onp.array(V, copy=True)
    E0 = float(P.ke(jnp.array(Vstart).ravel()) + P.se(jnp.array(Ustart).ravel()))
    worst = {}
    steps, t = 0, 0.0
    for k, dt in enumerate(dts):
        c = dict(case, step=k)
        keep = []
        coarse = pure_step(ctx, P, U, V, A, dt, akind, c, worst, keep)
        half = pure_step(ctx, P, U, V, A, 0.5 * dt, akind, c, worst, keep)     # the SAME old state handed to predict a second time
        steps += 2
        if coarse is None or half is None:
            break
        fine = pure_step(ctx, P, *half, 0.5 * dt, akind, c, worst, keep)
        steps += 1
        # results of earlier calls (the coarse solution kept for the error estimate) are not touched by later calls
        kept_ok = all([_unchanged(ctx, nms, objs, cps, 'a later predict / correct call, to the kept result of %s,' % wh, c) for wh, nms, objs, cps in keep])
        if fine is None or not kept_ok:
            break
        U, V, A = fine
        t += dt
        if kind == 'energy' and E0 > 0:
            En = float(P.ke(jnp.array(onp.asarray(V)).ravel()) + P.se(jnp.array(onp.asarray(U)).ravel()))
            drift = abs(En - E0) / E0
            worst['drift'] = max(worst.get('drift', 0.0), drift)
            if not drift <= 1e-10 * (2 * k + 2) + 1e-12:
                ctx.fail('conclusion', 'energy of the accepted states of a step-doubling driver (%s state) not conserved: E0 = %r, after %d accepted steps %r (relative drift %.3g)'
                         % (akind, E0, k + 1, En, drift), case=c, concrete=True)
                break
        if kind == 'translation':
            exact = Ustart + t * Vstart
            err = float(onp.max(onp.abs(onp.asarray(U) - exact)))
            worst['translation'] = max(worst.get('translation', 0.0), err)
            if not err <= 1e-11 * (1 + t * float(onp.max(onp.abs(Vstart)))):
                ctx.fail('conclusion', 'rigid translation not reproduced by a step-doubling driver (%s state): max error %.3g at t = %.3g' % (akind, err, t), case=c, concrete=True)
                break
    for kk, v in worst.items():
        ctx.cov['worst_purity_' + kk] = max(ctx.cov.get('worst_purity_' + kk, 0.0), float(v))
    return steps


def purity_stream(ctx, P, r, rounds):
    """purity + formulas-against-the-original-state on problem P (trapezoidal, linear elastic) for every array kind"""
    I = impl()
    jnp, onp = I['jnp'], I['onp']
    n = P.n
    Lx = P.args['xExtent'][1]
    dt_unit = Lx / math.sqrt(P.args['E'] / P.rho) * 10
    steps = 0
    for akind in ARRAY_KINDS:
        V = onp.array([r.uniform(-1, 1) for _ in range(n)])
        U = onp.array([r.uniform(-0.05 * Lx, 0.05 * Lx) for _ in range(n)])
        A = onp.array(-jnp.linalg.solve(P.hke(jnp.zeros(n)), P.gse(jnp.array(U))))
        dts = [10.0 ** r.uniform(-2.0, -0.5) * dt_unit for _ in range(rounds)]
        steps += purity_case(ctx, P, akind, U, V, A, dts, 'energy')
        ctx.count('purity_steps_' + akind.replace('-', '_'), 3 * rounds)
        c = (r.uniform(-1, 1), r.uniform(-1, 1))
        steps += purity_case(ctx, P, akind, onp.zeros(n), onp.tile(onp.array(c), P.shape[0]), onp.zeros(n), dts[:max(1, rounds // 2)], 'translation')
    return steps


# ----------------------------------------------------------------------------- scale invariance (the update is linear in the state)

def scale_list(ctx, r):
    """amplitude factors over 1e-12 .. 1e12: powers of two (scaling by them is exact in binary64, so a linear scheme must reproduce the scaled
    unit-amplitude run to the last bit) and powers of ten / random factors (rounding-level relative differences only)"""
    out = []
    for e10 in (-12, -10, -8, -6, -3, 3, 6, 8, 10, 12):
        out.append((math.ldexp(1.0, round(e10 * math.log2(10))), 'pow2'))
    for e10 in (-12, -9, -5, 5, 9, 12):
        out.append((10.0 ** e10, 'pow10'))
    for _ in range(ctx.n(2, 8)):
        out.append((r.uniform(1, 10) * 10.0 ** r.randrange(-12, 12), 'rand'))
    return out


def run_plain(P, U, V, A, dts):
    """states after each step of the real integrator started from jax state (U, V, A) (flat arrays)"""
    out = []
    for dt in dts:
        U, V, A, Up = P.step(U, V, A, dt)
        out.append((U, V, A, Up))
    return out


def scale_case(ctx, P, U, V, A, dts, s, skind, ref=None):
    """the run started from s * (U, V, A) is s * (the run started from (U, V, A)), for linear elasticity (Newmark's update is linear)"""
    I = impl()
    jnp = I['jnp']
    U, V, A = (jnp.array(x, dtype=float) for x in (U, V, A))
    ref = ref if ref is not None else run_plain(P, U, V, A, dts)
    got = run_plain(P, s * U, s * V, s * A, dts)
    case = dict(fn='newmark_scale', scale=s, scale_kind=skind, U0=[float(x) for x in U], V0=[float(x) for x in V], A0=[float(x) for x in A],
                dts=[float(d) for d in dts], **P.args)
    # powers of two: exact scaling of every intermediate result (1e-12 leaves room for a differently fused reduction only)
    tol = 1e-12 if skind == 'pow2' else 1e-9
    worst = 0.0
    for k, ((Ur, Vr, Ar, Upr), (Us, Vs, As, Ups), dt) in enumerate(zip(ref, got, dts)):
        asc = nrm(Ar) + (nrm(Ur) + nrm(Upr)) / (P.beta * dt * dt)        # rounding scale of A = (U1 - Up) / (beta dt^2)
        vsc = nrm(Vr) + dt * asc
        for nm, x, y, sc in (('U', Us, Ur, nrm(Ur)), ('V', Vs, Vr, vsc), ('A', As, Ar, asc if skind != 'pow2' else nrm(Ar))):
            err = nrm(x - s * y) / (abs(s) * sc + 1e-300)
            worst = max(worst, err)
            if not err <= tol:
                ctx.fail('conclusion', 'Newmark step is not scale invariant (linear elastic body, no loads): started from %.17g * (U0, V0, A0) the %s after step %d differs from '
                         '%.17g * (the %s of the run started from (U0, V0, A0)) by %.3g relative to its size (allowed %.1g); |%s| of the scaled run %.3g, expected %.3g'
                         % (s, nm, k + 1, s, nm, err, tol, nm, nrm(x), abs(s) * nrm(y)), case=dict(case, step=k), concrete=True)
                return worst, ref
        Er, Es = float(P.ke(Vr) + P.se(Ur)), float(P.ke(Vs) + P.se(Us))
        if not abs(Es - s * s * Er) <= tol * s * s * abs(Er):
            ctx.fail('conclusion', 'kinetic + strain energy reported for the run started from %.17g * (U0, V0, A0) after step %d is %r, but s^2 * (energy of the unit run) = %r: '
                     'the reported energies are quadratic forms of the state' % (s, k + 1, Es, s * s * Er), case=dict(case, step=k), concrete=True)
            return worst, ref
    return worst, ref


def scale_stream(ctx, P, r, nsteps):
    I = impl()
    jnp, onp = I['jnp'], I['onp']
    n = P.n
    Lx = P.args['xExtent'][1]
    dt_unit = Lx / math.sqrt(P.args['E'] / P.rho) * 10
    V = jnp.array([r.uniform(-1, 1) for _ in range(n)])
    U = jnp.array([r.uniform(-0.05 * Lx, 0.05 * Lx) for _ in range(n)])
    A = -jnp.linalg.solve(P.hke(jnp.zeros(n)), P.gse(U))
    dts = [10.0 ** r.uniform(-2.5, -0.5) * dt_unit for _ in range(nsteps)]
    ref, worst = None, {}
    scales = scale_list(ctx, r)
    for s, skind in scales:
        w, ref = scale_case(ctx, P, U, V, A, dts, s, skind, ref)
        worst[skind] = max(worst.get(skind, 0.0), w)
        ctx.count('scale_runs_' + skind)
    for kk, v in worst.items():
        ctx.cov['worst_scale_invariance_defect_' + kk] = max(ctx.cov.get('worst_scale_invariance_defect_' + kk, 0.0), v)
    return len(scales) * nsteps


def kernel_scale_and_additivity(ctx, r):
    """predict / correct of a real DynamicsFunctions on arrays: f(s x) = s f(x) for s over 1e-12..1e12 (exactly for powers of two) and
    f(x + y) = f(x) + f(y) (to rounding).  The arrays play (U, V, A) resp. (UCorrection, V, A); magnitudes of the unit run over ten decades."""
    I = impl()
    jnp, onp = I['jnp'], I['onp']
    P0fs = _fs_small()
    mat = I['LE'].create_material_model_functions({'elastic modulus': 1.0, 'poisson ratio': 0.3, 'density': 1.0})
    ncase = 0
    worst = dict(pow2=0.0, other=0.0, add=0.0)
    for _ in range(ctx.n(4, 20)):
        g = r.choice([0.5, r.uniform(0.5, 1.0)])
        b = r.choice([0.25, 0.25 * (g + 0.5) ** 2 * r.uniform(1, 1.5)])
        dyn = I['Mechanics'].create_dynamics_functions(P0fs, 'plane strain', mat, I['Mechanics'].NewmarkParameters(gamma=g, beta=b))
        dt = 10.0 ** r.uniform(-4, 1)
        m = 24
        mag = lambda: [r.choice([-1, 1]) * 10.0 ** r.uniform(-3, 3) if r.random() > 0.05 else 0.0 for _ in range(m)]
        X = [onp.array(mag()) for _ in range(3)]
        Y = [onp.array(mag()) for _ in range(3)]
        fns = (('predict', dyn.predict), ('correct', dyn.correct))
        unit = {nm: [onp.array(o) for o in f(*(jnp.array(x) for x in X), dt)] for nm, f in fns}
        uy = {nm: [onp.array(o) for o in f(*(jnp.array(x) for x in Y), dt)] for nm, f in fns}
        # rounding scales of the two outputs of each function (sum of the magnitudes of the terms)
        aX = [onp.abs(x) for x in X]
        rs = dict(predict=[aX[0] + dt * aX[1] + dt * dt * aX[2], aX[1] + dt * aX[2]],
                  correct=[aX[1] + aX[0] / (b * dt), aX[0] / (b * dt * dt)])
        for s, skind in scale_list(ctx, r):
            for nm, f in fns:
                for akind in ('jax', 'numpy'):
                    args = [as_kind(s * x, akind) for x in X]
                    out = [onp.array(o) for o in f(*args, dt)]
                    ncase += 1
                    for j, (o, u, sc) in enumerate(zip(out, unit[nm], rs[nm])):
                        tol = (4e-16 if skind == 'pow2' else 1e-14) * abs(s) * sc
                        d = onp.abs(o - s * u)
                        bad = onp.nonzero(~(d <= tol))[0]
                        rel = float(onp.max(d / (abs(s) * sc + 1e-300)))
                        key = 'pow2' if skind == 'pow2' else 'other'
                        worst[key] = max(worst[key], rel)
                        if bad.size:
                            i = int(bad[0])
                            ctx.fail('conclusion', '%s is not homogeneous: with (gamma, beta, dt) = (%r, %r, %r) and arguments %.17g * (%r, %r, %r) output %d is %r, '
                                     'but %.17g * (output for (%r, %r, %r)) = %r (difference %.3g, allowed %.3g): the Newmark update is linear in the state'
                                     % (nm, g, b, dt, s, float(X[0][i]), float(X[1][i]), float(X[2][i]), j, float(o[i]), s, float(X[0][i]), float(X[1][i]), float(X[2][i]), float(s * u[i]), float(d[i]), float(tol[i])),
                                     case=dict(fn='kernel_scale', which=nm, gamma=g, beta=b, dt=dt, scale=s, x=[float(X[0][i]), float(X[1][i]), float(X[2][i])],
                                               array_kind=akind, output=j), concrete=True)
                            return ncase
        for nm, f in fns:
            out = [onp.array(o) for o in f(*(jnp.array(x + y) for x, y in zip(X, Y)), dt)]
            aY = [onp.abs(y) for y in Y]
            rsy = dict(predict=[aY[0] + dt * aY[1] + dt * dt * aY[2], aY[1] + dt * aY[2]], correct=[aY[1] + aY[0] / (b * dt), aY[0] / (b * dt * dt)])
            ncase += 1
            for j, (o, u, v) in enumerate(zip(out, unit[nm], uy[nm])):
                sc = rs[nm][j] + rsy[nm][j]
                d = onp.abs(o - (u + v))
                worst['add'] = max(worst['add'], float(onp.max(d / (sc + 1e-300))))
                bad = onp.nonzero(~(d <= 1e-14 * sc))[0]
                if bad.size:
                    i = int(bad[0])
                    ctx.fail('conclusion', '%s is not additive: (gamma, beta, dt) = (%r, %r, %r), x = (%r, %r, %r), y = (%r, %r, %r): output %d of x + y is %r but the outputs add up to %r'
                             % (nm, g, b, dt, float(X[0][i]), float(X[1][i]), float(X[2][i]), float(Y[0][i]), float(Y[1][i]), float(Y[2][i]), j, float(o[i]), float(u[i] + v[i])),
                             case=dict(fn='kernel_add', which=nm, gamma=g, beta=b, dt=dt, x=[float(X[k][i]) for k in range(3)], y=[float(Y[k][i]) for k in range(3)], output=j),
                             concrete=True)
                    return ncase
    for kk, v in worst.items():
        ctx.cov['worst_kernel_linearity_defect_' + kk] = v
    return ncase


# ----------------------------------------------------------------------------- store tie: model/M_C15_Purity.v vs CPython / numpy / jax

def store_tie_impl(ctx, r):
    """observable store behaviour of the real function objects: for predict / correct, called (a) as the raw Python function
    (f.__wrapped__ of the jitted object, or f itself when it is handed out unwrapped) and (b) as handed out by the factory, on writable numpy
    and on jax arrays: which argument objects were written, which returned objects ARE argument objects.  Returns (coq expressions, observed)."""
    I = impl()
    onp = I['onp']
    mat = I['LE'].create_material_model_functions({'elastic modulus': 1.0, 'poisson ratio': 0.3, 'density': 1.0})
    dyn = I['Mechanics'].create_dynamics_functions(_fs_small(), 'plane strain', mat, I['Mechanics'].NewmarkParameters(gamma=0.6, beta=0.3025))
    exprs, obs, labels = [], [], []
    for name in ('predict', 'correct'):
        handed = getattr(dyn, name)
        raw = getattr(handed, '__wrapped__', handed)
        is_jit = hasattr(handed, '__wrapped__') and hasattr(handed, 'lower')
        exprs.append('[if c15_%s_wrapped then 1 else 0]' % name)
        obs.append([1 if is_jit else 0])
        labels.append('%s: handed out wrapped in jit' % name)
        for akind, wr in (('numpy', 'true'), ('jax', 'false')):
            for fobj, wflag, how in ((raw, 'false', 'raw function'), (handed, 'c15_%s_wrapped' % name, 'as handed out')):
                args = [as_kind([[r.uniform(0.5, 2.0) for _ in range(2)] for _ in range(5)], akind) for _ in range(3)]
                copies = [onp.array(a, copy=True) for a in args]
                out = fobj(*args, 0.37)
                written = [0 if onp.array_equal(onp.asarray(a), c) else 1 for a, c in zip(args, copies)] + [0]
                rets = [next((i + 1 for i, a in enumerate(args) if o is a), 0) for o in out]
                exprs.append('map Z.of_nat (concat (store_signature %s c15_%s %s))' % (wflag, name, wr))
                obs.append(written + rets)
                labels.append('%s, %s, %s arrays' % (name, how, akind))
                # the same object passed for two parameters (first and second array argument are ONE object)
                args = [as_kind([[r.uniform(0.5, 2.0) for _ in range(2)] for _ in range(5)], akind) for _ in range(3)]
                copies = [onp.array(a, copy=True) for a in args]
                out = fobj(args[0], args[0], args[2], 0.37)
                written = [0 if onp.array_equal(onp.asarray(a), c) else 1 for a, c in zip(args, copies)] + [0]
                rets = [next((i + 1 for i, a in enumerate(args) if o is a), 0) for o in out]
                exprs.append('map Z.of_nat (concat (store_signature_at %s c15_%s %s [0; 0; 2; 3]%%nat))' % (wflag, name, wr))
                obs.append(written + rets)
                labels.append('%s, %s, %s arrays, first two arguments the same object' % (name, how, akind))
    return exprs, obs, labels


_FS = {}


def _fs_small():
    if 'fs' not in _FS:
        I = impl()
        mesh = I['Mesh'].construct_structured_mesh(3, 3, (0.0, 1.0), (0.0, 1.0))
        _FS['fs'] = I['FS'].construct_function_space(mesh, I['QR'].create_quadrature_rule_on_triangle(degree=2))
    return _FS['fs']


def fll(xs):
    return '[' + '; '.join(fl(x) for x in xs) + ']'


FE_PREAMBLE = ('Definition fld (l : list float) : nat * bool -> float := '
               'fun d => nth (2 * fst d + (if snd d then 1 else 0))%nat l (F 0 0).')
FE_NAMES = ['fe_kinetic_energy', 'fe_strain_energy', 'fe_alg_energy', 'fe_mass_form(u,v)', 'fe_stiff_form(u,v)', 'fe_volume']


def fe_tie_case(ctx, P, r):
    """model of the mesh integrals (model/M_C15_FE.v) on the real function space of problem P: one Coq expression evaluating the modelled
    kinetic / strain / algorithmic energy, the mass and stiffness forms on random fields and the total volume at binary64, and the values
    the implementation gives (reported energies; forms through the jax Hessians of the reported energies), each with a rounding scale"""
    I = impl()
    jnp, onp = I['jnp'], I['onp']
    fs = P.fs
    conns, shp, grd, vol = onp.array(P.mesh.conns), onp.array(fs.shapes), onp.array(fs.shapeGrads), onp.array(fs.vols)
    n = P.n
    Lx = P.args['xExtent'][1] - P.args['xExtent'][0]
    u = onp.array([r.uniform(-0.05 * Lx, 0.05 * Lx) for _ in range(n)])
    v = onp.array([r.uniform(-1, 1) for _ in range(n)])
    up = u + onp.array([r.uniform(-0.01 * Lx, 0.01 * Lx) for _ in range(n)])
    dt = 10.0 ** r.uniform(-2, 0)
    els = []
    for e in range(conns.shape[0]):
        qs = ['(mkQ %s %s %s %s)' % (fl(vol[e, q]), fll(shp[e, q, :]), fll(grd[e, q, :, 0]), fll(grd[e, q, :, 1])) for q in range(vol.shape[1])]
        els.append('([%s]%%nat, [%s])' % ('; '.join(str(int(a)) for a in conns[e]), '; '.join(qs)))
    a = P.args
    rho, E, nu, beta = fl(a['rho']), fl(a['E']), fl(a['nu']), fl(a['beta'])
    expr = ("(let mesh : list (@elem float nat) := [%s] in let u := fld %s in let v := fld %s in let up := fld %s in "
            "let '(_, _, mu, kappa) := le_make_properties %s %s in "
            "fencs [fe_kinetic_energy %s mesh v; fe_strain_energy %s %s mesh u; fe_alg_energy %s %s %s %s %s mesh up u; "
            "fe_mass_form %s mesh u v; fe_stiff_form mu kappa mesh u v; fe_volume mesh])"
            % ('; '.join(els), fll(u), fll(v), fll(up), E, nu, rho, E, nu, rho, E, nu, beta, fl(dt), rho))
    ju, jv, jup = jnp.array(u), jnp.array(v), jnp.array(up)
    M = onp.array(P.hke(jnp.zeros(n)))
    K = onp.array(P.hse(jnp.zeros(n)))
    ke, se = float(P.ke(jv)), float(P.se(ju))
    ealg = float(P.dyn.compute_algorithmic_energy(ju.reshape(P.shape), jup.reshape(P.shape), P.state, dt))
    kin_part = float(P.ke(ju - jup)) / (a['beta'] * dt * dt)
    vals = [ke, se, ealg, float(u @ M @ v), float(u @ K @ v), float(vol.sum())]
    scales = [abs(ke), abs(se), abs(se) + abs(kin_part), math.sqrt(abs(u @ M @ u) * abs(v @ M @ v)), math.sqrt(abs(u @ K @ u) * abs(v @ K @ v)), float(abs(vol).sum())]
    return dict(expr=expr, vals=vals, scales=scales, case=dict(fn='fe_model', u_seed='stream problems', **a))


def kernel_cases(ctx):
    r = ctx.rng('kernels')
    out = []
    for _ in range(ctx.n(300, 3000)):
        g = r.choice([0.5, r.uniform(0.5, 1.0)])
        b = r.choice([0.25, 0.25 * (g + 0.5) ** 2 * r.uniform(1, 1.5)])
        mag = lambda: r.choice([0.0, 1.0]) if r.random() < 0.1 else r.choice([-1, 1]) * 10.0 ** r.uniform(-5, 5)
        dt = 10.0 ** r.uniform(-6, 2)
        if r.random() < 0.2:      # dyadic: exact on both sides
            g, b, dt = 0.5, 0.25, math.ldexp(1, r.randrange(-10, 3))
            out.append((g, b, float(r.randrange(-64, 65)), float(r.randrange(-64, 65)), float(r.randrange(-64, 65)), dt, 'exact'))
        else:
            out.append((g, b, mag(), mag(), mag(), dt, 'rand'))
    return out


def correspondence(ctx, model_ok):
    I = impl()
    jax, jnp, onp = I['jax'], I['jnp'], I['onp']
    r = ctx.rng('problems')
    distinct = set()
    evals = 0
    # ---- L2 on the real DynamicsFunctions
    nprob = ctx.n(2, 5)
    kin_ties = []
    for pi in range(nprob):
        order = 1 if pi % 2 == 0 else 2
        Pt = random_problem(ctx, r, trapezoidal=True, order=order)
        forms = check_hypotheses_and_mass(ctx, Pt, r)
        evals += 6
        evals += check_steps(ctx, Pt, r, ctx.n(50, 500) if pi < 2 else ctx.n(50, 150), 'energy', distinct)
        evals += check_steps(ctx, Pt, r, ctx.n(8, 30), 'translation', distinct)
        Pg = random_problem(ctx, r, trapezoidal=False, order=order)
        evals += check_steps(ctx, Pg, r, ctx.n(10, 40), 'general', distinct)
        evals += check_steps(ctx, Pg, r, ctx.n(6, 20), 'translation', distinct)
        ctx.log('problem %d (order %d, %d dofs) done' % (pi, order, Pt.n))
        if pi == 0:
            kin_ties.append((Pt, forms))
        if pi < 2:
            # purity of predict / correct on caller-held numpy / read-only numpy / jax state under a step-doubling driver, and scale
            # invariance of the whole step over amplitudes 1e-12 .. 1e12 (own random streams: the older streams see the same numbers as before)
            ps = purity_stream(ctx, Pt, ctx.rng('purity%d' % pi), ctx.n(2, 5))
            ss = scale_stream(ctx, Pt, ctx.rng('scale%d' % pi), ctx.n(3, 8))
            evals += ps + ss
            ctx.count('purity_steps', ps)
            ctx.count('scale_invariance_steps', ss)
            ctx.log('purity (%d steps on numpy / read-only numpy / jax state) and scale invariance (%d steps, amplitudes 1e-12..1e12) on problem %d done' % (ps, ss, pi))
    # element order >= 2 with UNDER-integrating rules on distorted meshes, non-rigid velocity: the energies the library REPORTS
    # (compute_output_kinetic_energy + compute_output_strain_energy) must still be conserved, and the reported mass is the driving mass
    for (order, qd) in ((2, 2), (3, 4)) if not ctx.quick() else ((2, 2),):
        Pu = random_problem(ctx, r, trapezoidal=True, order=order, qdeg=qd, distort=0.3)
        check_hypotheses_and_mass(ctx, Pu, r)
        evals += 6 + check_steps(ctx, Pu, r, ctx.n(25, 120), 'energy', distinct)
        ctx.log('under-integrated problem (order %d, rule degree %d, distorted, %d dofs) done' % (order, qd, Pu.n))
    fe_problems = [Pu]      # the last under-integrated problem (quick: order 2 with the degree-2 rule, distorted)
    Pd = random_problem(ctx, r, trapezoidal=True, order=2, distort=0.3)
    fe_problems.append(Pd)
    check_hypotheses_and_mass(ctx, Pd, r)
    evals += 6 + check_steps(ctx, Pd, r, ctx.n(25, 120), 'energy', distinct)
    ctx.log('distorted fully integrated order-2 problem done')
    # axisymmetric dynamics (mode2D='axisymmetric' of the factory + axisymmetric function space): same clauses; mass = density * volume of revolution
    Pa = random_problem(ctx, r, trapezoidal=True, order=r.choice([1, 2]), mode='axisymmetric')
    check_hypotheses_and_mass(ctx, Pa, r)
    evals += 6 + check_steps(ctx, Pa, r, ctx.n(25, 120), 'energy', distinct)
    evals += check_steps(ctx, Pa, r, ctx.n(6, 20), 'translation', distinct)
    ctx.log('axisymmetric problem (order %d, %d dofs) done' % (Pa.args['order'], Pa.n))
    # pressure projection (volume-averaged J, pressureProjectionDegree = 0 on quadratic triangles): the strain energy the dynamics functions REPORT
    # (compute_output_strain_energy) must be the one the algorithmic energy integrates -- balance M A1 + d(reported SE)/dU(U1) = 0 after every step
    # and kinetic + reported strain energy conserved (trapezoidal, linear elastic).  The J-scaling makes the projected energy non-quadratic at
    # O(strain), so the state is kept at strains ~1e-7 and the drift tolerance is 1e-6 per step (observed ~3e-8: non-quadratic part + rounding of strains of that size); a different gradient in
    # the reported energy shows at O(1).
    rpp = ctx.rng('pressure_projection')
    Pp = random_problem(ctx, rpp, trapezoidal=True, order=2, ppd=0)
    evals += check_steps(ctx, Pp, rpp, ctx.n(8, 40), 'energy', distinct, amp_factor=1e-7, drift_rtol=1e-6, tag='pressure_projected_')
    ctx.count('pressure_projection_problems')
    ctx.log('pressure-projected (degree 0) order-2 problem (%d dofs) done' % Pp.n)
    Ppn = random_problem(ctx, rpp, trapezoidal=False, order=2, material='neohookean', ppd=0)
    # finite strain: start from the rest position (U = 0, A = 0 is consistent) with a non-rigid velocity, so that the predictor -- the start iterate of
    # the harness' Newton solve -- stays uninverted (a rough random U0 gives accelerations that invert elements within one large step)
    evals += check_steps(ctx, Ppn, rpp, ctx.n(4, 15), 'general', distinct, amp_factor=0.3, rest_start=True, tag='pressure_projected_')
    ctx.count('pressure_projection_problems')
    ctx.log('pressure-projected neo-Hookean order-2 problem done')
    # nonlinear material: balance and update formulas only
    Pn = random_problem(ctx, r, trapezoidal=False, order=1, material='neohookean')
    evals += check_steps(ctx, Pn, r, ctx.n(6, 25), 'general', distinct)
    ctx.log('neo-Hookean problem done')
    # the consistency premise matters on the real integrator too (informational: the refuted theorem's phenomenon)
    P0, _ = kin_ties[0]
    U = jnp.array([r.uniform(-0.05, 0.05) for _ in range(P0.n)])
    V = jnp.zeros(P0.n)
    A = jnp.zeros(P0.n)       # inconsistent: M A0 + K U0 <> 0
    E0 = float(P0.ke(V) + P0.se(U))
    dt = 0.3 * P0.args['xExtent'][1] / math.sqrt(P0.args['E'] / P0.rho)
    U1, V1, A1, _ = P0.step(U, V, A, dt)
    ctx.cov['relative_energy_change_first_step_with_inconsistent_A0'] = abs(float(P0.ke(V1) + P0.se(U1)) - E0) / E0

    # ---- generated kernels vs implementation (arrays through the jitted DynamicsFunctions)
    kc = kernel_cases(ctx)
    evals += len(kc)
    kres = []
    groups = {}
    for i, c in enumerate(kc):
        groups.setdefault((c[0], c[1]), []).append(i)
    dyn_cache = {}
    impl_out = [None] * len(kc)
    P0dyn_fs = P0.fs
    mat = I['LE'].create_material_model_functions({'elastic modulus': 1.0, 'poisson ratio': 0.3, 'density': 1.0})
    # group by (gamma, beta): one DynamicsFunctions each, evaluated on arrays whose entries are the cases (elementwise semantics)
    for (g, b), idxs in groups.items():
        dyn = I['Mechanics'].create_dynamics_functions(P0dyn_fs, 'plane strain', mat, I['Mechanics'].NewmarkParameters(gamma=g, beta=b))
        bydt = {}
        for i in idxs:
            bydt.setdefault(kc[i][5], []).append(i)
        for dt, ii in bydt.items():
            U = jnp.array([kc[i][2] for i in ii]); V = jnp.array([kc[i][3] for i in ii]); A = jnp.array([kc[i][4] for i in ii])
            Up, Vp = dyn.predict(U, V, A, dt)
            V1, A1 = dyn.correct(U, V, A, dt)      # correct(UCorrection, V, A, dt): any array may play UCorrection
            for j, i in enumerate(ii):
                impl_out[i] = [float(Up[j]), float(Vp[j]), float(V1[j]), float(A1[j])]
    nk = kernel_scale_and_additivity(ctx, ctx.rng('kernel_scale'))
    evals += nk
    ctx.count('kernel_linearity_calls', nk)
    ked = [(r.uniform(-5, 5), r.uniform(-5, 5), 10 ** r.uniform(-2, 2)) for _ in range(ctx.n(50, 300))]
    ked_impl = [float(I['Mechanics'].kinetic_energy_density(jnp.array([a, b]), d)) for a, b, d in ked]
    for (a, b, d), v in zip(ked, ked_impl):
        if not (abs(v - 0.5 * d * (a * a + b * b)) <= 1e-14 * abs(v)):
            ctx.fail('conclusion', 'kinetic_energy_density(%r, %r) = %r is not 1/2 rho v.v' % ((a, b), d, v), case=dict(fn='ked', v=(a, b), rho=d), concrete=True)
    # ---- the mesh-integral model (model/M_C15_FE.v) on real function spaces: structured order 1, distorted order 2 (fully and under-integrated)
    rfe = ctx.rng('fe_model')
    fe_cases = [fe_tie_case(ctx, Pq, rfe) for Pq in [P0] + fe_problems]
    evals += len(FE_NAMES) * len(fe_cases)
    st_exprs, st_obs, st_labels = store_tie_impl(ctx, ctx.rng('store_tie'))
    evals += len(st_exprs)
    ctx.cov['store_behaviour_observed'] = {l: o for l, o in zip(st_labels, st_obs)}
    ctx.count('evaluations', evals + len(ked))
    ctx.count('distinct_nontrivial', len(distinct))
    ctx.sample(dict(fn='predict/correct', gamma=kc[0][0], beta=kc[0][1], U=kc[0][2], V=kc[0][3], A=kc[0][4], dt=kc[0][5], impl=impl_out[0]))
    ctx.sample(dict(fn='newmark run', **kin_ties[0][0].args))
    if not model_ok:
        return
    st_res = C.coq_eval(IMPORTS + ['From OV.model Require Import M_C15_Purity.', 'From OV.gen Require Import CFG_c15.'], st_exprs, 'C15st', shard=400)
    st_mism = 0
    for lab, ob, mo in zip(st_labels, st_obs, st_res):
        mo = [min(int(x), 1) for x in mo[:4]] + [int(x) for x in mo[4:]] if len(mo) > 1 else [int(x) for x in mo]
        if mo != ob:
            st_mism += 1
            ctx.fail('correspondence', 'store model (model/M_C15_Purity.v on the table regenerated from the source) and the interpreter disagree for %s: model says '
                     'written = %r, returned objects = %r (argument number, 0 = fresh); observed written = %r, returned = %r'
                     % (lab, mo[:4], mo[4:], ob[:4], ob[4:]) if len(ob) > 1 else
                     'gen/CFG_c15.v says "%s" = %r but the object handed out by the factory says %r' % (lab, mo, ob), case=dict(fn='store_tie', which=lab))
    ctx.count('store_tie_comparisons', len(st_exprs))
    ctx.count('store_tie_mismatches', st_mism)
    ex = []
    for (g, b, U, V, A, dt, kind) in kc:
        a = ' '.join(fl(x) for x in (g, b, U, V, A, dt))
        ex.append("(let '(up, vp) := predict %s in let '(v1, a1) := correct %s in fencs [up; vp; v1; a1])" % (a, a))
    for (a, b, d) in ked:
        ex.append('fencs [kinetic_energy_density %s %s %s]' % (fl(a), fl(b), fl(d)))
    # kinetic energy / total mass model on a real function space: quadrature weights and shape values read from the function space
    P, forms = kin_ties[0]
    fs = P.fs
    conns = onp.array(P.mesh.conns)
    shapes = onp.array(fs.shapes)
    vols = onp.array(fs.vols)
    nn = P.shape[0]
    qp = []
    for e in range(conns.shape[0]):
        for q in range(vols.shape[1]):
            N = [0.0] * nn
            for a_, node in enumerate(conns[e]):
                N[node] += float(shapes[e, q, a_])
            qp.append((float(vols[e, q]), N))
    qtxt = '[' + '; '.join('(%s, [%s])' % (fl(w), '; '.join(fl(x) for x in N)) for w, N in qp) + ']'
    Vr = [(r.uniform(-1, 1), r.uniform(-1, 1)) for _ in range(nn)]
    vtxt = '[' + '; '.join('(%s, %s)' % (fl(x), fl(y)) for x, y in Vr) + ']'
    ex.append('fencs [kinetic_energy %s %s %s; mass_total %s %s %d]' % (fl(P.rho), qtxt, vtxt, fl(P.rho), qtxt, nn))
    pou = max(abs(sum(N) - 1) for _, N in qp)
    if pou > 1e-13:
        ctx.fail('conclusion', 'shape functions do not sum to 1 at a quadrature point (defect %r): premise of the mass theorems' % pou, case=dict(fn='forms', **P.args), concrete=True)
    res = C.coq_eval(IMPORTS, ex, 'C15', shard=400)
    fe_res = C.coq_eval(IMPORTS, [c['expr'] for c in fe_cases], 'C15fe', shard=1, preamble=FE_PREAMBLE)
    mism = 0
    for i, (g, b, U, V, A, dt, kind) in enumerate(kc):
        v = C.dec_floats(res[i])
        w = impl_out[i]
        scales = [abs(U) + dt * abs(V) + dt * dt * abs(A), abs(V) + dt * abs(A), abs(V) + abs(U) / (b * dt), abs(U) / (b * dt * dt)]
        for j, nm in enumerate(['predict.U', 'predict.V', 'correct.V', 'correct.A']):
            tol = 0.0 if kind == 'exact' else 8 * math.ulp(max(scales[j], 1e-300))
            if not C.close(v[j], w[j], rtol=0, atol=tol):
                mism += 1
                if mism <= 10:
                    ctx.fail('correspondence', 'generated %s(gamma=%r, beta=%r, %r, %r, %r, dt=%r) = %r but DynamicsFunctions gives %r (tol %.3g)'
                             % (nm, g, b, U, V, A, dt, v[j], w[j], tol), case=dict(fn='kernel', gamma=g, beta=b, U=U, V=V, A=A, dt=dt))
    k0 = len(kc)
    for i, ((a, b, d), w) in enumerate(zip(ked, ked_impl)):
        v = C.dec_floats(res[k0 + i])[0]
        if not C.close(v, w, rtol=4e-16, atol=0):
            mism += 1
            ctx.fail('correspondence', 'generated kinetic_energy_density(%r,%r,%r) = %r but implementation gives %r' % (a, b, d, v, w), case=dict(fn='ked', v=(a, b), rho=d))
    v = C.dec_floats(res[k0 + len(ked)])
    Timpl = float(P.dyn.compute_output_kinetic_energy(jnp.array(Vr)))
    if not C.close(v[0], Timpl, rtol=1e-12, atol=0):
        mism += 1
        ctx.fail('correspondence', 'model kinetic_energy = %r but compute_output_kinetic_energy = %r' % (v[0], Timpl), case=dict(fn='forms', **P.args))
    if forms['sxx'] == forms['sxx'] and not C.close(v[1], forms['sxx'], rtol=1e-12, atol=0):
        mism += 1
        ctx.fail('correspondence', 'model mass_total = %r but the x-x entries of compute_element_masses sum to %r' % (v[1], forms['sxx']), case=dict(fn='forms', **P.args))
    worst_fe = 0.0
    for c, zs in zip(fe_cases, fe_res):
        mv = C.dec_floats(zs)
        for nm, a_, b_, sc in zip(FE_NAMES, mv, c['vals'], c['scales']):
            err = abs(a_ - b_) / max(sc, 1e-300) if (a_ == a_ and b_ == b_) else float('inf')
            worst_fe = max(worst_fe, err)
            if not err <= 1e-12:
                mism += 1
                ctx.fail('correspondence', 'mesh-integral model %s = %r but the implementation gives %r (rounding scale %.3g, order %d, rule degree %d)'
                         % (nm, a_, b_, sc, c['case']['order'], c['case']['qdeg']), case=c['case'])
    ctx.cov['worst_fe_model_vs_impl_rel'] = worst_fe
    ctx.count('fe_model_problems', len(fe_cases))
    ctx.count('model_vs_impl_comparisons', len(kc) * 4 + len(ked) + 2 + len(FE_NAMES) * len(fe_cases))
    ctx.count('model_vs_impl_mismatches', mism)


def search(ctx, reasons):
    import copy
    c2 = copy.copy(ctx)
    c2.failures, c2.counts, c2.cov, c2.samples, c2.notes = [], {}, {}, [], []
    c2.seed = ctx.seed + 1
    correspondence(c2, False)
    fs = [f for f in c2.failures if f.get('concrete')]
    return fs[0] if fs else None


def finding_fails(ctx, f):
    return False


def matches_finding(fl_, f):
    return False


def replay(ctx, path):
    rep = json.load(open(path))
    case = rep.get('failing_input')
    print('replay of', path)
    print(json.dumps(rep.get('reasons'), indent=1)[:3000])
    if not case:
        print('no concrete failing input recorded; broken obligations:', rep.get('broken'))
        return 1
    if case.get('fn') in ('kernel_scale', 'kernel_add'):
        I = impl()
        jnp, onp = I['jnp'], I['onp']
        mat = I['LE'].create_material_model_functions({'elastic modulus': 1.0, 'poisson ratio': 0.3, 'density': 1.0})
        dyn = I['Mechanics'].create_dynamics_functions(_fs_small(), 'plane strain', mat, I['Mechanics'].NewmarkParameters(gamma=case['gamma'], beta=case['beta']))
        f = getattr(dyn, case['which'])
        x = [onp.array([v]) for v in case['x']]
        j, dt = case['output'], case['dt']
        fx = float(onp.array(f(*(jnp.array(v) for v in x), dt)[j])[0])
        if case['fn'] == 'kernel_scale':
            s_ = case['scale']
            got = float(onp.array(f(*(as_kind(s_ * v, case.get('array_kind', 'jax')) for v in x), dt)[j])[0])
            want = s_ * fx
        else:
            y = [onp.array([v]) for v in case['y']]
            got = float(onp.array(f(*(jnp.array(a + b) for a, b in zip(x, y)), dt)[j])[0])
            want = fx + float(onp.array(f(*(jnp.array(v) for v in y), dt)[j])[0])
        bad = not abs(got - want) <= 1e-12 * max(abs(got), abs(want))
        print('implementation now: %s(...) output %d = %r, linearity demands %r -> %s' % (case['which'], j, got, want, 'VIOLATED' if bad else 'holds'))
        return 1 if bad else 0
    if case.get('fn') in ('newmark', 'forms', 'newmark_purity', 'newmark_scale'):
        keys = ('Nx', 'Ny', 'xExtent', 'yExtent', 'order', 'E', 'nu', 'rho', 'gamma', 'beta', 'material')
        a = {k: case[k] for k in keys}
        P = Problem(a['Nx'], a['Ny'], tuple(a['xExtent']), tuple(a['yExtent']), a['order'], a['E'], a['nu'], a['rho'], a['gamma'], a['beta'], a['material'],
                    qdeg=case.get('qdeg'), distort=case.get('distort', 0.0), dseed=case.get('dseed', 0), mode=case.get('mode', 'plane strain'), ppd=case.get('ppd'))
        c2 = C.Ctx(ID, 'quick', rep.get('seed', 0))
        r = c2.rng('replay')
        if case['fn'] == 'forms':
            check_hypotheses_and_mass(c2, P, r)
        elif case['fn'] == 'newmark_purity':
            purity_case(c2, P, case['array_kind'], case['U0'], case['V0'], case['A0'], case['dts'], case['kind'])
        elif case['fn'] == 'newmark_scale':
            scale_case(c2, P, case['U0'], case['V0'], case['A0'], case['dts'], case['scale'], case['scale_kind'])
        elif 'U0' in case:
            check_steps(c2, P, r, max(len(case.get('dts', [])), 1), case['kind'], set(), init=(case['U0'], case['V0'], case['A0']), dts_fixed=case.get('dts'),
                        drift_rtol=case.get('drift_rtol', 1e-10))
        else:
            check_steps(c2, P, r, max(len(case.get('dts', [])), 10), case['kind'], set())
        bad = [f['what'] for f in c2.failures]
        print('implementation now:', bad[:3] or 'conclusion holds')
        return 1 if bad else 0
    print('case kind', case.get('fn'), 'is replayed by re-running the check with the recorded seed:', rep.get('seed'))
    return 1
