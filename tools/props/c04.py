"""C04 -- augmented-Lagrangian solve returns a KKT point with non-negative multipliers."""
import contextlib
import io
import itertools
import json
import math
import random

from vlib import common as C

ID = 'C04'
READY = True
LEVEL_TEXT = ('Partial. Coq theorems over R: (a) on the kernels regenerated from ConstrainedObjective.py: |FB(c,lam,k)| <= e => k*c >= -e, '
              'lam >= -e, min(k*c, lam) <= e/(2-sqrt 2); FB = 0 <=> exact complementarity; the AL penalty is C1 across lam = k*c with '
              'derivative -max(lam-k*c,0); |lam - max(lam-k*c,0)| <= (k/k0) e/(2-sqrt2) (so grad_x AL is the Lagrangian gradient up to '
              'the complementarity error); the product form lam*c is NOT bounded by the termination test (refuted with a witness family). '
              '(b) on the hand model of AlSolver.augmented_lagrange_solve/solve_sub_step for ARBITRARY oracles (sub-solver, constraint, '
              'AL gradient, second-order update): after every outer iteration in which the first-order update runs lam >= 0 componentwise, '
              'kappa componentwise non-decreasing when penalty_scaling >= 1 and kappa >= 0, every normal return passes the termination '
              'test hence is an approximate KKT point in the min form with explicit constants; use_newton_only never returns. '
              'The three state-update statements of solve_sub_step (lam <- max(lam-kappa*c,0); poorProgress; kappa.at[poor].set(ps*kappa[poor])) '
              'are kernels REGENERATED from AlSolver.py (statement extraction, elementwise reading) which the hand model calls: closed forms, '
              'lam >= 0 and kappa monotone are proved on the generated code, and every sub-step of the model is exactly these statements per '
              'constraint (penalties untouched when the sub-solver failed). Bound-constrained front end: initial multipliers (generated clip) >= 0, '
              'initial penalties 0.25; hand model bc_solve (reset_kappa, scaling in, invScaling out, get_multipliers = lam*scaling): every normal '
              'return has lam >= 0, get_multipliers >= 0, 0 < kappa0 <= kappa componentwise and passed the termination test. COMPLETE front-end model '
              'bc_front (model/M_C04_BC.v: flags useWarmStart / updatePrecond / sub_problem_callback, warm-start increment as an arbitrary oracle, '
              'own event trace: reset_kappa, update_precond arguments, warm start, stores to .p, sub_problem_callback argument, nested solve, '
              'invScaling*xBar and get_multipliers): for ALL flags and oracles every normal return has the same conclusions, its trace is '
              'reset_kappa, then a prologue with exactly one store of p placed after the warm start and before any event of the nested solve, '
              'then the nested solve started from kappa = constraintKappa at scaling*x0 (+ warm increment), all observed multipliers >= 0; '
              'bc_front computes the same outcome and outer-loop trace as bc_solve (refinement theorem). bc_front is tied by an EXECUTED trace '
              'correspondence: the real bound_constrained_solve on a real BoundConstrainedObjective (non-trivial dof scaling) with scripted/real '
              'sub-solver, linear update and warm start, all 8 flag combinations, compared event by event with the model run on the logged oracle answers. '
              '(c) exact KKT + convex objective + concave constraints => global constrained minimiser (unique if strictly convex), and the '
              'quantitative version: a tol-KKT point of a mu-strongly convex problem is within (eg + sqrt(eg^2 + 4 mu (S+Vi)))/(2 mu) of the '
              'minimiser (abstract first-order form). (c2) the convex clause over LISTS OF R (vectors of length n, gradients as lists, pairing = dot '
              'product, Cauchy-Schwarz for the model norm), tied to the solver: every normal return of the outer-loop model whose oracles at the '
              'returned point are the constraint values and the AL gradient grad f - sum max(lam_i - kappa_i c_i, 0) grad c_i of a problem '
              '(effective multipliers = the GENERATED update statement) passes the termination test of that problem; for a convex objective and '
              'concave constraints (first-order interface dconvex/dconcave) such a point satisfies f(x) - f(y) <= tol*|y-x| + tol/(2-sqrt2) * '
              'sum_i max(c_i(x), lam_i/kappa0_i) for EVERY feasible y, f(x*) - f(x) <= tol * sum_i lam*_i/kappa0_i, and for a mu-strongly convex '
              'objective |x - x*| <= (tol + sqrt(tol^2 + 4 mu T))/(2 mu) with T the two sums; tol = 0: global constrained minimiser, unique under '
              'strict convexity.  Hypothesis left: the jax gradient of the AL function is that vector (measured on every convex return). '
              '(c3) NewtonSolver.globalized_newton_step (hand model, arbitrary oracles for the residual, the GMRES Newton step and the jax slope): '
              'whenever a step is returned GMRES reported success, the step is the Newton step scaled by c in [0.01^k, 0.5^k] after '
              'k < maxLinesearchIters cutbacks, the forcing term stays in [etak, 1) and the residual energy at x+s is below (1 - t(1 - etak\')) times '
              'the one at x (descent lemma); tied by an executed correspondence on the real function. (d) by computation over ALL paths of the control-flow IR regenerated from the ASTs of '
              'augmented_lagrange_solve and bound_constrained_solve: objective.p := p (the parameters of THIS call) exactly once, after any warm '
              'start and before the first sub-problem solve, no other store to .p, for every combination of useWarmStart / updatePrecond / '
              'updatePrecondBeforeWarmStart -- so the oracles of (b) are those of the problem that was asked for. '
              'Not proved: convergence; that JAX autodiff of the AL function yields al_gradient (measured); any contract on the GMRES answer '
              '(linear_update / newton_step / warm_start_increment are oracles). '
              'The model is tied to the code by a '
              'trace correspondence with scripted oracles; the conclusions are also evaluated on real end-to-end solves (incl. the '
              'bound-constrained front end) and against an independent active-set enumeration for convex QPs, including load-stepping histories '
              '(several successive solves on one objective with changing parameters, all flag combinations, each return judged against the '
              'parameters of that call).')
TECHNIQUE = 'Coq proof (Reals + Coquelicot) over regenerated kernels and a hand state-machine model; vm_compute/PrimFloat trace correspondence'
GEN = ['ConstrainedObjective', 'AlSolver', 'BoundConstrainedObjective', 'CFG_drivers']
TARGETS = ['proofs/L_C04.vo', 'model/M_C04_AL.vo', 'proofs/L_C04_CFG.vo', 'proofs/L_C04_Upd.vo', 'proofs/L_C04_Cvx.vo', 'proofs/L_C04_Newton.vo', 'model/M_C04_BC.vo', 'proofs/L_C04_BC.vo']
COQ_FILES = ['base/Num.v', 'base/Piecewise.v', 'model/M_C04_AL.v', 'model/M_C19_CFG.v', 'proofs/L_C04.v', 'proofs/L_C04_CFG.v', 'proofs/L_C04_Upd.v', 'proofs/L_C04_Cvx.v', 'proofs/L_C04_Newton.v', 'model/M_C04_BC.v', 'proofs/L_C04_BC.v', 'props/P_C04.v']
TRUSTED = ['Coq 8.16.1 kernel + vm_compute (no native_compute)',
           'tools/vlib/py2coq.py translator (fischer_burmeister, fischer_burmeister_jac_l, nested f of create_augmented_lagrangian with objective/constraint as oracles), cross-checked at binary64 against the implementation',
           'statement extraction of py2coq (extract= with attrs/lens/masked_set rewrites: obj.field -> local name, len(v) -> scalar parameter, '
           'X.at[M].set(V) -> where(M, V, X)) and the ELEMENTWISE reading of the vectorised update statements of solve_sub_step; checked through the '
           'trace correspondence (the model calling these kernels reproduces lam, kappa and the grown entries of real solve_sub_step runs)',
           'hand model model/M_C04_AL.v of the outer loop, tied by the scripted-oracle trace correspondence (event sequence exact; floats rtol 1e-9)',
           'harness-side sksparse shim (dense Cholesky) as preconditioner; harness-side replacement of AlSolver.linear_update and of the sub_problem_solver argument by logging/scripted wrappers in the L1 runs',
           'tools/vlib/extract_drivers.py (AST -> control-flow IR of augmented_lagrange_solve / bound_constrained_solve, fail closed) and the path '
           'semantics of model/M_C19_CFG.v (conditions independent, loops 0/1/2 passes); cross-checked by the load-stepping conclusion stream',
           'hand model of NewtonSolver.globalized_newton_step (Section GNewton of model/M_C04_AL.v), tied by the executed correspondence with newton_step '
           'and jax.grad replaced by logging/scripted wrappers (returned step rtol 1e-11, number of tests / slope / residual evaluations exact)',
           'hand model model/M_C04_BC.v of the complete bound_constrained_solve, tied by the executed trace correspondence `bc trace` (front-end and outer-loop '
           'event sequence exact; floats rtol 1e-9); harness-side wrappers around reset_kappa / update_precond / WarmStart.warm_start_increment / the .p attribute '
           '(class-swapped property) / sub_problem_callback that log and pass through (warm start optionally replaced by a scripted vector)',
           'theorems are over exact reals; binary64 rounding is covered only by the correspondence']
ASSUMPTIONS = ['exact real arithmetic in theorems',
               'bc_front: WarmStart.warm_start_increment is an arbitrary function `warm` of the scaled starting point (its CG contract belongs to C19)',
               'oracles (sub-problem solver, constraint, grad_x of the AL function, linear_update) are arbitrary functions of the call site and the state',
               'grad_x of the AL function is grad f - J^T max(lam - kappa c, 0): chain rule through the proved penalty derivative (JAX autodiff, checked numerically in L1)',
               'convex clause: first-order convexity/concavity inequalities (dconvex / dstrict / dstrong / dconcave over lists of length n) as hypotheses on the user functions; '
               'the oracles of the model at the returned point are the problem\'s constraint values and al_gradient (hypotheses of C04_return_passes_test_of_the_problem, the second one measured)',
               'complementarity is stated in the min form min(kappa0*c, lam); the product form is scale dependent (refuted theorem)']
RULE = ('L1: seeded problems (2-4 unknowns, 1-4 linear constraints) run through the real augmented_lagrange_solve with a scripted '
        'sub_problem_solver (real trust-region result, real result plus noise, or arbitrary points; arbitrary success flags) and a scripted or '
        'real linear_update; a case is distinct by its event-kind sequence and non-trivial when it contains a penalty growth, a rejected '
        'line-search step or a normal return.  L2: seeded end-to-end solves, distinct by (family, sizes, active-set pattern, settings); '
        'load-stepping histories of 3-4 calls on one ConstrainedObjective / BoundConstrainedObjective with parameters (load, constraint shift); '
        'every normal return of a convex family (qp / exp / ball) is also judged by the convex clause: the al_gradient hypothesis, |grad_x AL| < tol, '
        'the proved optimality gap against the reference minimiser and ~40 random points (those that are feasible count), the lower bound against '
        'the reference.  Newton globalisation: seeded residuals (cubic / arctan, 1-3 unknowns), scripted Newton steps (exact, overshooting, reversed, '
        'random, reported failure), forcing term / t / maxLinesearchIters varied; distinct by (n, number of cutbacks) when a step is returned. '
        'Load stepping: parameters changing at every call, the flag combinations of the later calls cycling through all of useWarmStart x updatePrecond x '
        'updatePrecondBeforeWarmStart; a step is distinct by (front end, family, flags, active set) and counts only when it returned.  '
        'bc trace: one real BoundConstrainedObjective per shape (n, m) in {(2,1),(3,2)} (thorough: +(4,3),(3,3)) with a dof scaling != 1 from the preconditioner diagonal; '
        'per case new QP parameters, stale parameters / stale grown penalties left on the objective, arbitrary initial multipliers, the 8 combinations of '
        'useWarmStart x updatePrecond x sub_problem_callback cycled, warm start real (CG) or a scripted vector, sub-solver / linear update real, noisy or arbitrary; '
        'distinct by (shape, flags, outer-loop event-kind sequence, outcome).')
IMPORTS = ['From OV.gen Require Import Gen_ConstrainedObjective Gen_AlSolver Gen_BoundConstrainedObjective.', 'From OV.model Require Import M_C04_AL M_C04_BC.']

SQ = 2.0 - math.sqrt(2.0)


@contextlib.contextmanager
def quiet(buf=None):
    with contextlib.redirect_stdout(buf if buf is not None else io.StringIO()):
        yield


_MODS = {}


def mods():
    if not _MODS:
        from vlib import shim
        shim.install()
        import optimism  # noqa: F401
        import jax
        import jax.numpy as jnp
        import numpy as onp
        from optimism import AlSolver, EquationSolver, ConstrainedObjective, NewtonSolver, BoundConstrainedObjective, BoundConstrainedSolver
        _MODS.update(jax=jax, jnp=jnp, onp=onp, Al=AlSolver, Eq=EquationSolver, CO=ConstrainedObjective, NS=NewtonSolver,
                     BCO=BoundConstrainedObjective, BCS=BoundConstrainedSolver)
    return _MODS


# ============================================================================ problems (deterministic from a small spec)

def build_problem(spec):
    """spec: dict(family, n, m, seed) -> dict(f, c, x0, desc, qp=(Q,q,A,b) or None).  f(x,p), c(x,p) >= 0, p = (shift,)"""
    M = mods()
    jnp, onp = M['jnp'], M['onp']
    r = random.Random(spec['seed'])
    n, m = spec['n'], spec['m']
    G = onp.array([[r.uniform(-1, 1) for _ in range(n)] for _ in range(n)])
    Q = G @ G.T + onp.diag([10.0 ** r.uniform(-1, 1) for _ in range(n)])
    xu = onp.array([r.uniform(-2, 2) for _ in range(n)])          # unconstrained minimiser
    q = -Q @ xu
    fam = spec['family']
    A = onp.array([[r.uniform(-1, 1) for _ in range(n)] for _ in range(m)])
    A /= onp.linalg.norm(A, axis=1, keepdims=True)
    # constraint offsets relative to xu: active (cuts xu off), inactive (far), weakly active (passes through xu), redundant (duplicate)
    kinds = []
    b = onp.zeros(m)
    for i in range(m):
        k = r.choice(['active', 'inactive', 'weak', 'redundant']) if i > 0 else r.choice(['active', 'active', 'weak'])
        if k == 'redundant':
            j = r.randrange(i)
            A[i] = A[j]
            b[i] = b[j] - r.choice([0.0, 0.5])     # same half-space or a looser parallel copy
        elif k == 'active':
            b[i] = A[i] @ xu + r.uniform(0.2, 1.5)
        elif k == 'weak':
            b[i] = A[i] @ xu
        else:
            b[i] = A[i] @ xu - r.uniform(1.0, 3.0)
        kinds.append(k)
    Qj, qj, Aj, bj = jnp.array(Q), jnp.array(q), jnp.array(A), jnp.array(b)
    qp = None
    if fam == 'qp':
        f = lambda x, p: 0.5 * x @ Qj @ x + qj @ x + p[0] @ x
        c = lambda x, p: Aj @ x - bj
        qp = (Q, q, A, b)
    elif fam == 'exp':       # smooth convex non-quadratic objective, linear constraints
        d = jnp.array([r.uniform(0.2, 1.0) for _ in range(n)])
        f = lambda x, p: 0.5 * x @ Qj @ x + qj @ x + jnp.sum(jnp.exp(d * x)) + jnp.sum(jnp.log(jnp.cosh(x))) + p[0] @ x
        c = lambda x, p: Aj @ x - bj
    elif fam == 'ball':      # quadratic objective, concave nonlinear constraints (ball around a centre) + linear ones
        z = xu + onp.array([r.uniform(-1, 1) for _ in range(n)])
        rad = jnp.array([r.uniform(0.5, 2.0) for _ in range(m)])
        zj = jnp.array(z)
        sel = jnp.array([i % 2 == 0 for i in range(m)])
        f = lambda x, p: 0.5 * x @ Qj @ x + qj @ x + p[0] @ x
        c = lambda x, p: jnp.where(sel, rad ** 2 - jnp.sum((x - zj) ** 2), Aj @ (x - zj) + rad)
    else:                    # 'ncvx': non-convex smooth objective, nonlinear constraints; only KKT is checked
        w = jnp.array([r.uniform(0.5, 2.0) for _ in range(n)])
        f = lambda x, p: 0.5 * x @ Qj @ x + qj @ x + 0.3 * jnp.sum(jnp.sin(w * x)) + p[0] @ x
        c = lambda x, p: (Aj @ x - bj) + 0.1 * jnp.sum(x ** 2) * jnp.arange(1, m + 1) / m
    start = r.choice(['infeasible', 'origin', 'near'])
    if start == 'infeasible':
        x0 = xu + 2.0 * onp.array([r.uniform(-1, 1) for _ in range(n)]) + 3.0 * (A[0] * -1.0)
    elif start == 'origin':
        x0 = onp.zeros(n)
    else:
        x0 = xu + 0.1 * onp.array([r.uniform(-1, 1) for _ in range(n)])
    return dict(f=f, c=c, x0=x0, kinds=kinds, qp=qp, start=start, n=n, m=m)


def qp_active_set(Q, q, A, b, tol=1e-9):
    """independent reference: enumerate active sets of min 1/2 x'Qx + q'x s.t. Ax >= b (Q SPD); returns (x*, active set)"""
    import numpy as onp
    n, m = len(q), len(b)
    best = None
    for k in range(0, min(m, n) + 1):
        for S in itertools.combinations(range(m), k):
            S = list(S)
            if S:
                As = A[S]
                if onp.linalg.matrix_rank(As) < len(S):
                    continue
                K = onp.block([[Q, -As.T], [As, onp.zeros((len(S), len(S)))]])
                rhs = onp.concatenate([-q, b[S]])
                try:
                    sol = onp.linalg.solve(K, rhs)
                except onp.linalg.LinAlgError:
                    continue
                x, lam = sol[:n], sol[n:]
            else:
                x, lam = onp.linalg.solve(Q, -q), onp.zeros(0)
            if onp.all(A @ x - b >= -tol) and onp.all(lam >= -tol):
                val = 0.5 * x @ Q @ x + q @ x
                if best is None or val < best[0] - 1e-12:
                    lfull = onp.zeros(m)
                    lfull[S] = lam
                    best = (val, x, S, lfull)
    return None if best is None else (best[1], best[2], best[3])


def near_min_bound(mu, eg, tol, cv, lam, kappa0, lam_star):
    """C04_approx_KKT_is_near_min with the constants of the termination test: d <= (eg + sqrt(eg^2 + 4 mu (S + Vi))) / (2 mu),
    S = sum lam_i max(c_i,0) <= sum (tol/(2-sqrt2)) max(kappa0_i c_i, lam_i)/kappa0_i (C04_product_from_min), Vi = sum lam*_i max(-c_i,0)"""
    S = sum((tol / SQ) * max(k * c, l) / k for c, l, k in zip(cv, lam, kappa0) if c > 0.0)
    Vi = sum(ls * max(-c, 0.0) for c, ls in zip(cv, lam_star))
    return (eg + math.sqrt(eg * eg + 4.0 * mu * (S + Vi))) / (2.0 * mu), S, Vi


# ============================================================================ L2: end-to-end solves, conclusions of the theorems

def kkt_report(M, f, c, p, x, lam, kappa, kappa0, tol):
    """the conclusion of C04_return_is_KKT / C04_al_gradient_is_lagrangian_gradient evaluated on implementation outputs"""
    jax, jnp, onp = M['jax'], M['jnp'], M['onp']
    x = jnp.array(x)
    g = onp.array(jax.grad(f)(x, p))
    J = onp.array(jax.jacfwd(c)(x, p)).reshape(len(lam), -1)
    cv = onp.array(c(x, p))
    lam, kappa, kappa0 = onp.array(lam), onp.array(kappa), onp.array(kappa0)
    bad = []
    slack = 1e-9 * tol + 64 * 2.3e-16 * max(1.0, float(onp.max(onp.abs(lam), initial=0.0)), float(onp.max(onp.abs(cv * kappa0), initial=0.0)))
    if not onp.all(lam >= 0.0):
        bad.append('negative multiplier at return: min lam = %r' % float(lam.min()))
    feas = cv * kappa0
    if not onp.all(feas > -tol - slack):
        bad.append('constraint violated beyond tol/kappa0: min kappa0*c = %r (tol %g)' % (float(feas.min()), tol))
    comp = onp.minimum(feas, lam)
    if not onp.all(comp <= tol / SQ + slack):
        bad.append('complementarity (min form) %r exceeds tol/(2-sqrt2) = %g' % (float(comp.max()), tol / SQ))
    rowsum = float(onp.sum((kappa / kappa0) * onp.linalg.norm(J, axis=1)))
    lagr = float(onp.linalg.norm(g - J.T @ lam))
    bound = tol + rowsum * tol / SQ
    gslack = 1e-9 * bound + 256 * 2.3e-16 * (float(onp.linalg.norm(g)) + float(onp.sum(onp.abs(J.T) @ onp.abs(lam))))
    if not lagr <= bound + gslack:
        bad.append('Lagrangian gradient norm %r exceeds tol*(1 + sum_i (kappa_i/kappa0_i)|grad c_i|/(2-sqrt2)) = %g' % (lagr, bound))
    return bad, dict(lagr=lagr, bound=bound, min_feas=float(feas.min()), max_comp=float(comp.max()),
                     max_product=float(onp.max(onp.abs(lam * cv))), active=[int(i) for i in onp.nonzero(lam > 10 * tol)[0]])


def convex_report(M, obj, f, c, p, x, kappa0, tol, rng, ref):
    """hypotheses and conclusions of C04_return_passes_test_of_the_problem / C04_convex_return_gap / C04_convex_return_lower on one
    normal return of a CONVEX problem (f convex, every c_i concave): -> (bad, tie, info)
    tie:  the oracle hypothesis of the theorems -- alObjective.gradient(x) IS grad f - J^T max(lam - kappa*c, 0) (al_gradient of the model)
    bad:  |grad_x AL| < tol;  f(x) - f(y) <= tol*|y-x| + tol/(2-sqrt2)*sum_i max(c_i(x), lam_i/kappa0_i) for feasible y (the reference
          minimiser when there is one, and random feasible points);  f(x*) - f(x) <= tol * sum_i lam*_i/kappa0_i"""
    jax, jnp, onp = M['jax'], M['jnp'], M['onp']
    xj = jnp.array(x)
    xa = onp.array(x)
    g = onp.array(jax.grad(f)(xj, p))
    lam, kappa, k0 = onp.array(obj.lam), onp.array(obj.kappa), onp.array(kappa0)
    m = len(lam)
    J = onp.array(jax.jacfwd(c)(xj, p)).reshape(m, -1)
    cv = onp.array(c(xj, p))
    bad, tie = [], []
    mu_eff = onp.maximum(lam - kappa * cv, 0.0)
    g_model = g - J.T @ mu_eff
    g_impl = onp.array(obj.gradient(xj))
    scale = float(onp.linalg.norm(g)) + float(onp.sum(onp.abs(J.T) @ onp.abs(mu_eff))) + 1e-300
    if not float(onp.linalg.norm(g_impl - g_model)) <= 1e-9 * tol + 512 * 2.3e-16 * (1.0 + scale + float(onp.linalg.norm(xa))):     # rounding of grad f itself (terms O(1+|x|)) when it nearly vanishes
        tie.append('alObjective.gradient(x) differs from grad f - J^T max(lam - kappa*c, 0) by %r (the al_gradient oracle hypothesis of the convex-clause theorems)'
                   % float(onp.linalg.norm(g_impl - g_model)))
    gn = float(onp.linalg.norm(g_impl))
    if not gn < tol * (1 + 1e-9):
        bad.append('returned although |grad_x AL| = %r >= tol = %g' % (gn, tol))
    slack_sum = float(onp.sum(onp.maximum(cv, lam / k0)))
    fx = float(f(xj, p))
    ys = []
    if ref is not None:
        ys.append(('reference minimiser', onp.array(ref[0])))
    n = len(xa)
    for _ in range(40):
        d = onp.array([rng.gauss(0, 1) for _ in range(n)])
        y = xa + 10.0 ** rng.uniform(-7, 0.7) * d / max(float(onp.linalg.norm(d)), 1e-300)
        if ref is not None and rng.random() < 0.3:
            y = onp.array(ref[0]) + rng.random() * (y - onp.array(ref[0]))     # towards the (feasible) minimiser
        ys.append(('random point', y))
    nfeas, worst = 0, -1e300
    for what, y in ys:
        cy = onp.array(c(jnp.array(y), p))
        if not onp.all(cy >= (0.0 if what == 'random point' else -1e-9)):
            continue
        nfeas += 1
        gap = fx - float(f(jnp.array(y), p))
        lim = tol * float(onp.linalg.norm(y - xa)) + tol / SQ * slack_sum
        worst = max(worst, gap - lim)
        if not gap <= lim * (1 + 1e-9) + 4e-13 * (1.0 + abs(fx)) + (0.0 if what == 'random point' else 1e-8 * scale):
            bad.append('convex problem, returned x is not tol-optimal against the feasible %s y = %r: f(x) - f(y) = %r exceeds tol*|y-x| + tol/(2-sqrt2)*sum max(c_i, lam_i/kappa0_i) = %r'
                       % (what, [float(a) for a in y], gap, lim))
            break
    info = dict(gap_points_feasible=nfeas, gap_worst_margin=worst if nfeas else None, slack_sum=slack_sum, grad_al_norm=gn)
    if ref is not None:
        lower = float(f(jnp.array(ref[0]), p)) - fx
        liml = tol * float(onp.sum(onp.array(ref[2]) / k0))
        info.update(lower_gap=lower, lower_limit=liml)
        if not lower <= liml * (1 + 1e-9) + 4e-13 * (1.0 + abs(fx)) + 1e-9 * tol:
            bad.append('convex problem: f(x*) - f(x) = %r exceeds tol * sum_i lam*_i/kappa0_i = %r (returned point is super-optimal beyond the proved infeasibility allowance)' % (lower, liml))
    return bad, tie, info


def run_e2e(spec):
    """one real solve; returns dict(status, bad=[...], info)"""
    M = mods()
    jnp, onp, Al, Eq, CO = M['jnp'], M['onp'], M['Al'], M['Eq'], M['CO']
    pr = build_problem(spec)
    r = random.Random(spec['seed'] + 17)
    n, m = pr['n'], pr['m']
    f, c = pr['f'], pr['c']
    p = (jnp.zeros(n),)
    lam0 = jnp.array([r.choice([0.0, 0.0, r.uniform(0, 2)]) for _ in range(m)])
    kappa0 = jnp.array([10.0 ** r.uniform(-1, 1) for _ in range(m)]) if spec.get('kappa', 'rand') == 'rand' else jnp.ones(m)
    tol = spec.get('tol', 1e-8)
    als = Al.get_settings(penalty_scaling=spec.get('ps', 4.0), use_second_order_update=spec.get('second', True),
                          num_initial_low_order_iterations=spec.get('nlow', 3), max_al_iters=spec.get('maxit', 60), tol=tol,
                          target_constraint_decrease_factor=spec.get('tdf', 0.75))
    subs = Eq.get_settings(tol=0.05 * tol, max_trust_iters=400)
    x0 = jnp.array(pr['x0'])
    bad, obs, tie, ref = [], [], [], None
    with quiet():
        obj = CO.ConstrainedObjective(f, c, x0, p, lam0, kappa0)

        def cb(x, pp):
            obs.append((onp.array(obj.lam), onp.array(obj.kappa)))
        try:
            x = Al.augmented_lagrange_solve(obj, x0, p, als, subs, callback=cb, useWarmStart=False)
            status = 'returned'
        except NameError:
            status = 'not-converged'
        except Exception as ex:          # a crash of a sub-component (e.g. GMRES/Cholesky) is not a normal return
            status = 'error:' + type(ex).__name__
    # after every outer iteration: multipliers >= 0 and no penalty parameter decreased
    for k, (lam, kap) in enumerate(obs):
        if k >= 1 and not onp.all(lam >= 0.0):
            bad.append('negative multiplier after outer iteration %d: %r' % (k - 1, lam.tolist()))
        if k >= 1 and not onp.all(kap >= obs[k - 1][1]):
            bad.append('penalty parameter decreased in outer iteration %d: %r -> %r' % (k - 1, obs[k - 1][1].tolist(), kap.tolist()))
    info = dict(status=status, outer_iterations=max(len(obs) - 1, 0), kinds=pr['kinds'], start=pr['start'])
    if status == 'returned':
        b2, rep = kkt_report(M, f, c, p, x, obj.lam, obj.kappa, kappa0, tol)
        bad += b2
        info.update(rep)
        if pr['qp'] is not None:
            ref = qp_active_set(*pr['qp'])
            if ref is not None:
                Q = pr['qp'][0]
                mu = float(onp.linalg.eigvalsh(Q)[0])
                dist = float(onp.linalg.norm(onp.array(x) - ref[0]))
                # proved distance bound (C04_approx_KKT_is_near_min) with the constants of the termination test
                cv = [float(a) for a in onp.array(c(jnp.array(x), p))]
                lim0, S_, Vi_ = near_min_bound(mu, rep['bound'], tol, cv, [float(a) for a in onp.array(obj.lam)], [float(a) for a in onp.array(kappa0)], ref[2])
                lim = lim0 * (1 + 1e-6) + 1e-13 * (1.0 + float(onp.linalg.norm(ref[0])))
                info.update(dist_to_reference=dist, dist_limit=lim, ref_active=ref[1], slack_S=S_, weighted_violation=Vi_)
                if not dist <= lim:
                    bad.append('returned point differs from the active-set reference minimiser by %r, more than the proved bound %g for a tol-KKT point (mu=%g)' % (dist, lim, mu))
        if spec['family'] in ('qp', 'exp', 'ball'):          # convex objective, concave constraints: the convex clause over lists of R
            b3, tie, rep3 = convex_report(M, obj, f, c, p, x, kappa0, tol, random.Random(spec['seed'] + 29), ref)
            bad += b3
            info.update(rep3)
    return dict(status=status, bad=bad, tie=tie, info=info)


def judge_bound(M, obj, f, p, x, idx, tol, qp):
    """conclusions for one normal return of bound_constrained_solve, judged against the parameters p of THAT call;
    qp = (Q, q) when f(., p) is the quadratic 1/2 x'Qx + q'x (exact minimiser by active-set enumeration), else None"""
    jax, jnp, onp = M['jax'], M['jnp'], M['onp']
    n = int(onp.array(x).shape[0])
    bad, info = [], {}
    # KKT in the scaled variables the solver works in: xBar = scaling*x, constraints xBar[idx] >= 0
    sc, isc = obj.scaling, obj.invScaling
    fbar = lambda xb, pp: f(isc * xb, pp)
    cbar = lambda xb, pp: xb[jnp.array(idx)]
    b2, rep = kkt_report(M, fbar, cbar, p, sc * x, obj.lam, obj.kappa, obj.constraintKappa, tol)
    bad += b2
    info.update(rep)
    mult = onp.array(obj.get_multipliers())
    if not onp.all(mult >= 0):
        bad.append('get_multipliers() negative')
    # the front end's own view, in ORIGINAL variables: scaling and invScaling are inverse to each other on every dof,
    # get_multipliers() are the multipliers of x[idx] >= 0 for f itself (independent Lagrangian gradient), and the
    # termination test evaluated through get_total_residual at the returned x holds
    sca, isca = onp.array(sc) * onp.ones(n), onp.array(isc) * onp.ones(n)
    if not onp.allclose(sca * isca, 1.0, rtol=1e-13, atol=0.0):
        bad.append('scaling * invScaling != 1 on some dof: %r' % (sca * isca).tolist())
    gx = onp.array(jax.grad(f)(jnp.array(x), p))
    E = onp.zeros((len(idx), n))
    for k_, i in enumerate(idx):
        E[k_, i] = 1.0
    lag = float(onp.linalg.norm(gx - E.T @ mult))
    lim_l = float(onp.max(sca)) * rep['bound'] * 1.001 + 1e-12 * (1.0 + float(onp.linalg.norm(gx)))
    info.update(lagr_original=lag, lagr_original_limit=lim_l)
    if not lag <= lim_l:
        bad.append('in original variables |grad f(x) - E^T get_multipliers()| = %r exceeds %r (max scaling x scaled KKT bound): returned multipliers are not KKT multipliers of the unscaled problem' % (lag, lim_l))
    tr = float(onp.linalg.norm(onp.array(obj.get_total_residual(jnp.array(x)))))
    if not tr <= tol * (1 + 1e-6) + 1e-12:
        bad.append('get_total_residual at the returned point is %r, not below tol = %g' % (tr, tol))
    xo = onp.array(x)[idx]
    if not onp.all(xo >= -(tol / onp.array(obj.constraintKappa)) / sca[idx] - 1e-15):
        bad.append('returned x violates a bound beyond tol/(kappa0*scaling): min x[idx] = %r' % float(xo.min()))
    if qp is not None:
        Q, q = qp
        A = onp.zeros((len(idx), n))
        for k_, i in enumerate(idx):
            A[k_, i] = 1.0
        ref = qp_active_set(Q, q, A, onp.zeros(len(idx)))
        if ref is not None:
            dist = float(onp.linalg.norm(onp.array(x) - ref[0]))
            # proved bound in the scaled variables the solver works in (objective x'D^-1 Q D^-1 x / 2, multipliers lam*/scaling)
            Dm = onp.diag(onp.array(isc) * onp.ones(n))
            mub = float(onp.linalg.eigvalsh(Dm @ Q @ Dm)[0])
            xb = onp.array(sc * x)
            lim0, S_, Vi_ = near_min_bound(mub, rep['bound'], tol, [float(xb[i]) for i in idx], [float(a) for a in onp.array(obj.lam)],
                                           [float(a) for a in onp.array(obj.constraintKappa)], [float(ref[2][k_] / (onp.array(sc) * onp.ones(n))[i]) for k_, i in enumerate(idx)])
            lim = float(onp.max(onp.array(isc))) * lim0 * (1 + 1e-6) + 1e-13 * (1.0 + float(onp.linalg.norm(ref[0])))
            info.update(dist_to_reference=dist, dist_limit=lim)
            if not dist <= lim:
                bad.append('bound-constrained solution differs from the active-set reference by %r, more than the proved bound %g' % (dist, lim))
    return bad, info


def run_bound(spec):
    """bound-constrained front end: min f(x) s.t. x[idx] >= 0 through BoundConstrainedObjective / bound_constrained_solve"""
    M = mods()
    jax, jnp, onp, Al, Eq = M['jax'], M['jnp'], M['onp'], M['Al'], M['Eq']
    from scipy.sparse import csc_matrix
    r = random.Random(spec['seed'])
    n = spec['n']
    G = onp.array([[r.uniform(-1, 1) for _ in range(n)] for _ in range(n)])
    Q = G @ G.T + onp.diag([10.0 ** r.uniform(-1, 1.5) for _ in range(n)])
    xu = onp.array([r.uniform(-2, 2) for _ in range(n)])
    q = -Q @ xu
    idx = sorted(r.sample(range(n), spec['m']))
    Qj, qj = jnp.array(Q), jnp.array(q)
    quartic = spec.get('quartic', False)
    f = (lambda x, p: 0.5 * x @ Qj @ x + qj @ x + 0.05 * jnp.sum(x ** 4) + p[0] @ x) if quartic else (lambda x, p: 0.5 * x @ Qj @ x + qj @ x + p[0] @ x)
    p = (jnp.zeros(n),)
    x0 = jnp.array([abs(r.uniform(0, 1)) for _ in range(n)])

    class Strat:
        def initialize(self, x, p):
            self.K = csc_matrix(onp.array(jax.hessian(f)(jnp.array(x), p)))

        def precond_at_attempt(self, attempt):
            from scipy.sparse import diags
            return self.K if attempt == 0 else self.K + diags(10.0 ** (-5 + attempt) * onp.abs(self.K.diagonal()), 0, format='csc')
    tol = spec.get('tol', 1e-8)
    bad, obs = [], []
    with quiet():
        obj = M['BCO'].BoundConstrainedObjective(f, x0, p, jnp.array(idx), constraintStiffnessScaling=spec.get('css', 1.0),
                                                 precondStrategy=Strat() if spec.get('scaled', True) else None)
        lam_init, kap_init = onp.array(obj.lam), onp.array(obj.kappa)
        g0 = onp.array((jax.grad(f)(x0, p) * obj.invScaling)[jnp.array(idx)])     # what __init__ clips: (grad f(x0) * invScaling)[idx]
        als = Al.get_settings(tol=tol, max_al_iters=60, use_second_order_update=spec.get('second', True))
        subs = Eq.get_settings(tol=0.05 * tol, max_trust_iters=400)
        xbars = []
        # penalties left over from an earlier solve must be reset by the front end (reset_kappa): start from grown penalties
        obj.kappa = obj.kappa * 8.0

        def cb(x, pp):
            obs.append((onp.array(obj.lam), onp.array(obj.kappa)))
            xbars.append(onp.array(x))
        try:
            x = M['BCS'].bound_constrained_solve(obj, x0, p, als, subs, callback=cb, useWarmStart=False)
            status = 'returned'
        except NameError:
            status = 'not-converged'
        except Exception as ex:
            status = 'error:' + type(ex).__name__
    if not onp.all(lam_init >= 0):
        bad.append('initial multipliers of BoundConstrainedObjective negative')
    # the front-end model (bc_initial_lam / bc_initial_kappa / bc_solve of model/M_C04_AL.v) against the implementation
    tie = []
    if not (onp.array_equal(lam_init, onp.maximum(g0, 0.0)) and onp.all(kap_init == 0.25)):
        tie.append('initial state of BoundConstrainedObjective is not (max(grad*invScaling, 0)[idx], 0.25): lam %r kappa %r' % (lam_init.tolist(), kap_init.tolist()))
    if obs and not onp.array_equal(obs[0][1], onp.array(obj.constraintKappa)):
        tie.append('bound_constrained_solve did not start from kappa = constraintKappa (reset_kappa): %r' % obs[0][1].tolist())
    if status == 'returned':
        if not (xbars and onp.allclose(onp.array(x), onp.array(obj.invScaling) * xbars[-1], rtol=1e-15, atol=0.0)):
            tie.append('returned point is not invScaling * (last scaled iterate shown to the callback)')
        if not onp.allclose(onp.array(obj.get_multipliers()), onp.array(obj.lam) * onp.array(obj.scaling * jnp.ones(n))[idx], rtol=1e-15, atol=0.0):
            tie.append('get_multipliers() is not lam * scaling[constrainedIndices]')
        if not onp.all(onp.array(obj.kappa) >= onp.array(obj.constraintKappa)):
            tie.append('a penalty parameter is below constraintKappa at the return of bound_constrained_solve')
    for k, (lam, kap) in enumerate(obs):
        if not onp.all(lam >= 0.0):
            bad.append('negative multiplier at callback %d' % k)
        if k >= 1 and not onp.all(kap >= obs[k - 1][1]):
            bad.append('penalty parameter decreased in outer iteration %d' % (k - 1))
    info = dict(status=status, outer_iterations=max(len(obs) - 1, 0), idx=idx, init=([float(a) for a in g0], [float(a) for a in lam_init]))
    if status == 'returned':
        b2, inf2 = judge_bound(M, obj, f, p, x, idx, tol, None if quartic else (Q, q))
        bad += b2
        info.update(inf2)
    return dict(status=status, bad=bad, tie=tie, info=info)


FLAG_COMBOS = [(ws, up, ub) for ws in (False, True) for up in (False, True) for ub in (False, True)]


def run_steps(spec):
    """load stepping: several successive solves on ONE constrained objective with parameters p that change from call to call, under
    every combination of useWarmStart / updatePrecond / updatePrecondBeforeWarmStart.  Each normal return is judged against the
    parameters passed to THAT call, independently of the state held on the objective: KKT residual recomputed from p with jax.grad of
    the user functions, and the exact minimiser (active-set enumeration) for the strictly convex QP family.
    spec: dict(kind='steps', front='al'|'bound', family='qp'|'exp', n, m, seed, second, flags=[[ws, up, ub], ...])
    f(x, p) = 1/2 x'Qx + (q - load).x [+ smooth convex term],  c(x, p) = A x - b - shift  (front 'al'),  x[idx] >= 0 (front 'bound'),
    p = Params(bc_data = [load, shift])"""
    M = mods()
    jax, jnp, onp, Al, Eq, CO = M['jax'], M['jnp'], M['onp'], M['Al'], M['Eq'], M['CO']
    from optimism import Objective
    from scipy.sparse import csc_matrix, diags
    r = random.Random(spec['seed'])
    n, m, front, fam = spec['n'], spec['m'], spec['front'], spec['family']
    G = onp.array([[r.uniform(-1, 1) for _ in range(n)] for _ in range(n)])
    Q = G @ G.T + onp.diag([10.0 ** r.uniform(-0.5, 1) for _ in range(n)])
    xu = onp.array([r.uniform(-2, 2) for _ in range(n)])
    q = -Q @ xu
    Qj, qj = jnp.array(Q), jnp.array(q)
    d = jnp.array([r.uniform(0.2, 1.0) for _ in range(n)])
    extra = (lambda x: jnp.sum(jnp.exp(d * x)) + jnp.sum(jnp.log(jnp.cosh(x)))) if fam == 'exp' else (lambda x: 0.0)
    f = lambda x, p: 0.5 * x @ Qj @ x + qj @ x - p[0][:n] @ x + extra(x)
    if front == 'al':
        A = onp.array([[r.uniform(-1, 1) for _ in range(n)] for _ in range(m)])
        A /= onp.linalg.norm(A, axis=1, keepdims=True)
        b = A @ xu + onp.array([r.choice([r.uniform(0.2, 1.5), 0.0, -r.uniform(0.3, 1.0)]) for _ in range(m)])
        Aj, bj = jnp.array(A), jnp.array(b)
        c = lambda x, p: Aj @ x - bj - p[0][n:]
        idx = None
    else:
        idx = sorted(r.sample(range(n), m))
        A, b = onp.zeros((m, n)), onp.zeros(m)
        for k_, i in enumerate(idx):
            A[k_, i] = 1.0
        c = None

    def params(k):
        load = onp.array([r.gauss(0, 1.0) for _ in range(n)]) * (0.0 if k == 0 else 1.0)
        shift = onp.array([r.gauss(0, 0.3) for _ in range(m)]) * (1.0 if (k > 0 and front == 'al') else 0.0)
        return load, shift, Objective.Params(bc_data=jnp.array(onp.concatenate([load, shift])))

    class Strat:
        def initialize(self, x, p):
            self.K = csc_matrix(onp.array(jax.hessian(f)(jnp.array(x), p)))

        def precond_at_attempt(self, attempt):
            return self.K if attempt == 0 else self.K + diags(10.0 ** (-5 + attempt) * onp.abs(self.K.diagonal()), 0, format='csc')
    tol = spec.get('tol', 1e-8)
    als = Al.get_settings(tol=tol, max_al_iters=60, use_second_order_update=spec.get('second', True))
    subs = Eq.get_settings(tol=0.05 * tol, max_trust_iters=400)
    load0, shift0, p0 = params(0)
    x = jnp.array([abs(r.uniform(0.1, 1)) for _ in range(n)]) if front == 'bound' else jnp.array(xu + onp.array([r.uniform(-1, 1) for _ in range(n)]))
    bad, steps = [], []
    with quiet():
        if front == 'al':
            kappa0 = jnp.array([10.0 ** r.uniform(-0.5, 0.5) for _ in range(m)])
            obj = CO.ConstrainedObjective(f, c, x, p0, jnp.zeros(m), kappa0)
        else:
            obj = M['BCO'].BoundConstrainedObjective(f, x, p0, jnp.array(idx), constraintStiffnessScaling=spec.get('css', 1.0), precondStrategy=Strat())
            kappa0 = obj.constraintKappa
    for k, (ws, up, ub) in enumerate(spec['flags']):
        load, shift, p = (load0, shift0, p0) if k == 0 else params(k)
        obs = []

        def cb(xx, pp):
            obs.append((onp.array(obj.lam), onp.array(obj.kappa)))
        with quiet():
            try:
                if front == 'al':
                    x1 = Al.augmented_lagrange_solve(obj, jnp.array(x), p, als, subs, callback=cb, useWarmStart=ws, updatePrecond=up,
                                                     updatePrecondBeforeWarmStart=ub)
                else:
                    x1 = M['BCS'].bound_constrained_solve(obj, jnp.array(x), p, als, subs, callback=cb, useWarmStart=ws, updatePrecond=up)
                status = 'returned'
            except NameError:
                status = 'not-converged'
            except Exception as ex:          # a crash of a sub-component (GMRES / Cholesky / CG) is not a normal return
                status = 'error:' + type(ex).__name__
        tag = 'step %d (useWarmStart=%s, updatePrecond=%s%s)' % (k, ws, up, ', updatePrecondBeforeWarmStart=%s' % ub if front == 'al' else '')
        rec = dict(step=k, flags=[ws, up, ub], status=status, outer_iterations=max(len(obs) - 1, 0))
        for j, (lam, kap) in enumerate(obs):
            if j >= 1 and not onp.all(lam >= 0.0):
                bad.append('%s: negative multiplier after outer iteration %d' % (tag, j - 1))
            if j >= 1 and not onp.all(kap >= obs[j - 1][1]):
                bad.append('%s: penalty parameter decreased in outer iteration %d' % (tag, j - 1))
        if status == 'returned':
            x = x1
            # the parameters of THIS call are what the objective must hold afterwards (state clause shared with C19)
            held = obj.p[0] if obj.p is not None else None
            if held is None or not onp.array_equal(onp.array(held), onp.array(p[0])):
                bad.append('%s: after the call the objective does not hold the parameters that were passed (objective.p is stale)' % tag)
            qe = q - load
            if front == 'al':
                b2, rep = kkt_report(M, f, c, p, x, obj.lam, obj.kappa, kappa0, tol)
                if fam == 'qp':
                    ref = qp_active_set(Q, qe, A, b + shift)
                    if ref is not None:
                        mu = float(onp.linalg.eigvalsh(Q)[0])
                        dist = float(onp.linalg.norm(onp.array(x) - ref[0]))
                        cv = [float(a) for a in onp.array(c(jnp.array(x), p))]
                        lim0, S_, Vi_ = near_min_bound(mu, rep['bound'], tol, cv, [float(a) for a in onp.array(obj.lam)], [float(a) for a in onp.array(kappa0)], ref[2])
                        lim = lim0 * (1 + 1e-6) + 1e-13 * (1.0 + float(onp.linalg.norm(ref[0])))
                        rep.update(dist_to_reference=dist, dist_limit=lim)
                        if not dist <= lim:
                            b2.append('returned point differs from the minimiser of the problem posed with the parameters of this call (active-set reference) by %r, more than the proved bound %g for a tol-KKT point' % (dist, lim))
            else:
                b2, rep = judge_bound(M, obj, f, p, x, idx, tol, (Q, qe) if fam == 'qp' else None)
            bad += ['%s: %s' % (tag, t) for t in b2]
            rec.update({kk: rep[kk] for kk in ('lagr', 'bound', 'max_comp', 'dist_to_reference', 'dist_limit', 'active') if kk in rep})
        steps.append(rec)
    nret = sum(1 for s_ in steps if s_['status'] == 'returned')
    return dict(status='returned' if nret == len(steps) else ('partly-returned' if nret else steps[-1]['status']), bad=bad,
                info=dict(status='%d/%d steps returned' % (nret, len(steps)), steps=steps, outer_iterations=sum(s_['outer_iterations'] for s_ in steps),
                          active=steps[-1].get('active', [])))


def step_specs(ctx, stream, count):
    """histories of 3-4 calls; step 0 uses the constructor's parameters; the flag combinations of the later steps cycle through all
    of FLAG_COMBOS (shuffled per run) so that every combination occurs, on both front ends"""
    r = ctx.rng(stream)
    cyc = {'al': list(FLAG_COMBOS), 'bound': [(ws, up, True) for ws in (False, True) for up in (False, True)]}   # bound front end has no third flag
    pos = {'al': 0, 'bound': 0}
    for v in cyc.values():
        r.shuffle(v)
    out = []
    for k in range(count):
        front = 'al' if k % 3 != 2 else 'bound'
        n = r.choice([2, 3, 4]) if ctx.tier != 'thorough' else r.choice([2, 3, 5, 6])
        nsteps = r.choice([3, 4])
        flags = [[r.random() < 0.5, True, True]]       # the first call must factorise the preconditioner (before any warm start)
        for _ in range(nsteps - 1):
            flags.append(list(cyc[front][pos[front] % len(cyc[front])]))
            pos[front] += 1
        out.append(dict(kind='steps', front=front, family='qp' if k % 4 != 3 else 'exp', n=n, m=r.randrange(1, n + 1), seed=r.randrange(1 << 30),
                        second=r.random() < 0.5, css=r.choice([1.0, 0.5, 3.0]), flags=flags))
    return out


def e2e_specs(ctx, stream, count):
    r = ctx.rng(stream)
    out = []
    fams = ['qp', 'qp', 'exp', 'ball', 'ncvx']
    for k in range(count):
        fam = fams[k % len(fams)]
        n = r.choice([2, 3, 4, 6, 8]) if ctx.tier == 'thorough' else r.choice([2, 3, 5])
        m = r.randrange(1, min(n, 5) + 1) if fam != 'ball' else r.randrange(1, 4)
        out.append(dict(kind='e2e', family=fam, n=n, m=m, seed=r.randrange(1 << 30), second=r.random() < 0.6,
                        ps=r.choice([1.0, 2.0, 4.0, 10.0]), nlow=r.choice([0, 1, 3]), tol=r.choice([1e-8, 1e-7, 1e-9]),
                        kappa=r.choice(['rand', 'ones'])))
    return out


def bound_specs(ctx, stream, count):
    r = ctx.rng(stream)
    out = []
    for k in range(count):
        n = r.choice([2, 3, 4, 6])
        out.append(dict(kind='bound', n=n, m=r.randrange(1, n + 1), seed=r.randrange(1 << 30), scaled=(k % 4 != 3),
                        quartic=r.random() < 0.4, second=r.random() < 0.5, css=[0.1, 4.0, 1.0][k % 3]))
    return out


def run_spec(spec):
    return run_bound(spec) if spec['kind'] == 'bound' else run_steps(spec) if spec['kind'] == 'steps' else run_e2e(spec)


# ============================================================================ L1: scripted-oracle trace correspondence

class MockObjective:
    """duck-typed alObjective with ARBITRARY scripted constraint / gradient values (cached per point so that repeated
    evaluations agree); ncp is the real vmapped fischer_burmeister.  Exercises the decision logic of AlSolver with oracles
    that no real objective would produce (tiny gradient with large complementarity error and vice versa)."""

    def __init__(self, M, n, m, kappa0, rng, tol):
        self.M, self.n, self.m, self.r, self.tol = M, n, m, rng, tol
        self.constraintKappa = M['jnp'].array(kappa0)
        self.p = (M['jnp'].zeros(1),)
        self.lam = None
        self.kappa = None
        self.cache = {}
        self.mode = 'random'
        self.fb = M['jax'].jit(M['jax'].vmap(M['CO'].fischer_burmeister))

    def _vals(self, x):
        key = self.M['onp'].array(x).tobytes()
        if key not in self.cache:
            r, onp = self.r, self.M['onp']
            mode = self.mode if r.random() < 0.8 else 'random'
            if mode == 'converged':      # tiny gradient, constraints exactly active or clearly inactive
                g = [r.gauss(0, 1e-3 * self.tol) for _ in range(self.n)]
                c = [r.choice([0.0, r.uniform(5, 50)]) for _ in range(self.m)]
            elif mode == 'gradsmall':    # tiny gradient but violated constraints: must not terminate
                g = [r.gauss(0, 1e-3 * self.tol) for _ in range(self.n)]
                c = [r.choice([-1, 1]) * 10.0 ** r.uniform(-6, 0) for _ in range(self.m)]
            elif mode == 'ncpsmall':     # complementarity fine, gradient not
                g = [r.gauss(0, 10.0 ** r.uniform(-8, 0)) for _ in range(self.n)]
                c = [r.choice([0.0, r.uniform(5, 50)]) for _ in range(self.m)]
            else:
                g = [r.gauss(0, 10.0 ** r.uniform(-9, 0)) for _ in range(self.n)]
                c = [r.choice([-1, 1, 1]) * 10.0 ** r.uniform(-9, 1) * r.choice([0.0, 1.0, 1.0]) for _ in range(self.m)]
            self.cache[key] = (onp.array(g), onp.array(c))
        return self.cache[key]

    def constraint(self, x):
        return self.M['jnp'].array(self._vals(x)[1])

    def gradient(self, x):
        return self.M['jnp'].array(self._vals(x)[0])

    def ncp(self, x):
        return self.fb(self.constraint(x), self.lam, self.constraintKappa)

    def total_residual(self, x):
        return self.M['jnp'].hstack((self.gradient(x), self.ncp(x)))

    def update_precond(self, x):
        pass

    def constrained_residual(self, xl):      # only passed on to the (replaced) linear_update
        raise RuntimeError('mock constrained_residual must not be evaluated')


class Recorder:
    """runs the real augmented_lagrange_solve on a real ConstrainedObjective with a scripted sub_problem_solver and a
    scripted / logged linear_update; records the event trace and every oracle value the model needs"""

    def __init__(self, M, obj, n, m, script, rng):
        self.M, self.obj, self.n, self.m, self.script, self.r = M, obj, n, m, script, rng
        self.it = -1
        self.events = []
        self.subs, self.cons, self.grads, self.lins = {}, {}, {}, {}
        self.buf = io.StringIO()
        self.pending = None
        self.in_sub = False
        self.in_solver = False
        self.ls_k = 0
        self.last_ncp = None
        self.subtol_seen = None
        self.final_c = self.final_g = None

    def text(self):
        t = self.buf.getvalue()
        self.buf.seek(0)
        self.buf.truncate(0)
        return t

    def flush(self):
        t = self.text()
        if self.pending is not None:
            it, k, trial = self.pending
            self.events.append(('ls', it, k, trial, 'no improvement' not in t))
            self.pending = None
        return t

    def run(self, x0, als, subs, call=None):
        M, obj, onp, jnp = self.M, self.obj, self.M['onp'], self.M['jnp']
        Al, Eq = M['Al'], M['Eq']
        o_con, o_res, o_ncp, o_up = obj.constraint, obj.total_residual, obj.ncp, obj.update_precond
        o_lin = Al.linear_update
        rec = self

        def callback(x, p):
            rec.flush()
            rec.it += 1
            rec.ls_k = 0
            rec.in_sub = False
            rec.events.append(('cb', rec.it, onp.array(x), onp.array(obj.lam), onp.array(obj.kappa)))

        def lin(alObjective, x, rhs_func, alSettings):
            rec.flush()
            mode = rec.script['lin'][min(rec.it, len(rec.script['lin']) - 1)]
            if mode[0] == 'real':
                rec.in_solver = True
                try:
                    dx, dl, code = o_lin(alObjective, x, rhs_func, alSettings)
                finally:
                    rec.in_solver = False
                dx, dl = jnp.array(dx) * mode[1], jnp.array(dl) * mode[1]
                code = int(code)
            else:
                dx = jnp.array([rec.r.gauss(0, mode[1]) for _ in range(rec.n)])
                dl = jnp.array([rec.r.gauss(0, mode[1]) for _ in range(rec.m)])
                code = mode[2]
            rec.text()
            rec.lins[rec.it] = (onp.array(dx), onp.array(dl), code != 0)
            rec.events.append(('so', rec.it, code != 0))
            return dx, dl, code

        def total_residual(y):
            if rec.in_solver:
                return o_res(y)
            t = rec.flush()
            res = o_res(y)
            ra = onp.array(res)
            if not rec.in_sub:
                site = (rec.it, ('LS', rec.ls_k))
                rec.cons[site] = onp.array(o_con(y))
                rec.grads[site] = ra[:rec.n]
                rec.pending = (rec.it, rec.ls_k, float(jnp.linalg.norm(res)))
                rec.ls_k += 1
            else:
                site = (rec.it, 'Sub')
                rec.grads[site] = ra[:rec.n]
                rec.events.append(('after', rec.it, onp.array(y), onp.array(obj.lam), onp.array(obj.kappa), rec.last_ncp,
                                   'Poor progress' in t, float(jnp.linalg.norm(res))))
                rec.in_sub = False
            return res

        def constraint(x):
            cv = o_con(x)
            if rec.in_sub and not rec.in_solver:
                rec.cons[(rec.it, 'Sub')] = onp.array(cv)
            return cv

        def ncp(x):
            v = o_ncp(x)
            if not rec.in_solver:
                rec.last_ncp = onp.abs(onp.array(v))
            return v

        def update_precond(x):
            if rec.in_solver:
                return o_up(x)
            rec.flush()
            if rec.it < 0 and getattr(rec, 'front', None) is not None:      # a front end's own update_precond, before the outer loop
                rec.front.append(('bcpu', onp.array(x)))
            else:
                rec.events.append(('pu', rec.it))
            if rec.script['need_precond']:
                o_up(x)
            rec.text()

        def sub_solver(alObjective, x, settings, cb):
            rec.flush()
            mode = rec.script['sub'][min(rec.it, len(rec.script['sub']) - 1)]
            if mode[0] in ('real', 'noisy'):
                rec.in_solver = True
                try:
                    xs, ok = Eq.trust_region_minimize(alObjective, x, settings, None)
                finally:
                    rec.in_solver = False
                xs = onp.array(xs)
                if mode[0] == 'noisy':
                    xs = xs + onp.array([rec.r.gauss(0, mode[1]) for _ in range(rec.n)])
                ok = bool(ok) if mode[2] is None else mode[2]
            else:
                xs = onp.array([rec.r.uniform(-2, 2) for _ in range(rec.n)])
                ok = mode[2]
                if isinstance(obj, MockObjective):
                    obj.mode = mode[1]
            rec.text()
            rec.subs[rec.it] = (xs, ok)
            rec.events.append(('sub', rec.it, float(settings.tol), ok))
            rec.in_sub = True
            return jnp.array(xs), ok

        obj.constraint, obj.total_residual, obj.ncp, obj.update_precond = constraint, total_residual, ncp, update_precond
        Al.linear_update = lin
        try:
            with contextlib.redirect_stdout(self.buf):
                try:
                    if call is not None:       # another front end around the same loop (bound_constrained_solve: BCRecorder)
                        x = call(callback, sub_solver)
                    else:
                        x = Al.augmented_lagrange_solve(obj, jnp.array(x0), obj.p, als, subs, callback=callback,
                                                        sub_problem_solver=sub_solver, useWarmStart=False, updatePrecond=False)
                    self.flush()
                    out = ('ret', onp.array(x), onp.array(obj.lam), onp.array(obj.kappa))
                    # what the conclusion is judged on: constraint and grad_x AL re-evaluated at the returned point with the
                    # returned multipliers (independent of which evaluations the loop itself made and the recorder saw)
                    self.final_c = onp.array(o_con(x))
                    self.final_g = onp.array(o_res(x))[:self.n]
                except NameError:
                    self.flush()
                    out = ('nc', None, onp.array(obj.lam), onp.array(obj.kappa))
                except Exception as ex:      # anything else is not an exit of the modelled loop: reported as a broken correspondence
                    self.flush()
                    out = ('err', None, onp.array(obj.lam), onp.array(obj.kappa), '%s: %s' % (type(ex).__name__, str(ex)[:200]))
        finally:
            Al.linear_update = o_lin
            del obj.constraint, obj.total_residual, obj.ncp, obj.update_precond
        return out


def cvec(v):
    return C.clist([C.cf(float(a)) for a in v])


def site_term(site):
    it, ph = site
    return '(%d%%nat, %s)' % (it, 'Sub' if ph == 'Sub' else '(LS %d)' % ph[1])


def model_expr(case, rec):
    s = case['settings']
    cfg = ('(@Build_settings float %s %s %s false %d %d %s %s)' %
           (C.cf(s['ps']), C.cf(s['tdf']), 'true' if s['second'] else 'false', s['nlow'], s['maxit'], C.cf(s['tol']), C.cf(s['subtol'])))
    subs = C.clist(['(%s, (%s, %s))' % (site_term((it, 'Sub')), cvec(x), 'true' if ok else 'false') for it, (x, ok) in sorted(rec.subs.items())])
    cons = C.clist(['(%s, %s)' % (site_term(k), cvec(v)) for k, v in rec.cons.items()])
    grads = C.clist(['(%s, %s)' % (site_term(k), cvec(v)) for k, v in rec.grads.items()])
    lins = C.clist(['(%s, (%s, %s, %s))' % (site_term((it, 'Sub')), cvec(dx), cvec(dl), 'true' if fl else 'false')
                    for it, (dx, dl, fl) in sorted(rec.lins.items())])
    if case.get('kind') == 'bct':      # the complete bound-constrained front end (model/M_C04_BC.v) on the same logged oracles
        ws, up, sc = case['flags']
        return ('enc_bc_run (bc_front %s (scripted %s %s %s %s) (fun _ => %s) (Build_bc_flags %s %s %s) %s %s %s %s %s %s)' %
                (cfg, subs, cons, grads, lins, cvec(rec.warm_dx if rec.warm_dx is not None else []),
                 'true' if ws else 'false', 'true' if up else 'false', 'true' if sc else 'false',
                 cvec(case['scaling']), cvec(case['isc']), cvec(case['sc_c']), cvec(case['kappa0']), cvec(case['x0']), cvec(case['lam0'])))
    return ('enc_run (al_solve %s (scripted %s %s %s %s) %s %s %s %s)' %
            (cfg, subs, cons, grads, lins, cvec(case['kappa0']), cvec(case['x0']), cvec(case['lam0']), cvec(case['kap0'])))


def parse_trace(z, n, m):
    i = 0
    evs = []

    def fl(k):
        nonlocal i
        v = C.dec_floats(z[i:i + 2 * k])
        i += 2 * k
        return v

    def iz(k=1):
        nonlocal i
        v = z[i:i + k]
        i += k
        return v if k > 1 else v[0]
    while i < len(z):
        tag = iz()
        if tag == 1:
            evs.append(('cb', iz(), fl(n), fl(m), fl(m)))
        elif tag == 2:
            evs.append(('so', iz(), bool(iz())))
        elif tag == 3:
            it, k = iz(), iz()
            t = fl(1)[0]
            evs.append(('ls', it, k, t, bool(iz())))
        elif tag == 4:
            evs.append(('pu', iz()))
        elif tag == 5:
            it = iz()
            t = fl(1)[0]
            evs.append(('sub', it, t, bool(iz())))
        elif tag == 6:
            it = iz()
            x, lam, kap, ncpe = fl(n), fl(m), fl(m), fl(m)
            poor = [bool(b) for b in z[i:i + m]]
            i += m
            grew = bool(iz())
            evs.append(('after', it, x, lam, kap, ncpe, grew, fl(1)[0], poor))
        elif tag in (7, 8):
            evs.append(('ret' if tag == 7 else 'nc', fl(n), fl(m), fl(m)))
        elif tag == 11:      # ---- events of the bound-constrained front end (enc_bc_event / enc_bc_outcome of model/M_C04_BC.v)
            evs.append(('reset', fl(m)))
        elif tag == 12:
            evs.append(('bcpu', fl(n)))
        elif tag == 13:
            evs.append(('warm', fl(n), fl(n)))
        elif tag == 14:
            evs.append(('assign', bool(iz())))
        elif tag == 15:
            evs.append(('spcb', fl(n)))
        elif tag == 16:
            evs.append(('nested',))
        elif tag == 17:
            evs.append(('bcret', fl(n), fl(m), fl(m), fl(m)))
        elif tag == 18:
            evs.append(('bcnc',))
        else:
            raise C.CoqError('unparsable model trace at %d: tag %r' % (i, tag))
    return evs


def vclose(a, b, scale=1.0):
    return len(a) == len(b) and all(C.close(float(x), float(y), rtol=1e-9, atol=1e-11 * scale) for x, y in zip(a, b))


def compare_traces(case, rec, out, mev):
    """-> (None | mismatch text, near_tie flag)"""
    iev = list(rec.events) + [out]
    errN = 1e64
    tol = case['settings']['tol']
    margins = []
    for e in iev:
        if e[0] == 'ls':
            margins.append(abs(e[3] - errN) / max(abs(e[3]), abs(errN), 1e-300))
            if e[4]:
                errN = e[3]
        elif e[0] == 'after':
            margins.append(abs(e[7] - tol) / tol)
            errN = e[7]
        else:
            margins.append(1.0)
    for j, (a, b) in enumerate(zip(iev, mev)):
        near = min(margins[:j + 1] + [1.0]) < 1e-7
        if a[0] != b[0]:
            return 'event %d: implementation %s, model %s' % (j, a[0], b[0]), near
        k = a[0]
        sc = 1.0
        if k == 'cb':
            ok = a[1] == b[1] and vclose(a[2], b[2]) and vclose(a[3], b[3]) and vclose(a[4], b[4])
        elif k == 'so':
            ok = a[1:] == b[1:]
        elif k == 'ls':
            ok = a[1] == b[1] and a[2] == b[2] and C.close(a[3], b[3], rtol=1e-9, atol=1e-13) and a[4] == b[4]
        elif k == 'pu':
            ok = a[1] == b[1]
        elif k == 'sub':
            ok = a[1] == b[1] and C.close(a[2], b[2], rtol=1e-9, atol=0.0) and a[3] == b[3]
        elif k == 'after':
            ok = (a[1] == b[1] and vclose(a[2], b[2]) and vclose(a[3], b[3]) and vclose(a[4], b[4]) and vclose(a[5], b[5], sc)
                  and a[6] == b[6] and C.close(a[7], b[7], rtol=1e-9, atol=1e-13))
            if ok and a[6]:
                # the poor flags are observable through which penalties grew
                prev = [e for e in iev[:j] if e[0] == 'cb'][-1][4]
                ps = case['settings']['ps']
                if ps != 1.0:
                    poor_impl = [float(x) != float(y) for x, y in zip(a[4], prev)]
                    ok = poor_impl == b[8]
        elif k == 'ret':
            ok = vclose(a[1], b[1]) and vclose(a[2], b[2]) and vclose(a[3], b[3])
        else:
            ok = vclose(a[2], b[2]) and vclose(a[3], b[3])
        if not ok:
            return 'event %d (%s): implementation %r, model %r' % (j, k, _short(a), _short(b)), near
    if len(iev) != len(mev):
        return 'trace lengths differ: implementation %d events, model %d' % (len(iev), len(mev)), min(margins + [1.0]) < 1e-7
    return None, False


def _short(e):
    return tuple((x.tolist() if hasattr(x, 'tolist') else x) for x in e)


def l1_cases(ctx):
    """-> list of case dicts (shape groups share one ConstrainedObjective so that jit compilation is amortised)"""
    r = ctx.rng('l1')
    shapes = [(2, 1), (2, 2), (3, 2), (3, 3), (4, 2), (4, 4)] if ctx.tier == 'thorough' else [(2, 2), (3, 1), (3, 3)]
    per = ctx.n(5, 20)
    cases = []
    for (n, m) in shapes:
        for k in range(per):
            cases.append(dict(n=n, m=m, seed=r.randrange(1 << 30), style=k % 5))
        for k in range(ctx.n(12, 60)):      # mock objective: arbitrary oracle values (cheap)
            cases.append(dict(n=n, m=m, seed=r.randrange(1 << 30), style=5))
    return cases


def run_l1(ctx):
    M = mods()
    jnp, onp, Al, Eq, CO = M['jnp'], M['onp'], M['Al'], M['Eq'], M['CO']
    cases = l1_cases(ctx)
    objs = {}
    runs = []
    for case in cases:
        n, m = case['n'], case['m']
        r = random.Random(case['seed'])
        if (n, m) not in objs:
            kappa0 = onp.array([10.0 ** r.uniform(-1, 1) for _ in range(m)])

            def f(x, p, n=n):
                Q = p[0][:n * n].reshape(n, n)
                q = p[0][n * n:n * n + n]
                return 0.5 * x @ Q @ x + q @ x

            def c(x, p, n=n, m=m):
                A = p[0][n * n + n:n * n + n + m * n].reshape(m, n)
                b = p[0][n * n + n + m * n:]
                return A @ x - b
            p0 = jnp.zeros(n * n + n + m * n + m)
            with quiet():
                objs[(n, m)] = (CO.ConstrainedObjective(f, c, jnp.zeros(n), (p0,), jnp.zeros(m), jnp.array(kappa0)), kappa0)
        obj, kappa0 = objs[(n, m)]
        if case['style'] == 5:
            runs.append(run_mock_case(M, case))
            continue
        G = onp.array([[r.uniform(-1, 1) for _ in range(n)] for _ in range(n)])
        Q = G @ G.T + onp.eye(n) * 10.0 ** r.uniform(-1, 0.5)
        xu = onp.array([r.uniform(-2, 2) for _ in range(n)])
        A = onp.array([[r.uniform(-1, 1) for _ in range(n)] for _ in range(m)])
        b = A @ xu + onp.array([r.choice([r.uniform(0.2, 1.0), 0.0, -r.uniform(0.5, 2.0)]) for _ in range(m)])
        obj.p = (jnp.array(onp.concatenate([Q.ravel(), -Q @ xu, A.ravel(), b])),)
        style = case['style']
        maxit = r.choice([4, 6, 9])
        settings = dict(ps=r.choice([1.0, 2.0, 4.0]), tdf=r.choice([0.75, 0.5, 0.9]), second=style in (1, 2, 4), nlow=r.choice([0, 1, 2]),
                        maxit=maxit, tol=r.choice([1e-6, 1e-8, 1e-3]), subtol=r.choice([1e-9, 1e-10]))
        # scripts: style 0 real sub-solver, first order; 1 real sub + real linear update; 2 arbitrary everything;
        #          3 noisy sub-solver with arbitrary success flags; 4 real sub + mis-scaled / random linear updates
        if style == 0:
            sub = [('real', 0, None)]
            lin = [('real', 1.0)]
        elif style == 1:
            sub = [('real', 0, None)]
            lin = [('real', 1.0)]
        elif style == 2:
            sub = [('rand', 0, r.random() < 0.7) for _ in range(maxit)]
            lin = [('rand', 10.0 ** r.uniform(-3, 0), r.choice([0, 0, 1])) for _ in range(maxit)]
        elif style == 3:
            sub = [('noisy', 10.0 ** r.uniform(-9, -2), r.choice([None, True, False])) for _ in range(maxit)]
            lin = [('real', 1.0)]
        else:
            sub = [('real', 0, None)]
            lin = [r.choice([('real', r.choice([-1.0, 3.0, 50.0, 1.0])), ('rand', 10.0 ** r.uniform(-4, -1), r.choice([0, 1]))]) for _ in range(maxit)]
        script = dict(sub=sub, lin=lin, need_precond=True)
        x0 = xu + onp.array([r.uniform(-1, 1) for _ in range(n)])
        lam0 = onp.array([r.choice([0.0, r.uniform(0, 1)]) for _ in range(m)])
        kap0 = kappa0 * r.choice([1.0, 1.0, 2.0])
        obj.lam, obj.kappa = jnp.array(lam0), jnp.array(kap0)
        case.update(settings=settings, kappa0=kappa0, x0=x0, lam0=lam0, kap0=kap0)
        als = Al.get_settings(penalty_scaling=settings['ps'], target_constraint_decrease_factor=settings['tdf'],
                              use_second_order_update=settings['second'], num_initial_low_order_iterations=settings['nlow'],
                              max_al_iters=maxit, tol=settings['tol'])
        subs = Eq.get_settings(tol=settings['subtol'], max_trust_iters=200)
        rec = Recorder(M, obj, n, m, script, random.Random(case['seed'] + 1))
        with quiet():
            obj.update_precond(jnp.array(x0))
        out = rec.run(x0, als, subs)
        runs.append((case, rec, out))
    return runs


def run_mock_case(M, case):
    """deterministic from (n, m, seed)"""
    onp, jnp, Al, Eq = M['onp'], M['jnp'], M['Al'], M['Eq']
    n, m = case['n'], case['m']
    r = random.Random(case['seed'] + 5)
    kappa0 = onp.array([10.0 ** r.uniform(-1, 1) for _ in range(m)])
    maxit = r.choice([3, 5, 8])
    settings = dict(ps=r.choice([1.0, 2.0, 4.0]), tdf=r.choice([0.75, 0.5, 0.9]), second=r.random() < 0.6, nlow=r.choice([0, 1, 2]),
                    maxit=maxit, tol=r.choice([1e-6, 1e-8, 1e-3]), subtol=r.choice([1e-9, 1e-10]))
    plan = r.choice(['mixed', 'mixed', 'late-converge', 'gradsmall'])
    modes = []
    for it in range(maxit):
        if plan == 'late-converge':
            modes.append('converged' if it >= r.randrange(maxit) else r.choice(['random', 'gradsmall', 'ncpsmall']))
        elif plan == 'gradsmall':
            modes.append(r.choice(['gradsmall', 'gradsmall', 'converged']))
        else:
            modes.append(r.choice(['random', 'gradsmall', 'ncpsmall', 'converged']))
    sub = [('rand', modes[it], r.random() < 0.7) for it in range(maxit)]
    lin = [('rand', 10.0 ** r.uniform(-3, 0), r.choice([0, 0, 1])) for _ in range(maxit)]
    obj = MockObjective(M, n, m, kappa0, random.Random(case['seed'] + 2), settings['tol'])
    x0 = onp.array([r.uniform(-1, 1) for _ in range(n)])
    lam0 = onp.array([r.choice([0.0, r.uniform(0, 1)]) for _ in range(m)])
    kap0 = kappa0 * r.choice([1.0, 1.0, 2.0])
    obj.lam, obj.kappa = jnp.array(lam0), jnp.array(kap0)
    case.update(settings=settings, kappa0=kappa0, x0=x0, lam0=lam0, kap0=kap0)
    als = Al.get_settings(penalty_scaling=settings['ps'], target_constraint_decrease_factor=settings['tdf'],
                          use_second_order_update=settings['second'], num_initial_low_order_iterations=settings['nlow'],
                          max_al_iters=maxit, tol=settings['tol'])
    subs = Eq.get_settings(tol=settings['subtol'])
    rec = Recorder(M, obj, n, m, dict(sub=sub, lin=lin, need_precond=False), random.Random(case['seed'] + 1))
    out = rec.run(x0, als, subs)
    return (case, rec, out)


def l1_conclusion(case, rec, out):
    """conclusions of C04_observed_multipliers_nonneg / C04_return_is_KKT on a recorded history (any objective, any oracles)"""
    bad = []
    prevk = None
    for e in rec.events:
        if e[0] == 'after' and not all(float(a) >= 0.0 for a in e[3]):
            bad.append('negative multiplier after the sub-step of outer iteration %d: %r' % (e[1], [float(a) for a in e[3]]))
        if e[0] in ('cb', 'after'):
            if prevk is not None and case['settings']['ps'] >= 1.0 and not all(float(a) >= float(b) for a, b in zip(e[4], prevk)):
                bad.append('a penalty parameter decreased in outer iteration %d' % e[1])
            prevk = e[4]
    if out[0] == 'ret':
        tol = case['settings']['tol']
        g, c = rec.final_g, rec.final_c
        lam = out[2]
        gn = math.sqrt(sum(float(a) ** 2 for a in g))
        if not gn < tol:
            bad.append('returned although |grad_x AL| = %r >= tol = %g' % (gn, tol))
        for ci, li, ki in zip(c, lam, case['kappa0']):
            ci, li, ki = float(ci), float(li), float(ki)
            sl = 1e-9 * tol + 32 * math.ulp(max(abs(ci * ki), abs(li), 1e-300))
            if not (ci * ki > -tol - sl and li >= 0.0 and min(ci * ki, li) <= tol / SQ + sl):
                bad.append('returned with (c, lam, kappa0) = %r: violates kappa0*c > -tol, lam >= 0, min(kappa0*c, lam) <= tol/(2-sqrt2) (tol %g)' % ((ci, li, ki), tol))
                break
    return bad


def l1_missing(case, rec, out):
    """oracle evaluations / events that the model's loop makes in every outer iteration it runs but the recorder did not see on the
    implementation (a discrepancy between AlSolver and the model in its own right; never a crash of the harness)"""
    miss = []
    if out[0] == 'err':
        miss.append('augmented_lagrange_solve left through an exception that is not an exit of the modelled loop: %s' % out[4])
    its = sorted(set(e[1] for e in rec.events if e[0] == 'sub'))
    afters = set(e[1] for e in rec.events if e[0] == 'after')
    for it in its:
        if (it, 'Sub') not in rec.cons:
            miss.append('outer iteration %d: the constraint was not evaluated after the sub-problem solve (no multiplier update can have happened)' % it)
        if it not in afters or (it, 'Sub') not in rec.grads:
            if not (out[0] == 'err' and it == its[-1]):
                miss.append('outer iteration %d: total_residual was not evaluated after the sub-step' % it)
    if out[0] == 'ret' and not afters:
        miss.append('normal return without any sub-step / termination test being observed')
    return miss


# ============================================================================ bound_constrained_solve: executed trace correspondence

BC_FLAGS = [(ws, up, sc) for ws in (False, True) for up in (False, True) for sc in (False, True)]
_BC_OBJS = {}


def bc_trace_cases(ctx):
    """cases are deterministic from (n, m, seed, style, flags); the objective of a shape is deterministic from (n, m)"""
    r = ctx.rng('bctrace')
    shapes = [(2, 1), (3, 2), (4, 3), (3, 3)] if ctx.tier == 'thorough' else [(2, 1), (3, 2)]
    order = list(BC_FLAGS)
    r.shuffle(order)
    cases = []
    for (n, m) in shapes:
        for k in range(ctx.n(8, 24)):
            cases.append(dict(kind='bct', n=n, m=m, seed=r.randrange(1 << 30), style=k % 4, flags=list(order[(k + n) % 8])))
    return cases


def bc_object(M, n, m):
    """one BoundConstrainedObjective per shape (jit compilation amortised): f(x, p) = 1/2 x'Qx + q.x with (Q, q) = p[0]; the dof
    scaling comes from the preconditioner of the construction point (non-trivial, != 1), constrained dofs idx"""
    if (n, m) not in _BC_OBJS:
        jax, jnp, onp = M['jax'], M['jnp'], M['onp']
        from optimism import Objective
        from scipy.sparse import csc_matrix, diags
        r = random.Random(1000 * n + m)
        idx = sorted(r.sample(range(n), m))

        def f(x, p, n=n):
            Q = p[0][:n * n].reshape(n, n)
            return 0.5 * x @ Q @ x + p[0][n * n:] @ x

        class Strat:
            def initialize(self, x, p):
                self.K = csc_matrix(onp.array(jax.hessian(f)(jnp.array(x), p)))

            def precond_at_attempt(self, attempt):
                return self.K if attempt == 0 else self.K + diags(10.0 ** (-5 + attempt) * onp.abs(self.K.diagonal()), 0, format='csc')
        G = onp.array([[r.uniform(-1, 1) for _ in range(n)] for _ in range(n)])
        Q = G @ G.T + onp.diag([10.0 ** r.uniform(-0.5, 1) for _ in range(n)])
        p0 = Objective.Params(bc_data=jnp.array(onp.concatenate([Q.ravel(), onp.zeros(n)])))
        with quiet():
            obj = M['BCO'].BoundConstrainedObjective(f, jnp.array([r.uniform(0.1, 1) for _ in range(n)]), p0, jnp.array(idx),
                                                     constraintStiffnessScaling=r.choice([0.5, 3.0]), precondStrategy=Strat())
        _BC_OBJS[(n, m)] = (obj, idx)
    return _BC_OBJS[(n, m)]


class BCRecorder(Recorder):
    """the Recorder around BoundConstrainedSolver.bound_constrained_solve: additionally records the front end's own actions in order
    (reset_kappa, its update_precond calls with their argument, the warm-start increment -- real CG answer or a scripted one --, every
    store to objective.p, the sub_problem_callback argument) and the returned point / get_multipliers()"""

    def run_bc(self, x0, p_new, als, subs, flags, warm_mode):
        M, obj, onp, jnp = self.M, self.obj, self.M['onp'], self.M['jnp']
        BCS = M['BCS']
        WS = BCS.WarmStart
        rec = self
        ws, up, sc = flags
        self.front = []
        self.warm_dx = None
        self.mult = None
        o_ws = WS.warm_start_increment
        o_reset = obj.reset_kappa
        cls = type(obj)

        def reset_kappa():
            o_reset()
            rec.front.append(('reset', onp.array(obj.kappa)))

        def warm_start_increment(objective, x, pNew, index=0):
            rec.flush()
            if warm_mode[0] == 'real':
                rec.in_solver = True
                try:
                    dx = onp.array(o_ws(objective, x, pNew, index))
                finally:
                    rec.in_solver = False
            else:
                dx = onp.array([rec.r.gauss(0, warm_mode[1]) for _ in range(rec.n)])
            rec.text()
            rec.warm_dx = dx
            rec.front.append(('warm', onp.array(x), dx))
            return jnp.array(dx)

        class Spy(cls):
            @property
            def p(s):
                return s.__dict__['p']

            @p.setter
            def p(s, v):
                s.__dict__['p'] = v
                rec.front.append(('setp', v is p_new))

        def spcb(x, o):
            rec.front.append(('spcb', onp.array(x)))

        def call(callback, sub_solver):
            x = BCS.bound_constrained_solve(obj, jnp.array(x0), p_new, als, subs, callback=callback, sub_problem_callback=spcb if sc else None,
                                            useWarmStart=ws, updatePrecond=up, sub_problem_solver=sub_solver)
            rec.mult = onp.array(obj.get_multipliers())
            return x
        obj.reset_kappa = reset_kappa
        WS.warm_start_increment = warm_start_increment
        obj.__class__ = Spy
        try:
            out = self.run(x0, als, subs, call=call)
        finally:
            obj.__class__ = cls
            WS.warm_start_increment = o_ws
            del obj.reset_kappa
        if out[0] == 'ret':      # the conclusion is judged at the scaled point the loop returned (last callback), not at invScaling*xBar
            xb = [e for e in self.events if e[0] == 'cb'][-1][2]
            self.final_c = onp.array(obj.constraint(jnp.array(xb)))
            self.final_g = onp.array(obj.total_residual(jnp.array(xb)))[:self.n]
        return out


def run_bc_trace_case(M, case):
    onp, jnp, Al, Eq = M['onp'], M['jnp'], M['Al'], M['Eq']
    from optimism import Objective
    n, m = case['n'], case['m']
    obj, idx = bc_object(M, n, m)
    r = random.Random(case['seed'])
    G = onp.array([[r.uniform(-1, 1) for _ in range(n)] for _ in range(n)])
    Q = G @ G.T + onp.diag([10.0 ** r.uniform(-0.5, 1) for _ in range(n)])
    xu = onp.array([r.uniform(-2, 2) for _ in range(n)])
    q = -Q @ xu
    p_new = Objective.Params(bc_data=jnp.array(onp.concatenate([Q.ravel(), q])))
    dq = onp.array([r.gauss(0, 1.0) for _ in range(n)]) * r.choice([0.0, 0.1, 1.0])
    p_old = Objective.Params(bc_data=jnp.array(onp.concatenate([Q.ravel(), q + dq])))
    style = case['style']
    maxit = r.choice([3, 5, 8]) if style >= 2 else r.choice([6, 10, 14])
    settings = dict(ps=r.choice([1.0, 2.0, 4.0]), tdf=r.choice([0.75, 0.5, 0.9]), second=style in (1, 2), nlow=r.choice([0, 1, 2]),
                    maxit=maxit, tol=r.choice([1e-6, 1e-8, 1e-3]), subtol=r.choice([1e-9, 1e-10]))
    # styles: 0 real sub-solver, first order; 1 real sub + real linear update; 2 arbitrary everything; 3 noisy sub-solver, arbitrary flags
    if style in (0, 1):
        sub, lin = [('real', 0, None)], [('real', 1.0)]
    elif style == 2:
        sub = [('rand', 0, r.random() < 0.7) for _ in range(maxit)]
        lin = [('rand', 10.0 ** r.uniform(-3, 0), r.choice([0, 0, 1])) for _ in range(maxit)]
    else:
        sub = [('noisy', 10.0 ** r.uniform(-9, -2), r.choice([None, True, False])) for _ in range(maxit)]
        lin = [('real', 1.0)]
    warm_mode = ('real',) if r.random() < 0.5 else ('rand', 10.0 ** r.uniform(-3, 0))
    x0 = onp.array([abs(r.uniform(0, 1)) for _ in range(n)])
    lam0 = onp.array([r.choice([0.0, r.uniform(0, 1)]) for _ in range(m)])
    kappa0 = onp.array(obj.constraintKappa)
    ones = onp.ones(n)
    case.update(settings=settings, kappa0=kappa0, x0=x0, lam0=lam0, kap0=kappa0, scaling=onp.array(obj.scaling) * ones,
                isc=onp.array(obj.invScaling) * ones, sc_c=(onp.array(obj.scaling) * ones)[idx], idx=idx)
    obj.p = p_old
    obj.lam = jnp.array(lam0)
    obj.kappa = jnp.array(kappa0 * r.choice([1.0, 2.0, 8.0]))       # left over from an earlier solve: reset_kappa must discard it
    als = Al.get_settings(penalty_scaling=settings['ps'], target_constraint_decrease_factor=settings['tdf'],
                          use_second_order_update=settings['second'], num_initial_low_order_iterations=settings['nlow'],
                          max_al_iters=maxit, tol=settings['tol'])
    subs = Eq.get_settings(tol=settings['subtol'], max_trust_iters=200)
    rec = BCRecorder(M, obj, n, m, dict(sub=sub, lin=lin, need_precond=True), random.Random(case['seed'] + 1))
    with quiet():
        obj.update_precond(jnp.array(obj.scaling * jnp.array(x0)))
    out = rec.run_bc(x0, p_new, als, subs, tuple(case['flags']), warm_mode)
    return (case, rec, out)


def bc_front_events(rec):
    """the recorder's front-end list in the model's vocabulary: the first store to .p is the front end's (flag: after a warm start),
    the second the nested solve's prologue"""
    evs, nset, warmed = [], 0, False
    for e in rec.front:
        if e[0] == 'setp':
            nset += 1
            evs.append(('assign', warmed, e[1]) if nset == 1 else ('nested', e[1]) if nset == 2 else ('extra-assign', e[1]))
        else:
            warmed = warmed or e[0] == 'warm'
            evs.append(e)
    return evs


def bc_trace_conclusion(case, rec, out):
    """conclusions of C04_bound_front_end_return on a recorded run (any oracles, any flags)"""
    bad = list(l1_conclusion(case, rec, out))
    fr = bc_front_events(rec)
    for e in fr:
        if e[0] in ('assign', 'nested', 'extra-assign') and not e[-1]:
            bad.append('a store to objective.p in bound_constrained_solve did not install the parameters of this call')
    if [e[0] for e in fr].count('assign') != 1 or any(e[0] == 'extra-assign' for e in fr):
        bad.append('objective.p is not assigned exactly once by the front end and once by the nested solve: %r' % [e[0] for e in fr])
    ia = [e[0] for e in fr].index('assign') if 'assign' in [e[0] for e in fr] else len(fr)
    if any(e[0] == 'warm' for e in fr[ia:]):
        bad.append('warm start evaluated after the new parameters were installed')
    cbs = [e for e in rec.events if e[0] == 'cb']
    if cbs and not all(float(a) == float(b) for a, b in zip(cbs[0][4], case['kappa0'])):
        bad.append('the nested solve did not start from kappa = constraintKappa (reset_kappa): %r' % [float(a) for a in cbs[0][4]])
    if out[0] == 'ret':
        if not all(float(a) >= 0.0 for a in rec.mult):
            bad.append('get_multipliers() negative at the return: %r' % [float(a) for a in rec.mult])
        if not all(float(k) >= float(k0) > 0.0 for k, k0 in zip(out[3], case['kappa0'])):
            bad.append('a penalty is below constraintKappa at the return')
    return bad


def compare_bc_traces(case, rec, out, mev):
    """front-end events one by one, then the outer-loop events through compare_traces, then the returned point and multipliers"""
    fr = bc_front_events(rec)
    k = 0
    while k < len(mev) and mev[k][0] in ('reset', 'bcpu', 'warm', 'assign', 'spcb', 'nested'):
        k += 1
    mfr, rest = mev[:k], mev[k:]
    for j, (a, b) in enumerate(zip(fr, mfr)):
        if a[0] != b[0]:
            return 'front-end event %d: implementation %s, model %s' % (j, a[0], b[0]), False
        if a[0] == 'assign':
            ok = a[1] == b[1]
        elif a[0] == 'nested':
            ok = True
        elif a[0] == 'warm':
            ok = vclose(a[1], b[1]) and vclose(a[2], b[2])
        else:
            ok = vclose(a[1], b[1])
        if not ok:
            return 'front-end event %d (%s): implementation %r, model %r' % (j, a[0], _short(a), _short(b)), False
    if len(fr) != len(mfr):
        return 'front-end traces differ: implementation %r, model %r' % ([e[0] for e in fr], [e[0] for e in mfr]), False
    if not rest:
        return 'model trace has no outcome', False
    last = rest[-1]
    mcb = [e for e in rest if e[0] == 'cb']
    if out[0] == 'ret':
        if last[0] != 'bcret':
            return 'implementation returned, model %s' % last[0], False
        icb = [e for e in rec.events if e[0] == 'cb']
        why, near = compare_traces(case, rec, ('ret', icb[-1][2], out[2], out[3]), rest[:-1] + [('ret', mcb[-1][2] if mcb else [], last[3], last[4])])
        if why is None and not (vclose(out[1], last[1]) and vclose(rec.mult, last[2])):
            why = 'returned (x, get_multipliers()) implementation %r, model %r' % (_short((out[1], rec.mult)), (last[1], last[2]))
        return why, near
    if out[0] == 'nc':
        maft = [e for e in rest if e[0] == 'after']
        return compare_traces(case, rec, out, rest[:-1] + [('nc', [], maft[-1][3] if maft else [], maft[-1][4] if maft else [])] if last[0] == 'bcnc' else rest)
    return 'implementation left through an exception: %s' % (out[4] if len(out) > 4 else out[0]), False


# ============================================================================ NewtonSolver.globalized_newton_step: model tie + descent conclusion

def gn_cases(ctx):
    r = ctx.rng('gnewton')
    return [dict(kind='gn', n=r.choice([1, 2, 3]), seed=r.randrange(1 << 30), style=k % 5) for k in range(ctx.n(40, 300))]


def run_gn_case(M, case):
    """one call of the real globalized_newton_step on a small smooth residual; newton_step (GMRES) is replaced by a scripted step
    (exact Newton step, overshooting multiples of it, arbitrary directions, reported failure); every concrete residual evaluation
    and every directional slope jax delivers is logged and fed to the model's oracles.  deterministic from (n, seed, style)"""
    jax, jnp, onp, NS = M['jax'], M['jnp'], M['onp'], M['NS']
    r = random.Random(case['seed'])
    n, style = case['n'], case['style']
    A = onp.array([[r.uniform(-1, 1) for _ in range(n)] for _ in range(n)]) + 2.0 * onp.eye(n)
    b = onp.array([r.uniform(-2, 2) for _ in range(n)])
    w = onp.array([r.uniform(0.0, 3.0) for _ in range(n)])
    Aj, bj, wj = jnp.array(A), jnp.array(b), jnp.array(w)
    kind = r.choice(['cubic', 'atan'])
    residual = (lambda y: Aj @ y + wj * y ** 3 - bj) if kind == 'cubic' else (lambda y: Aj @ jnp.arctan(wj * y + y) - 0.3 * bj)
    x = onp.array([r.uniform(-2, 2) for _ in range(n)]) * r.choice([1.0, 1.0, 5.0])
    r0 = onp.array(residual(jnp.array(x)))
    Jm = onp.array(jax.jacfwd(residual)(jnp.array(x)))
    try:
        sN = -onp.linalg.solve(Jm, r0)
    except onp.linalg.LinAlgError:
        sN = -r0
    code = 0
    if style == 0:
        s0 = sN
    elif style == 1:
        s0 = sN * r.choice([3.0, 10.0, 40.0, 200.0])
    elif style == 2:
        s0 = onp.array([r.gauss(0, 1) for _ in range(n)]) * 10.0 ** r.uniform(-3, 1)
    elif style == 3:
        s0 = sN * r.choice([-1.0, -5.0, 1.9, 2.1])
    else:
        s0 = sN
        code = r.choice([1, 0, 100])
    etak, t, maxls = r.choice([1e-3, 0.1, 0.5, 0.9]), r.choice([1e-4, 0.1, 0.5, 1.0]), r.choice([1, 2, 4, 4, 7])
    log_res, log_slope = [], []

    def res_logged(y):
        v = residual(y)
        if not isinstance(v, jax.core.Tracer):
            log_res.append(onp.array(v))
        return v

    def grad_logged(fn):
        def g(tt):
            v = jax.grad(fn)(tt)
            log_slope.append(float(v))
            return v
        return g
    o_newton, o_grad = NS.newton_step, NS.grad
    NS.newton_step = lambda residual_, linear_op, x_, settings=None, precond=None: (onp.array(s0, dtype=float).copy(), code)
    NS.grad = grad_logged
    buf = io.StringIO()
    try:
        with quiet(buf):
            out = NS.globalized_newton_step(res_logged, None, jnp.array(x), etak, t, maxls)
    finally:
        NS.newton_step, NS.grad = o_newton, o_grad
    step = None if (isinstance(out, float) and out == 0.0) else onp.array(out)
    # the function prints one 'linesearch iter' line per pass of its loop = per sufficient-decrease test
    return dict(case=case, x=x, s0=s0, failed=code != 0, etak=etak, t=t, maxls=maxls, res=log_res, slopes=log_slope, step=step,
                tests=buf.getvalue().count('linesearch iter'))


def gn_energy(v):
    return 0.5 * float(math.sqrt(sum(float(a) * float(a) for a in v))) ** 2


def gn_conclusion(run):
    """C04_globalized_newton_descent on the implementation's outputs"""
    bad = []
    if run['step'] is None:
        return bad
    k = len(run['slopes'])
    s, s0 = run['step'], run['s0']
    if run['failed']:
        bad.append('a step was returned although newton_step reported a non-zero exit code')
    if not k < run['maxls']:
        bad.append('a step was returned after %d cutbacks with maxLinesearchIters = %d' % (k, run['maxls']))
    e0, eN = gn_energy(run['res'][0]), gn_energy(run['res'][-1])
    if not eN < e0:
        bad.append('returned step does not decrease the residual energy: 0.5|r(x+s)|^2 = %r, 0.5|r(x)|^2 = %r' % (eN, e0))
    j = max(range(len(s0)), key=lambda i: abs(s0[i]))
    c = float(s[j]) / float(s0[j]) if s0[j] != 0.0 else 1.0
    if not (0.01 ** k * (1 - 1e-12) <= c <= 0.5 ** k * (1 + 1e-12) and all(C.close(float(a), c * float(b), rtol=1e-12, atol=1e-300) for a, b in zip(s, s0))):
        bad.append('returned step %r is not the Newton step %r scaled by a factor in [0.01^k, 0.5^k], k = %d cutbacks' % (s.tolist(), s0.tolist(), k))
    return bad


def gn_model_expr(run):
    res = C.clist([cvec(v) for v in run['res']])
    slopes = C.clist([C.cf(v) for v in run['slopes']])
    return ('enc_gn (globalized_newton_step (gn_scripted %s (%s, %s) %s) %s %s %s %d)' %
            (res, cvec(run['s0']), 'true' if run['failed'] else 'false', slopes, cvec(run['x']), C.cf(run['etak']), C.cf(run['t']), run['maxls']))


def gn_parse(z):
    i, evs = 0, []
    while i < len(z):
        tag = z[i]
        if tag == 1:
            evs.append(('try', z[i + 1]) + tuple(C.dec_floats(z[i + 2:i + 6])) + (bool(z[i + 6]),))
            i += 7
        elif tag == 2:
            evs.append(('cut', z[i + 1]) + tuple(C.dec_floats(z[i + 2:i + 8])))
            i += 8
        elif tag == 3:
            evs.append(('uphill', z[i + 1]) + tuple(C.dec_floats(z[i + 2:i + 4])))
            i += 4
        elif tag == 7:
            evs.append(('step', C.dec_floats(z[i + 1:])))
            i = len(z)
        elif tag == 8:
            evs.append(('none',))
            i += 1
        else:
            raise C.CoqError('unparsable globalized_newton_step trace at %d: tag %r' % (i, tag))
    return evs


def gn_compare(run, mev):
    """-> (None | mismatch text, near_tie)"""
    e0 = gn_energy(run['res'][0])
    near = False
    for e in mev:
        if e[0] == 'try':
            lim = e[3] * e0
            near = near or abs(e[2] - lim) <= 1e-9 * max(abs(e[2]), abs(lim), 1e-300)
        elif e[0] in ('cut', 'uphill'):
            near = near or abs(e[2]) <= 1e-12
    for j, d in enumerate(run['slopes']):
        if j + 1 < len(run['res']):
            a = gn_energy(run['res'][j + 1]) - e0 - d          # compute_min_p switches formula at a = 0
            near = near or abs(a) <= 1e-9 * max(e0, abs(d), 1e-300)
    ntry = sum(1 for e in mev if e[0] == 'try')
    ncut = sum(1 for e in mev if e[0] in ('cut', 'uphill'))
    want_try = run['tests']
    nres = 1 if run['failed'] else 2 + sum(1 for e in mev if e[0] == 'cut')     # residual evaluations the model's path makes
    if nres != len(run['res']):
        return 'implementation evaluated the residual %d times, the model\'s path %d times' % (len(run['res']), nres), near
    last = mev[-1]
    if run['step'] is None:
        if last[0] != 'none':
            return 'implementation returned 0.0 (no step), model returns the step %r' % (last[1],), near
    else:
        if last[0] != 'step':
            return 'implementation returned the step %r, model returns no step' % (run['step'].tolist(),), near
        if not (len(last[1]) == len(run['step']) and all(C.close(float(a), float(b), rtol=1e-11, atol=1e-300) for a, b in zip(run['step'], last[1]))):
            return 'implementation step %r, model step %r' % (run['step'].tolist(), last[1]), near
    if ntry != want_try or ncut != len(run['slopes']):
        return ('implementation made %d sufficient-decrease tests and %d slope evaluations, model %d and %d' % (want_try, len(run['slopes']), ntry, ncut)), near
    return None, near


def kernel_cases(ctx):
    r = ctx.rng('kern')
    fb, pen, mp = [], [], []
    for _ in range(ctx.n(120, 1500)):
        k = 10.0 ** r.uniform(-2, 2)
        mode = r.randrange(5)
        c = r.choice([-1, 1]) * 10.0 ** r.uniform(-9, 1) if mode else 0.0
        l = (r.choice([-1, 1]) * 10.0 ** r.uniform(-9, 1)) if mode != 1 else 0.0
        if mode == 2:
            l = abs(l)
            c = abs(c)
        fb.append((c, l, k))
        # penalty: on, and either side of, the switch lam = k c
        lp = abs(l)
        cc = lp / k * r.choice([1.0, 1.0 + 1e-9, 1.0 - 1e-9, r.uniform(-2, 3)])
        pen.append((cc, lp, k))
        p0, p1, p2 = r.uniform(0, 2), r.uniform(0, 2), r.uniform(-3, 1)
        mp.append((p0, p1, p2, 0.01, 0.5) if r.random() < 0.7 else (p0, p1, p2, r.uniform(0, 0.3), r.uniform(0.3, 1)))
    return fb, pen, mp


def correspondence(ctx, model_ok):
    M = mods()
    jax, jnp, onp = M['jax'], M['jnp'], M['onp']
    distinct = set()
    # ---------------- L2: real end-to-end solves, theorem conclusions on the implementation's outputs
    specs = e2e_specs(ctx, 'e2e', ctx.n(8, 60)) + bound_specs(ctx, 'bound', ctx.n(6, 24)) + step_specs(ctx, 'steps', ctx.n(6, 30))
    statuses, step_hist = {}, {}
    bc_inits = []
    for spec in specs:
        res = run_spec(spec)
        if spec['kind'] == 'bound':
            bc_inits.append(res['info']['init'])
        ctx.count('evaluations')
        ctx.count('e2e_solves', len(spec['flags']) if spec['kind'] == 'steps' else 1)
        if spec['kind'] == 'steps':
            # load-stepping stream: distribution of (front end, useWarmStart, updatePrecond, updatePrecondBeforeWarmStart, outcome) over the
            # calls that followed a parameter change
            ctx.count('load_step_histories')
            for st_ in res['info']['steps'][1:]:
                key = '%s ws=%d up=%d ub=%d %s' % ((spec['front'],) + tuple(int(b) for b in st_['flags']) + (st_['status'],))
                step_hist[key] = step_hist.get(key, 0) + 1
                ctx.count('load_steps_after_parameter_change')
                if st_['status'] == 'returned':
                    ctx.count('load_steps_judged_against_their_own_parameters')
                    distinct.add(('steps', spec['front'], spec['family'], tuple(st_['flags']), tuple(st_.get('active', []))))
        st = res['status']
        statuses[st] = statuses.get(st, 0) + 1
        inf = res['info']
        if st == 'returned' and spec['kind'] == 'e2e' and inf.get('gap_points_feasible') is not None:
            ctx.count('convex_returns_judged')
            ctx.count('convex_gap_feasible_points', inf['gap_points_feasible'])
        if st == 'returned' and spec['kind'] != 'steps':
            distinct.add((spec['kind'], spec.get('family'), spec['n'], spec['m'], tuple(inf.get('active', [])), spec.get('second'), spec.get('ps')))
            ctx.count('outer_iterations_observed', inf['outer_iterations'])
        ctx.sample(dict(spec=spec, result={k: v for k, v in inf.items() if k in ('status', 'outer_iterations', 'lagr', 'bound', 'max_comp', 'max_product', 'dist_to_reference', 'active')}), limit=4)
        for b in res['bad']:
            ctx.fail('conclusion', '%s solve %s: %s' % (spec['kind'], {k: spec[k] for k in ('front', 'family', 'n', 'm', 'seed') if k in spec}, b), case=spec, concrete=True)
        for b in res.get('tie', []):     # the front-end model (bc_solve / initial state) differs from the implementation
            ctx.fail('correspondence', '%s %s: %s' % ('bound-constrained front end' if spec['kind'] == 'bound' else 'oracle hypothesis of the convex clause', {k: spec[k] for k in ('family', 'n', 'm', 'seed') if k in spec}, b), case=spec)
    ctx.cov['e2e_status_histogram'] = statuses
    ctx.cov['load_step_flag_histogram'] = step_hist
    # ---------------- L1a: generated kernels and the proved penalty derivative at binary64
    fb, pen, mp = kernel_cases(ctx)
    CO = M['CO']
    fbv = onp.array(jax.jit(jax.vmap(CO.fischer_burmeister))(*[jnp.array(v) for v in zip(*fb)]))
    fbj = onp.array(jax.jit(jax.vmap(CO.fischer_burmeister_jac_l))(*[jnp.array(v) for v in zip(*fb)]))
    falf = CO.ConstrainedObjective.create_augmented_lagrangian(None, lambda x, p: 0.0, lambda x, p: x)
    penf = lambda c, l, k: falf(jnp.array([c]), 0.0, jnp.array([l]), jnp.array([k]))
    penv = onp.array(jax.jit(jax.vmap(penf))(*[jnp.array(v) for v in zip(*pen)]))
    pend = onp.array(jax.jit(jax.vmap(jax.grad(penf, 0)))(*[jnp.array(v) for v in zip(*pen)]))
    mpv = [M['NS'].compute_min_p([a, b, c_], [lo, hi]) for (a, b, c_, lo, hi) in mp]
    ctx.count('evaluations', len(fb) + len(pen) + len(mp))
    for (c, l, k), v in zip(fb, fbv):
        # L2 on the kernel: the conclusion of C04_fb_small_implies_complementarity with e := |FB|
        e = abs(float(v)) + 8 * math.ulp(max(abs(c * k), abs(l), 1e-300))
        if not (c * k >= -e and l >= -e and min(c * k, l) <= e / SQ):
            ctx.fail('conclusion', 'fischer_burmeister(%r,%r,%r) = %r violates the complementarity bounds' % (c, l, k, float(v)),
                     case=dict(kind='fb', c=c, l=l, k=k), concrete=True)
    for i, t in enumerate(pen):
        want = -max(t[1] - t[2] * t[0], 0.0)       # the derivative proved in C04_al_penalty_C1 (C1 across the switch)
        if not abs(float(pend[i]) - want) <= 1e-9 * max(1.0, abs(t[1])):
            ctx.fail('conclusion', 'jax.grad of the AL penalty at (c,lam,kappa)=%r is %r, but the C1 penalty has derivative -max(lam-kappa*c,0) = %r' % (t, float(pend[i]), want),
                     case=dict(kind='pend', args=list(t)), concrete=True)
            break
    if model_ok:
        ex = ['fencs [fischer_burmeister %s %s %s; fischer_burmeister_jac_l %s %s %s]' % (tuple(C.cf(a) for a in t) * 2) for t in fb]
        ex += ['fencs [al_value (fun _ _ => nzero) (fun x _ => x) %s nzero %s %s]' % (C.cf(c), C.cf(l), C.cf(k)) for (c, l, k) in pen]
        ex += ['fenc (compute_min_p %s)' % ' '.join(C.cf(a) for a in t) for t in mp]
        nk = len(ex)
        ex += ['fencs (bc_initial_lam %s ++ bc_initial_kappa %s)' % (cvec(g), cvec(g)) for g, _ in bc_inits]
        res = C.coq_eval(IMPORTS, ex, 'C04k', shard=400)
        for (g, li), z in zip(bc_inits, res[nk:]):
            v = C.dec_floats(z)
            if v != list(li) + [0.25] * len(li):
                mism_bc = 'model initial state of BoundConstrainedObjective %r, implementation lam %r kappa 0.25' % (v, li)
                ctx.fail('correspondence', mism_bc, case=dict(kind='bcinit', g=g))
        mism = 0
        for i, t in enumerate(fb):
            v = C.dec_floats(res[i])
            sc = max(abs(t[0] * t[2]), abs(t[1]), 1e-300)
            if not C.close(v[0], float(fbv[i]), rtol=1e-12, atol=16 * math.ulp(sc)):
                mism += 1
                ctx.fail('correspondence', 'model fischer_burmeister%r = %r, implementation %r' % (t, v[0], float(fbv[i])), case=dict(kind='fb', args=t))
            if sc > 1e-300 and not C.close(v[1], float(fbj[i]), rtol=1e-9, atol=1e-9):
                mism += 1
                ctx.fail('correspondence', 'model fischer_burmeister_jac_l%r = %r, implementation %r' % (t, v[1], float(fbj[i])), case=dict(kind='fbj', args=t))
        for i, t in enumerate(pen):
            v = C.dec_floats(res[len(fb) + i])[0]
            sc = max(abs(t[0] * t[1]), t[2] * t[0] * t[0], t[1] * t[1] / t[2], 1e-300)
            if not C.close(v, float(penv[i]), rtol=1e-12, atol=16 * math.ulp(sc)):
                mism += 1
                ctx.fail('correspondence', 'model AL penalty%r = %r, implementation %r' % (t, v, float(penv[i])), case=dict(kind='pen', args=t))
        for i, t in enumerate(mp):
            v = C.dec_floats(res[len(fb) + len(pen) + i])[0]
            if not C.close(v, float(mpv[i]), rtol=1e-15, atol=0.0):
                mism += 1
                ctx.fail('correspondence', 'model compute_min_p%r = %r, implementation %r' % (t, v, float(mpv[i])), case=dict(kind='minp', args=t))
            if t[3] <= t[4] and not (t[3] <= float(mpv[i]) <= t[4]):
                ctx.fail('conclusion', 'compute_min_p%r = %r leaves the bracket' % (t, float(mpv[i])), case=dict(kind='minp', args=t), concrete=True)
        ctx.count('kernel_comparisons', len(ex))
        ctx.count('kernel_mismatches', mism)
    # ---------------- L1c: NewtonSolver.globalized_newton_step, model vs implementation + descent conclusion
    gruns = [run_gn_case(M, cs_) for cs_ in gn_cases(ctx)]
    ctx.count('evaluations', len(gruns))
    ghist = {}
    for run in gruns:
        key = ('gmres-failed' if run['failed'] else 'no-step' if run['step'] is None else 'step') + ' after %d cutbacks' % len(run['slopes'])
        ghist[key] = ghist.get(key, 0) + 1
        if run['step'] is not None:
            distinct.add(('gn', run['case']['n'], len(run['slopes'])))
        for b in gn_conclusion(run):
            ctx.fail('conclusion', 'globalized_newton_step (n=%d seed=%d style=%d): %s' % (run['case']['n'], run['case']['seed'], run['case']['style'], b),
                     case=run['case'], concrete=True)
    ctx.cov['newton_globalisation_histogram'] = ghist
    if model_ok:
        gres = C.coq_eval(IMPORTS, [gn_model_expr(run) for run in gruns], 'C04g', shard=100)
        gm = gu = 0
        for run, z in zip(gruns, gres):
            try:
                why, near = gn_compare(run, gn_parse(z))
            except (IndexError, C.CoqError) as ex:
                why, near = 'model trace unreadable: %s' % ex, False
            if why is None:
                continue
            if near:
                gu += 1
                continue
            gm += 1
            if gm <= 5:
                ctx.fail('correspondence', 'globalized_newton_step model vs NewtonSolver (n=%d seed=%d style=%d): %s' % (run['case']['n'], run['case']['seed'], run['case']['style'], why),
                         case=run['case'])
        ctx.count('newton_globalisation_comparisons', len(gruns))
        ctx.count('newton_globalisation_mismatches', gm)
        ctx.count('newton_globalisation_unstable_near_tie', gu)
    # ---------------- NewtonSolver oddity (last cutback's residual never tested) is outside C04 as long as AlSolver never calls the function
    import ast
    import os
    tree = ast.parse(open(os.path.join(C.REPO, 'optimism', 'AlSolver.py')).read())
    ncalls = sum(1 for nd in ast.walk(tree) if isinstance(nd, ast.Call) and ((isinstance(nd.func, ast.Name) and nd.func.id == 'globalized_newton_step')
                                                                           or (isinstance(nd.func, ast.Attribute) and nd.func.attr == 'globalized_newton_step')))
    ctx.cov['globalized_newton_step_called_by_AlSolver'] = ncalls
    if ncalls:
        ctx.fail('correspondence', 'AlSolver.py now calls globalized_newton_step (%d call sites): the outer-loop model has no such call and the documented '
                 'oddity of its last cutback would then lie inside the property' % ncalls, case=dict(kind='ast'))
    # ---------------- L1d: bound_constrained_solve, the WHOLE front end executed against the model bc_front event by event
    bruns = [run_bc_trace_case(M, cs_) for cs_ in bc_trace_cases(ctx)]
    ctx.count('evaluations', len(bruns))
    bhist = {}
    for case, rec, out in bruns:
        key = 'ws=%d up=%d subcb=%d %s' % (tuple(int(b) for b in case['flags']) + (out[0],))
        bhist[key] = bhist.get(key, 0) + 1
        distinct.add(('bct', case['n'], case['m'], tuple(case['flags']), tuple(e[0] for e in rec.events), out[0]))
        bcase = dict(kind='bct', n=case['n'], m=case['m'], seed=case['seed'], style=case['style'], flags=case['flags'])
        for b in bc_trace_conclusion(case, rec, out):
            ctx.fail('conclusion', 'bound_constrained_solve history (n=%d m=%d seed=%d style=%d flags=%r): %s' % (case['n'], case['m'], case['seed'], case['style'], case['flags'], b),
                     case=bcase, concrete=True)
        miss = l1_missing(case, rec, out)
        if miss:
            ctx.fail('correspondence', 'bound_constrained_solve history (n=%d m=%d seed=%d style=%d): %s' % (case['n'], case['m'], case['seed'], case['style'], '; '.join(miss[:3])), case=bcase)
    ctx.cov['bound_front_end_trace_histogram'] = bhist
    if model_ok:
        bres = C.coq_eval(IMPORTS, [model_expr(case, rec) for case, rec, out in bruns], 'C04b', shard=12, timeout=900)
        bm = bu = 0
        for (case, rec, out), z in zip(bruns, bres):
            try:
                why, near = compare_bc_traces(case, rec, out, parse_trace(z, case['n'], case['m']))
            except (IndexError, C.CoqError):
                why, near = 'model trace leaves the implementation\'s path (oracle sites never evaluated by the implementation)', False
            if why is None:
                continue
            if near:
                bu += 1
                continue
            bm += 1
            if bm <= 5:
                ctx.fail('correspondence', 'bc_front model vs bound_constrained_solve (n=%d m=%d seed=%d style=%d flags=%r): %s' % (case['n'], case['m'], case['seed'], case['style'], case['flags'], why),
                         case=dict(kind='bct', n=case['n'], m=case['m'], seed=case['seed'], style=case['style'], flags=case['flags']))
        ctx.count('bound_front_end_trace_comparisons', len(bruns))
        ctx.count('bound_front_end_trace_events_compared', sum(len(rec.front) + len(rec.events) + 1 for _, rec, _ in bruns))
        ctx.count('bound_front_end_trace_mismatches', bm)
        ctx.count('bound_front_end_trace_unstable_near_tie', bu)
    # ---------------- L1b: outer loop, scripted oracles, event traces
    runs = run_l1(ctx)
    ctx.count('evaluations', len(runs))
    hist = {}
    for case, rec, out in runs:
        kinds = tuple(e[0] if e[0] != 'ls' else ('ls+' if e[4] else 'ls-') for e in rec.events) + (out[0],)
        grew = any(e[0] == 'after' and e[6] for e in rec.events)
        rej = any(e[0] == 'ls' and not e[4] for e in rec.events)
        for key, flag in (('returned', out[0] == 'ret'), ('not_converged', out[0] == 'nc'), ('penalty_growth', grew), ('linesearch_reject', rej),
                          ('linesearch_accept', any(e[0] == 'ls' and e[4] for e in rec.events)), ('precond_update', any(e[0] == 'pu' for e in rec.events)),
                          ('sub_solver_failure_flag', any(e[0] == 'sub' and not e[3] for e in rec.events))):
            if flag:
                hist[key] = hist.get(key, 0) + 1
        if grew or rej or out[0] == 'ret':
            distinct.add(('l1', case['n'], case['m'], kinds))
        # L2 on these histories too (arbitrary scripted oracles!): multipliers, kappa, KKT rows at a return
        for b in l1_conclusion(case, rec, out):
            ctx.fail('conclusion', 'scripted history (n=%d m=%d seed=%d style=%d): %s' % (case['n'], case['m'], case['seed'], case['style'], b),
                     case=dict(kind='l1', n=case['n'], m=case['m'], seed=case['seed'], style=case['style']), concrete=True)
        miss = l1_missing(case, rec, out)
        if miss:
            hist['missing_oracle_evaluations'] = hist.get('missing_oracle_evaluations', 0) + 1
            if hist['missing_oracle_evaluations'] <= 5:
                ctx.fail('correspondence', 'scripted history (n=%d m=%d seed=%d style=%d): %s' % (case['n'], case['m'], case['seed'], case['style'], '; '.join(miss[:3])),
                         case=dict(kind='l1', n=case['n'], m=case['m'], seed=case['seed'], style=case['style']))
    ctx.cov['l1_history_histogram'] = hist
    if model_ok:
        exprs = [model_expr(case, rec) for case, rec, out in runs]
        res = C.coq_eval(IMPORTS, exprs, 'C04t', shard=12, timeout=900)
        mism = unstable = 0
        for (case, rec, out), z in zip(runs, res):
            try:
                mev = parse_trace(z, case['n'], case['m'])
                why, near = compare_traces(case, rec, out, mev)
            except (IndexError, C.CoqError):
                # the model took a path on which the implementation evaluated no oracle (scripted lookups return empty vectors)
                why, near = 'model trace leaves the implementation\'s path (oracle sites never evaluated by the implementation)', False
            if why is None:
                continue
            if near:
                unstable += 1
                continue
            mism += 1
            if mism <= 10:
                ctx.fail('correspondence', 'outer-loop model vs AlSolver (n=%d m=%d seed=%d style=%d): %s' % (case['n'], case['m'], case['seed'], case['style'], why),
                         case=dict(kind='l1', n=case['n'], m=case['m'], seed=case['seed'], style=case['style']))
        ctx.count('trace_comparisons', len(runs))
        ctx.count('trace_events_compared', sum(len(rec.events) + 1 for _, rec, _ in runs))
        ctx.count('trace_mismatches', mism)
        ctx.count('trace_unstable_near_tie', unstable)
    ctx.count('distinct_nontrivial', len(distinct))


def search(ctx, reasons):
    """directed search on the implementation: many more end-to-end solves over all families and settings"""
    import copy
    c2 = copy.copy(ctx)
    c2.tier = 'thorough'
    c2.seed = ctx.seed + 1
    specs = step_specs(c2, 'searchs', 16) + e2e_specs(c2, 'search', 40) + bound_specs(c2, 'searchb', 12)
    r = c2.rng('searchm')
    for k in range(300):
        case = dict(kind='l1', n=r.choice([2, 3]), m=r.choice([1, 2, 3]), seed=r.randrange(1 << 30), style=5)
        cs, rec, out = run_mock_case(mods(), dict(case))
        bad = l1_conclusion(cs, rec, out)
        if bad:
            return dict(kind='conclusion', what='scripted history: ' + bad[0], case=case, concrete=True)
    for spec in specs:
        try:
            res = run_spec(spec)
        except Exception:
            continue
        if res['bad']:
            return dict(kind='conclusion', what='%s solve: %s' % (spec['kind'], res['bad'][0]), case=spec, concrete=True)
    return None


def finding_fails(ctx, f):
    return False


def matches_finding(fl, f):
    return False


def replay(ctx, path):
    rep = json.load(open(path))
    case = rep.get('failing_input')
    print('replay of', path)
    print(json.dumps(rep.get('reasons'), indent=1, default=str)[:3000])
    if case and case.get('kind') == 'l1' and case.get('style') == 5:
        cs, rec, out = run_mock_case(mods(), dict(case))
        bad = l1_conclusion(cs, rec, out)
        print('implementation now (AlSolver loop on the recorded scripted objective):', bad or 'conclusion holds')
        return 1 if bad else 0
    if case and case.get('kind') == 'bct':
        cs, rec, out = run_bc_trace_case(mods(), dict(case))
        bad = bc_trace_conclusion(cs, rec, out)
        print('implementation now (bound_constrained_solve on the recorded scripted history):', bad or 'conclusion holds')
        return 1 if bad else 0
    if case and case.get('kind') == 'gn':
        run = run_gn_case(mods(), dict(case))
        bad = gn_conclusion(run)
        print('implementation now (globalized_newton_step):', bad or 'conclusion holds')
        return 1 if bad else 0
    if not case or case.get('kind') not in ('e2e', 'bound', 'steps'):
        print('no end-to-end failing input recorded (kind %r); broken obligations: %s' % ((case or {}).get('kind'), rep.get('broken')))
        return 1
    res = run_spec(case)
    print('implementation now:', res['bad'] or 'conclusion holds', res['info'])
    return 1 if res['bad'] else 0
