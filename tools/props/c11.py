"""C11 -- viscoelastic models dissipate, relax and keep viscous flow isochoric
(optimism/material/HyperViscoelastic.py, MultiBranchHyperViscoelastic.py, TensorMath.py)."""
import json
import math

from vlib import common as C

ID = 'C11'
READY = True
LEVEL_TEXT = ('Partial (full for the algorithm in exact arithmetic; since round 4 with NO hypothesis on the matrix functions: they are the spectral '
              'functions V diag(f(lam)) V^T that TensorMath.symmetric_matrix_function builds, over an eigen-solver whose existence is now a theorem). '
              'Coq theorems over R about the kernels re-translated from the source on every run, for the single- and the '
              'three-branch model: the reported dissipated energy equals G|dev E_trial|^2 (dt/tau)/(1+dt/tau)^2 and is non-negative for tau, dt > 0, '
              'G >= 0 and EVERY log_sqrt_symm; the state increment is trace-free, so det Fv_new = det Fv_old -- for every expm with '
              'det(expm A) = exp(tr A), and for the spectral exponential from the solver contract V^T V = V V^T = I, V diag(lam) V^T = A '
              '(C11_spectral_exponential_det, C11_isochoric_spectral*); the energy equals '
              'W_eq + sum_i G_i |dev E_trial,i|^2/(1+dt/tau_i) for every state, which gives the explicit bounds |W - W_inst| <= c dt/tau and '
              '|W - W_eq| <= c tau/dt and the two limits as epsilon statements (round 4: also for the three-branch model; for a virgin material the '
              'trial strain is lss(F^T F), the logarithmic strain of the deformation: C11_virgin_trial_strain*); at held deformation every further step '
              'multiplies the stored non-equilibrium energy of a branch by 1/(1+dt/tau)^2 in (0,1), so along ANY sequence of positive steps it is '
              'non-increasing, for the single branch, for every branch of the three-branch model and for their sum, which is exactly energy - dissipation '
              '- equilibrium energy (C11_relaxation_monotone*, C11_reported_energy*).  The coaxial update identity these relaxation theorems rest on, '
              'Etrial(state_new) = Etrial(state) - delta_Ev, is proved (C11_coaxial_update*) for the spectral log_sqrt_symm / exponential; a spectral matrix '
              'function does not depend on which orthogonal decomposition the solver returns (C11_spectral_function_unique). '
              'Round 4: (a) the spectral theorem for symmetric 3x3 matrices is proved from scratch, constructively up to the classical reals and without a '
              'choice axiom (C11_eigen_solver_exists / C11_eigen_solver: IVT root of the characteristic cubic, kernel vector of A - lam I from cross products of '
              'its rows including the rank-one case of repeated eigenvalues, Householder deflation, one Givens rotation), and two solvers that meet the contract '
              'give the same function value (C11_spectral_function_solver_independent, C11_log_sqrt_canonical, C11_exponential_canonical); (b) every matrix the '
              'solvers are called on in a step is symmetric, so the per-call premises follow from the contract on symmetric matrices (C11_*_all) and disappear '
              'for lss_R / expm_R (C11_isochoric_unconditional, C11_relaxation_unconditional, C11_relaxation_unconditional_total: det F != 0, det Fv != 0, '
              'moduli >= 0, tau, dt > 0 are the only premises); (c) arbitrary deformation-and-time-step histories [(H_1,dt_1);...]: det Fv is constant along '
              'the whole history, = 1 from the virgin state, for every branch (C11_history_isochoric*, C11_virgin_history_isochoric*), every reported '
              'dissipated energy is >= 0 and the accumulated dissipation is non-decreasing (C11_history_dissipation_nonneg*, '
              'C11_accumulated_dissipation_monotone), and a hold after ANY history from the virgin state relaxes monotonically '
              '(C11_relaxation_after_history, C11_relaxation_after_history_total). '
              'NOT proved: that TensorMath.eigen_sym33_unit meets the contract in binary64 (accuracy of the routine is C12; inside a compiled batch it did '
              'NOT on (nearly) degenerate spectra until /repo e63b801 -- former finding C11-F1, now FIXED: under jit(vmap) the stored energy of a uniaxial '
              'state grew during a hold; its witness is replayed on every run and a recurrence is a violation, and no failure at a degenerate point of a '
              'batch is excused any more) and that jax.scipy.linalg.expm (Pade, scaling and squaring) equals the spectral '
              'exponential (true only up to the Pade truncation error): both are evaluated numerically on every run (stream `spectral`: contract gap of '
              'the oracles of two different solvers, model vs implementation, degenerate spectra included), and their consequences Hexp / Hcoax on every '
              'explored history. Binary64 behaviour is covered only by the correspondence and by evaluating the conclusions on the real models (public '
              'interface only) over dt/tau in [1e-6, 1e6], including large-rotation load steps followed by holds, degenerate-spectrum (uniaxial, '
              'equibiaxial, volumetric) load-and-hold histories, and batches of two material points through jit(vmap) -- exactly and NEARLY degenerate '
              '(relative stretch gap 1e-14..1e-6) and generic ones -- whose dissipation, det Fv, monotone relaxation and agreement with the single '
              'compiled call are checked at the same tolerances as everywhere else.')
TECHNIQUE = 'Coq proof (Reals) over kernels regenerated from the Python AST, opaque spectral functions as parameters; vm_compute/PrimFloat correspondence'
GEN = ['TensorMath', 'HyperViscoelastic', 'MultiBranchHyperViscoelastic', 'ViscoState']
TARGETS = ['model/M_C11.vo', 'model/M_C11s.vo', 'proofs/L_C11a.vo', 'proofs/L_C11.vo', 'proofs/L_C11s.vo', 'proofs/L_C11t.vo', 'proofs/L_C11e.vo', 'proofs/L_C11u.vo']
COQ_FILES = ['base/Num.v', 'model/M_C08.v', 'model/M_C11.v', 'model/M_C11s.v', 'proofs/L_C11a.v', 'proofs/L_C11.v', 'proofs/L_C11s.v', 'proofs/L_C11t.v', 'proofs/L_C11e.v', 'proofs/L_C11u.v', 'props/P_C11.v']
TRUSTED = ['Coq 8.16.1 kernel + vm_compute (no native_compute)',
           'tools/vlib/py2coq.py translator (Python ast -> Gallina over Num T), cross-checked by running the generated kernels at binary64 against the implementation',
           'hand composition of the generated per-branch kernels for the three-branch loops (model/M_C11.v, model/M_C08.v), tied by the same comparison',
           'hand model of TensorMath.symmetric_matrix_function / log_sqrt_symm and of the exponential of a symmetric matrix (model/M_C11s.v: V diag(f(lam)) V^T, '
           'inverse = adjugate/determinant as the translator expands np.linalg.inv), tied by stream `spectral`: log_sqrt_symm with the eigen-pairs of '
           'eigen_sym33_unit as oracle (rounding only), jax.scipy.linalg.expm with numpy eigh as oracle (<= 1e-11 relative)',
           'correspondence harness: exact float exchange; log_sqrt_symm / expm values of the implementation are fed to the generated kernels as constant oracles',
           'theorems are over exact reals; binary64 rounding is covered only by the correspondence and the evaluated conclusions']
ASSUMPTIONS = ['exact real arithmetic in theorems',
               'general theorems (C11_isochoric, C11_relaxation_*): Hexp: det(expm A) = exp(tr A); Hcoax: Etrial(H, expm(delta_Ev) Fv) = Etrial(H, Fv) - delta_Ev '
               'at held deformation -- both PROVED for the spectral functions (C11_spectral_exponential_det, C11_coaxial_update*) and still checked '
               'numerically on every explored increment / held step',
               'spectral theorems: the eigen-solver returns V, lam with V^T V = V V^T = I and V diag(lam) V^T = A at the matrices it is called on '
               '(eigh_ok; evaluated on the oracles of stream `spectral`); jax.scipy.linalg.expm equals the spectral exponential up to rounding (same stream); '
               'det F != 0, det Fv != 0 (det Fv is preserved by the update: C11_isochoric_spectral)',
               'round-4 theorems *_all: the solver meets eigh_ok at every symmetric matrix (solver_ok) -- satisfiable: C11_eigen_solver_exists; theorems '
               '*_unconditional and *_history* over lss_R / expm_R: no assumption on the matrix functions (the implementation is tied to lss_R / expm_R '
               'numerically only: streams `spectral`, L2)',
               'moduli >= 0, relaxation times > 0, time steps > 0']
RULE = ('cases: random positive moduli and relaxation times over four decades, deformations F = R U with stretches in [0.6, 1.7], dt/tau from 1e-6 to 1e6; '
        'L1: random (H, Fv, dt) with non-virgin states; spectral: random elastic trial deformations F Fv^-1 and viscous increments; '
        'L2 (public interface of the models only): large-rotation load paths (rigid rotation 50..180 degrees on a stretch, or simple shear gamma in (2, 4]) '
        'followed by 3..8 holds, multi-step random deformation histories followed by held segments, and step-size sweeps on a virgin material; '
        'round 4: every fifth spectral case and a separate L2 stream use DEGENERATE spectra (two or three equal principal stretches, aligned with the axes or '
        'rotated, with or without a rigid rotation), the spectral model is additionally fed with the eigen-pairs of a second solver (numpy/LAPACK), and '
        'batches of two material points (degenerate -- half of the points only NEARLY so, relative stretch gap 1e-14..1e-6 --, every third batch generic) are run through '
        'jit(vmap) of the public interface and compared with the single call; round 5: every degenerate load-and-hold history of the L2 stream is also run inside a '
        'compiled batch of two (mate: a copy, another degenerate state or a generic one, either position).  Non-trivial = deformation with a deviatoric logarithmic strain above 1e-3; distinct = distinct (model, properties, history) tuples')
IMPORTS = ['From OV.gen Require Import Gen_TensorMath Gen_HyperViscoelastic Gen_MultiBranchHyperViscoelastic Gen_ViscoState.',
           'From OV.model Require Import M_C08 M_C11 M_C11s.']


# ----------------------------------------------------------------------------- helpers
def cm(A):
    return '(mk ' + ' '.join(C.cf(float(A[i][j])) for i in range(3) for j in range(3)) + ')'


def ctup(p):
    return '(' + ', '.join(C.cf(float(x)) for x in p) + ')'


def fn_const(A):
    return '(fun _ => ' + cm(A) + ')'


MAT9 = '(fun A : mat PrimFloat.float => [m00 A; m01 A; m02 A; m10 A; m11 A; m12 A; m20 A; m21 A; m22 A])'


def rand_rot(r):
    import numpy as np
    q = np.array([r.gauss(0, 1) for _ in range(4)])
    q /= np.linalg.norm(q)
    w, x, y, z = q
    return np.array([[1 - 2 * (y * y + z * z), 2 * (x * y - z * w), 2 * (x * z + y * w)],
                     [2 * (x * y + z * w), 1 - 2 * (x * x + z * z), 2 * (y * z - x * w)],
                     [2 * (x * z - y * w), 2 * (y * z + x * w), 1 - 2 * (x * x + y * y)]])


def rand_F(r, amp=1.0):
    import numpy as np
    Q = rand_rot(r)
    lam = np.exp(np.array([r.uniform(-0.5, 0.5) * amp for _ in range(3)]))
    U = Q @ np.diag(lam) @ Q.T
    return rand_rot(r) @ U


def rand_props(r, nb):
    K = 10 ** r.uniform(0, 3)
    G = 10 ** r.uniform(-1, 2)
    out = [K, G]
    for _ in range(nb):
        out += [10 ** r.uniform(-2, 2), 10 ** r.uniform(-3, 2)]
    return out


def hencky_dev_norm2(F):
    """|dev log U|^2 from an independent eigen-decomposition"""
    import numpy as np
    w, _ = np.linalg.eigh(F.T @ F)
    e = 0.5 * np.log(w)
    e = e - e.mean()
    return float((e * e).sum())



_JIT = {}


def step_fn(nb):
    """one jitted function per model: everything the checks need from one step, properties passed as an argument"""
    if nb in _JIT:
        return _JIT[nb]
    import jax
    import jax.numpy as jnp
    from jax.scipy import linalg as jlinalg
    from optimism.material import HyperViscoelastic as HV, MultiBranchHyperViscoelastic as MB
    mod = HV if nb == 1 else MB

    def f(H, state, dt, p):
        D = mod._compute_dissipated_energy(H, state, dt, p)
        W = mod._energy_density(H, state, dt, p)
        Weq = mod._eq_strain_energy(H, p)
        new = mod._compute_state_new(H, state, dt, p)
        br = []
        for n in range(nb):
            Fv = state[9 * n:9 * n + 9]
            Ee = mod._compute_elastic_logarithmic_strain(H, Fv)
            if nb == 1:
                dE = mod._compute_state_increment(Ee, dt, p)
                Wn = mod._neq_strain_energy(Ee - dE, p)
            else:
                dE = mod._compute_state_increment(Ee, dt, p, 2 + 2 * n)
                Wn = mod._neq_strain_energy(Ee - dE, p, 2 + 2 * n)
            br.append((Ee, dE, Wn, jlinalg.expm(dE)))
        return D, W, Weq, new, br
    _JIT[nb] = jax.jit(f)
    return _JIT[nb]

# ----------------------------------------------------------------------------- L1: generated kernels at binary64
def l1(ctx, model_ok):
    import numpy as np
    import jax.numpy as jnp
    if not model_ok:
        # nothing to compare with: this stream ties the generated per-branch kernels to the PRIVATE helper functions they were
        # translated from; when the models cannot be regenerated (e.g. a helper was renamed) those helpers may not exist any more
        ctx.notes.append('kernel-level correspondence (L1) skipped: the generated models are not available')
        return
    r = ctx.rng('l1')
    exprs, want, info = [], [], []
    for k in range(ctx.n(40, 400)):
        F = rand_F(r)
        H = F - np.eye(3)
        Fv = rand_F(r, 0.3)
        Fv = Fv / np.cbrt(np.linalg.det(Fv))
        dt_over_tau = 10 ** r.uniform(-6, 6)
        # ---- single branch
        p = rand_props(r, 1)
        dt = dt_over_tau * p[3]
        D, W, _, new, br = step_fn(1)(jnp.array(H), jnp.array(Fv.ravel()), dt, jnp.array(p))
        D, W = float(D), float(W)
        Ee, dEv, EX = (np.asarray(x) for x in (br[0][0], br[0][1], br[0][3]))
        Fn = np.asarray(new).reshape(3, 3)
        e1 = ('[D_hv %s %s %s %s %s; E_hv %s %s %s %s %s] ++ %s (inc_hv %s %s %s) ++ %s (state_new_hv %s %s %s %s %s %s)'
              % (fn_const(Ee), ctup(p), cm(Fv), C.cf(dt), cm(H), fn_const(Ee), ctup(p), cm(Fv), C.cf(dt), cm(H),
                 MAT9, ctup(p), C.cf(dt), cm(Ee), MAT9, fn_const(Ee), fn_const(EX), ctup(p), cm(Fv), C.cf(dt), cm(H)))
        exprs.append('fencs (' + e1 + ')')
        want.append([D, W] + dEv.ravel().tolist() + Fn.ravel().tolist())
        info.append(dict(model='HyperViscoelastic', props=p, dt=dt, H=H.tolist(), Fv=Fv.tolist(), scale=max(p[2], p[1], p[0])))
        # ---- three branches, each with its own viscous distortion
        p3 = rand_props(r, 3)
        dt3 = dt_over_tau * p3[3 + 2 * r.randrange(3)]
        Fvs = [Fv, np.eye(3), rand_F(r, 0.2)]
        Fvs[2] = Fvs[2] / np.cbrt(np.linalg.det(Fvs[2]))
        D3, _, _, new3, br3 = step_fn(3)(jnp.array(H), jnp.array(np.hstack([f.ravel() for f in Fvs])), dt3, jnp.array(p3))
        D3 = float(D3)
        Fn3 = np.asarray(new3).reshape(3, 3, 3)
        parts, mats = [], []
        for n in range(3):
            Een, EXn = np.asarray(br3[n][0]), np.asarray(br3[n][3])
            parts.append('(D_mb_branch %d%%nat %s %s %s %s %s)' % (n, fn_const(Een), ctup(p3), cm(Fvs[n]), C.cf(dt3), cm(H)))
            mats.append('%s (state_new_b %d%%nat %s %s %s %s %s %s)' % (MAT9, n, fn_const(Een), fn_const(EXn), ctup(p3), cm(Fvs[n]), C.cf(dt3), cm(H)))
        e3 = '[nadd (nadd (nadd nzero %s) %s) %s] ++ %s' % (parts[0], parts[1], parts[2], ' ++ '.join(mats))
        exprs.append('fencs (' + e3 + ')')
        want.append([D3] + Fn3.ravel().tolist())
        info.append(dict(model='MultiBranchHyperViscoelastic', props=p3, dt=dt3, H=H.tolist(), Fv=[f.tolist() for f in Fvs], scale=max(p3)))
        ctx.count('evaluations', 2)
    res = C.coq_eval(IMPORTS, exprs, 'C11', shard=40, timeout=900)
    mism = 0
    for zs, ws, inf in zip(res, want, info):
        got = C.dec_floats(zs)
        ctx.count('model_vs_impl_comparisons', len(ws))
        for i, (g, w) in enumerate(zip(got, ws)):
            atol = 1e-11 * inf['scale'] if i < 2 and inf['model'] == 'HyperViscoelastic' or (i < 1) else 1e-12
            if not C.close(g, w, rtol=1e-9, atol=atol):
                mism += 1
                if mism <= 10:
                    ctx.fail('correspondence', 'generated kernels of %s: output %d = %r but the implementation gives %r (dt=%r)' % (inf['model'], i, g, w, inf['dt']),
                             case=dict(part='l1', output=i, model_value=g, impl=w, **inf))
    ctx.count('model_vs_impl_mismatches', mism)


# ----------------------------------------------------------------------------- L1s: the spectral tensor functions of model/M_C11s.v
def ceig(w, V):
    return '(fun _ => ((%s, %s, %s), %s))' % (C.cf(float(w[0])), C.cf(float(w[1])), C.cf(float(w[2])), cm(V))


def contract_gap(A, w, V):
    """how far (w, V) is from the contract eigh_ok of proofs/L_C11s.v at A: V^T V = V V^T = I and V diag(w) V^T = A"""
    import numpy as np
    I = np.eye(3)
    return max(float(np.abs(V.T @ V - I).max()), float(np.abs(V @ V.T - I).max()),
               float(np.abs((V * w) @ V.T - A).max()) / max(1.0, float(np.abs(A).max())))


def l1_spectral(ctx, model_ok):
    """ties the hand model `spectral` (V diag(f(lam)) V^T) to the two functions it stands for:
    TensorMath.log_sqrt_symm with the eigen-pairs of TensorMath.eigen_sym33_unit as the oracle (same formula, rounding only), and
    jax.scipy.linalg.expm on viscous increments with numpy's eigh as the oracle (different algorithm: Pade approximant with scaling and
    squaring; equal to the spectral exponential up to rounding).  The contract eigh_ok is evaluated on every oracle value."""
    import numpy as np
    import jax.numpy as jnp
    from jax.scipy import linalg as jlinalg
    from optimism import TensorMath
    if not model_ok:
        return
    import jax
    if 'spectral' not in _JIT:
        _JIT['spectral'] = (jax.jit(TensorMath.eigen_sym33_unit), jax.jit(TensorMath.log_sqrt_symm), jax.jit(jlinalg.expm))
    f_eig, f_lss, f_exp = _JIT['spectral']
    r = ctx.rng('l1s')
    exprs, want, info = [], [], []
    worst = 0.0
    for k in range(ctx.n(30, 300)):
        F = rand_F(r) @ np.linalg.inv(rand_F(r, 0.3)) if k % 3 else rand_F(r)      # an elastic trial deformation F Fv^-1
        if k % 5 == 4:
            # degenerate spectrum (round 4): two equal principal stretches (uniaxial / equibiaxial), in the coordinate frame or a rotated
            # one, or a purely volumetric deformation -- where the eigenvectors are not unique and only the FUNCTION value is
            # (C11_spectral_function_solver_independent); the rank-one branch of the kernel construction in proofs/L_C11e.v
            a, c = math.exp(r.uniform(0.1, 0.5) * r.choice([-1, 1])), math.exp(r.uniform(-0.2, 0.2))
            kind = r.choice(['aligned', 'rotated', 'volumetric'])
            Rf = rand_rot(r) if kind == 'rotated' else np.eye(3)
            F = Rf @ np.diag([a, c, c] if kind != 'volumetric' else [a, a, a]) @ Rf.T
            if r.random() < 0.5:
                F = rand_rot(r) @ F
            ctx.count('spectral_degenerate_%s' % kind)
        Cmat = F.T @ F
        lam, V = (np.asarray(x) for x in f_eig(jnp.array(Cmat)))
        L = np.asarray(f_lss(jnp.array(Cmat)))
        if not (np.isfinite(lam).all() and np.isfinite(V).all() and np.isfinite(L).all()):
            ctx.fail('correspondence', 'TensorMath.eigen_sym33_unit / log_sqrt_symm return non-finite values for the symmetric positive definite matrix C = F^T F '
                     '(eigenvalues %s)' % np.linalg.eigvalsh(Cmat).tolist(), case=dict(part='spectral', C=Cmat.tolist(), lam=lam.tolist(), V=V.tolist()))
            continue
        g1 = contract_gap(Cmat, lam, V)
        fct = 10 ** r.uniform(-6, 0)
        dE = fct * dev3(0.5 * (L + L.T))                                          # a viscous increment: multiple of the deviator of the strain
        w, Vn = np.linalg.eigh(dE)
        X = np.asarray(f_exp(jnp.array(dE)))
        g2 = contract_gap(dE, w, Vn)
        worst = max(worst, g1, g2)
        ctx.count('eigh_contract_evaluated', 2)
        if g1 > 1e-9:
            ctx.fail('correspondence', 'TensorMath.eigen_sym33_unit violates the eigen-decomposition contract (V^T V = V V^T = I, V diag(lam) V^T = C) by %.3g' % g1,
                     case=dict(part='spectral', C=Cmat.tolist(), lam=lam.tolist(), V=V.tolist()))
        exprs.append('fencs (%s (lss_spec %s %s) ++ %s (expm_spec %s %s))' % (MAT9, ceig(lam, V), cm(Cmat), MAT9, ceig(w, Vn), cm(dE)))
        want.append(L.ravel().tolist() + X.ravel().tolist())
        info.append(dict(part='spectral', C=Cmat.tolist(), dE=dE.tolist(), scale=max(1.0, float(np.abs(L).max()))))
        ctx.count('evaluations', 2)
        # solver independence (round 4, C11_spectral_function_solver_independent / C11_log_sqrt_canonical): the model fed with the
        # eigen-pairs of a DIFFERENT solver (LAPACK through numpy) must give the same log_sqrt_symm as the implementation with its own
        wC, VC = np.linalg.eigh(Cmat)
        g3 = contract_gap(Cmat, wC, VC)
        worst = max(worst, g3)
        ctx.count('eigh_contract_evaluated')
        exprs.append('fencs (%s (lss_spec %s %s))' % (MAT9, ceig(wC, VC), cm(Cmat)))
        want.append(L.ravel().tolist())
        info.append(dict(part='spectral-other-solver', C=Cmat.tolist(), scale=max(1.0, float(np.abs(L).max()))))
        ctx.count('spectral_solver_independence_cases')
        ctx.count('evaluations')
    ctx.cov['eigh_contract_worst_gap'] = worst
    res = C.coq_eval(IMPORTS, exprs, 'C11s', shard=100, timeout=900)
    mism = 0
    for zs, ws, inf in zip(res, want, info):
        got = C.dec_floats(zs)
        ctx.count('spectral_model_vs_impl_comparisons', len(ws))
        for i, (g, w) in enumerate(zip(got, ws)):
            # log_sqrt_symm: same formula as the model, rounding of a 3-term sum of products of O(scale) terms (the model's ln is a few-ulp
            # approximation); expm: a different algorithm, both accurate to rounding for these well-conditioned symmetric arguments
            if not C.close(g, w, rtol=1e-11, atol=2e-13 * inf['scale']):
                mism += 1
                if mism <= 10:
                    ctx.fail('correspondence', 'spectral model of %s: entry %d = %r but the implementation gives %r'
                             % ('TensorMath.log_sqrt_symm' if i < 9 else 'jax.scipy.linalg.expm', i % 9, g, w), case=dict(inf, output=i, model_value=g, impl=w))
    ctx.count('spectral_model_vs_impl_mismatches', mism)


# ----------------------------------------------------------------------------- L2: conclusions on the real models
# Everything below talks to the material models ONLY through their public interface: create_material_model_functions(properties)
# and the MaterialModel it returns (compute_initial_state, compute_energy_density, compute_state_new, compute_material_qoi).
# The per-branch quantities the theorems speak about (trial strain, increment, stored branch energy) are re-evaluated
# independently with numpy from the viscous distortions that compute_state_new returned.
_PUB = {}
_INIT = {}
DT_INF_FACTOR = 1e30      # energy_density(dt) - qoi(dt) at dt = 1e30 * tau_max is the equilibrium energy to 1e-60 (C11_bound_large_step)


def prop_dict(nb, p):
    d = {'equilibrium bulk modulus': p[0], 'equilibrium shear modulus': p[1]}
    if nb == 1:
        d['non equilibrium shear modulus'] = p[2]
        d['relaxation time'] = p[3]
    else:
        for n in range(nb):
            d['non equilibrium shear modulus %d' % (n + 1)] = p[2 + 2 * n]
            d['relaxation time %d' % (n + 1)] = p[3 + 2 * n]
    return d


def pub_module(nb):
    from optimism.material import HyperViscoelastic as HV, MultiBranchHyperViscoelastic as MB
    return HV if nb == 1 else MB


def make_model(nb, p):
    import contextlib
    import io
    with contextlib.redirect_stdout(io.StringIO()):
        return pub_module(nb).create_material_model_functions(prop_dict(nb, p))


def initial_state(nb):
    if nb not in _INIT:
        import numpy as np
        _INIT[nb] = np.asarray(make_model(nb, [1.0] * (2 + 2 * nb)).compute_initial_state())
    return _INIT[nb]


def pub_fn(nb):
    """one jitted function per model class; the properties are an argument (the factory is called while tracing), so that one
    compilation serves every property set.  Returns what the model reports for one step:
    dissipated energy, energy density, equilibrium energy (energy - dissipation at an effectively infinite step), new state."""
    if nb in _PUB:
        return _PUB[nb]
    import jax

    def f(H, state, dt, dt_inf, p):
        m = make_model(nb, [p[i] for i in range(2 + 2 * nb)])
        W = m.compute_energy_density(H, state, dt)
        D = m.compute_material_qoi(H, state, dt)
        new = m.compute_state_new(H, state, dt)
        Weq = m.compute_energy_density(H, state, dt_inf) - m.compute_material_qoi(H, state, dt_inf)
        return D, W, Weq, new
    _PUB[nb] = jax.jit(f)
    return _PUB[nb]


def dev3(A):
    import numpy as np
    return A - np.trace(A) / 3.0 * np.eye(3)


def log_spd(A):
    import numpy as np
    w, V = np.linalg.eigh(0.5 * (A + A.T))
    return (V * np.log(w)) @ V.T


def ind_branch(F, Fv, dt, G, tau):
    """independent (numpy) evaluation of the trial logarithmic strain, the backward-Euler increment and the stored branch energy
    G |dev(Ee_trial - delta_Ev)|^2 that the theorems call Wneq_reported"""
    import numpy as np
    Fe = F @ np.linalg.inv(Fv)
    Ee = 0.5 * log_spd(Fe.T @ Fe)
    f = 1.0 / (1.0 + dt / tau)
    dE = dt * f * dev3(Ee) / tau
    Wn = G * float((dev3(Ee - dE) ** 2).sum())
    return Ee, dE, Wn


def eq_energy_ind(F, K, G):
    import numpy as np
    J = float(np.linalg.det(F))
    return 0.5 * G * (J ** (-2.0 / 3.0) * float((F * F).sum()) - 3.0) + 0.5 * K * (0.5 * J * J - 0.5 - math.log(J))


# order in which the failures of one history are reported (the clauses of the property first, then the diagnostics)
CLAUSE_ORDER = ['dissipation', 'isochoric', 'relaxation', 'relaxation-independent', 'non-finite', 'relaxation-factor', 'stored-energy',
                'Hcoax', 'state-update', 'deviatoric', 'Hexp', 'dissipation-closed-form', 'equilibrium-energy']


def run_history(ctx, nb, props, steps, label):
    import numpy as np
    with np.errstate(all='ignore'):      # a broken model may return garbage; that is reported as a failed clause, not as numpy warnings
        return _run_history(ctx, nb, props, steps, label)


def _run_history(ctx, nb, props, steps, label):
    """steps: list of (F, dt, held).  Public interface only.  Evaluates on every step: dissipation >= 0 (and its closed form),
    |det Fv - 1|, hypothesis Hexp, the state update (increment recovered from Fv_new Fv_old^-1: trace-free, equal to the
    backward-Euler increment of the independently evaluated trial strain); the stored non-equilibrium energy the model reports
    (energy - dissipation - equilibrium energy) against the independent evaluation; and on held steps hypothesis Hcoax, monotone
    decay of the reported total and of every independently evaluated branch energy, with the exact factor fac^2."""
    import numpy as np
    import jax.numpy as jnp
    from jax.scipy import linalg as jlinalg
    fn = pub_fn(nb)
    pj = jnp.array(props)
    Gs = [props[2 + 2 * n] for n in range(nb)]
    taus = [props[3 + 2 * n] for n in range(nb)]
    dt_inf = DT_INF_FACTOR * max(taus)
    state = jnp.array(initial_state(nb))
    prev = None          # (F, reported total W_neq, its cancellation tolerance, per branch (independent W_neq, trial strain, increment))
    case = dict(part='history', model=label, props=list(props), steps=[(np.asarray(F).tolist(), dt, held) for F, dt, held in steps])
    found = []

    def bad(clause, what, step):
        found.append((CLAUSE_ORDER.index(clause), len(found), what, dict(case, step=step, clause=clause)))

    for k, (F, dt, held) in enumerate(steps):
        F = np.asarray(F, dtype=float)
        H = jnp.array(F - np.eye(3))
        ctx.count('evaluations')
        D, W, Weq, new_state = fn(H, state, dt, dt_inf, pj)
        D, W, Weq = float(D), float(W), float(Weq)
        old = np.asarray(state)
        new = np.asarray(new_state)
        if not (np.isfinite([D, W, Weq]).all() and np.isfinite(new).all()):
            bad('non-finite', '%s: step %d (dt=%r): the model returns a non-finite energy, dissipation or state (D=%r, W=%r, W_eq=%r)' % (label, k, dt, D, W, Weq), k)
            break
        if not (D >= 0.0):
            bad('dissipation', '%s: dissipated energy %r < 0 at step %d (dt=%r)' % (label, D, k, dt), k)
        Wrep = W - D - Weq                                       # stored non-equilibrium energy as the model reports it
        ctol = 8e-15 * (abs(W) + abs(D) + abs(Weq)) + 1e-13 * sum(Gs)   # cancellation in the difference above
        Weq_i = eq_energy_ind(F, props[0], props[1])
        if abs(Weq - Weq_i) > 1e-9 * abs(Weq_i) + 1e-12 * max(props):
            bad('equilibrium-energy', '%s: step %d: energy at dt -> infinity minus dissipation = %r but the equilibrium hyperelastic energy is %r' % (label, k, Weq, Weq_i), k)
        cur, Wsum, Dsum = [], 0.0, 0.0
        dets = [float(np.linalg.det(x[9 * n:9 * n + 9].reshape(3, 3))) for x in (old, new) for n in range(nb)]
        if not all(1e-3 < d < 1e3 for d in dets) or max(float(np.abs(old).max()), float(np.abs(new).max())) > 1e6:
            # far outside anything an isochoric viscous distortion can be: stop before the independent evaluation degenerates
            bad('isochoric', '%s: step %d (dt=%r): viscous distortion degenerate (determinants of the old/new branch distortions %s, largest entry %.3g)'
                % (label, k, dt, ['%.3g' % d for d in dets], max(float(np.abs(old).max()), float(np.abs(new).max()))), k)
            break
        for n in range(nb):
            G, tau = Gs[n], taus[n]
            Fv = old[9 * n:9 * n + 9].reshape(3, 3)
            Fvn = new[9 * n:9 * n + 9].reshape(3, 3)
            Ee, dE, Wn = ind_branch(F, Fv, dt, G, tau)
            f = 1.0 / (1.0 + dt / tau)
            Wsum += Wn
            Dsum += G * float((dev3(Ee) ** 2).sum()) * (dt / tau) * f * f
            sc = max(1.0, float(np.abs(Ee).max()))
            ex = np.asarray(jlinalg.expm(jnp.array(dE)))
            if abs(np.linalg.det(ex) - math.exp(float(np.trace(dE)))) > 1e-10:
                bad('Hexp', '%s: det(expm(delta_Ev)) = %r differs from exp(tr) (hypothesis Hexp)' % (label, float(np.linalg.det(ex))), k)
            if abs(np.linalg.det(Fvn) - 1.0) > 1e-9:
                bad('isochoric', '%s: det Fv of branch %d = %r after step %d (dt/tau=%.3g)' % (label, n, float(np.linalg.det(Fvn)), k, dt / tau), k)
            # the increment the model applied, recovered from the states: expm(delta_Ev) = Fv_new Fv_old^-1
            A = Fvn @ np.linalg.inv(Fv)
            wA = np.linalg.eigvalsh(0.5 * (A + A.T))
            if wA.min() > 0.0:
                dE_rec = log_spd(A)
                if abs(float(np.trace(dE_rec))) > 1e-10 * sc:
                    bad('deviatoric', '%s: state increment of branch %d (recovered from Fv_new Fv_old^-1) has trace %.3g at step %d'
                        % (label, n, float(np.trace(dE_rec)), k), k)
                gap = float(np.abs(dE_rec - dE).max())
                if gap > 2e-8 * sc:
                    bad('state-update', '%s: step %d, branch %d: the applied viscous increment log(Fv_new Fv_old^-1) differs by %.3g from '
                        'dt fac dev(Ee_trial)/tau of the trial strain of (F, Fv_old) (dt/tau=%.3g)' % (label, k, n, gap, dt / tau), k)
            else:
                bad('state-update', '%s: step %d, branch %d: Fv_new Fv_old^-1 is not a symmetric positive definite matrix' % (label, k, n), k)
            if held and prev is not None and np.array_equal(prev[0], F):
                Wp, Ep, dEp = prev[3][n]
                gap = float(np.abs(Ee - (Ep - dEp)).max())
                if gap > 2e-8 * max(1.0, float(np.abs(Ep).max())):
                    bad('Hcoax', '%s: held step %d, branch %d: trial strain differs from the relaxed strain by %.3g (hypothesis Hcoax)' % (label, k, n, gap), k)
                tol = 1e-7 * max(Wp, 1e-300) + 1e-13 * G
                if Wn > Wp + tol:
                    bad('relaxation-independent', '%s: stored non-equilibrium energy of branch %d (independent evaluation from the returned states) grew from %r to %r '
                        'while the deformation was held (held step %d, dt/tau=%.3g)' % (label, n, Wp, Wn, k, dt / tau), k)
                if abs(Wn - f * f * Wp) > tol + 1e-6 * f * f * Wp:
                    bad('relaxation-factor', '%s: held step %d, branch %d: stored energy %r is not fac^2 * previous (%r)' % (label, k, n, Wn, f * f * Wp), k)
                ctx.count('held_steps_checked')
            cur.append((Wn, Ee, dE))
        if abs(D - Dsum) > 1e-7 * abs(Dsum) + 1e-13 * sum(Gs):
            bad('dissipation-closed-form', '%s: step %d: reported dissipated energy %r differs from sum G|dev E_trial|^2 (dt/tau) fac^2 = %r' % (label, k, D, Dsum), k)
        if abs(Wrep - Wsum) > 1e-7 * abs(Wsum) + ctol:
            bad('stored-energy', '%s: step %d: reported stored non-equilibrium energy (energy - dissipation - equilibrium energy) %r differs from the '
                'independent evaluation %r' % (label, k, Wrep, Wsum), k)
        if held and prev is not None and np.array_equal(prev[0], F):
            Wp, ctp = prev[1], prev[2]
            if Wrep > Wp + 1e-7 * abs(Wp) + ctol + ctp:
                bad('relaxation', '%s: the stored non-equilibrium energy the model reports (energy - dissipation - equilibrium energy) grew from %r to %r '
                    'while the deformation was held (held step %d, dt=%r)' % (label, Wp, Wrep, k, dt), k)
            ctx.count('held_steps_reported_energy_checked')
        prev = (F, Wrep, ctol, cur)
        state = new_state
    for _, _, what, cs in sorted(found, key=lambda t: t[:2]):
        ctx.fail('conclusion', what, case=cs, concrete=True)
    return len(found)


def limits(ctx, nb, props, F, label):
    import numpy as np
    import jax.numpy as jnp
    fn = pub_fn(nb)
    H = jnp.array(F - np.eye(3))
    state = jnp.array(initial_state(nb))
    pj = jnp.array(props)
    n2 = hencky_dev_norm2(F)
    Gs = [props[2 + 2 * n] for n in range(nb)]
    taus = [props[3 + 2 * n] for n in range(nb)]
    case = dict(part='limits', model=label, props=list(props), F=np.asarray(F).tolist())
    tmin, tmax = min(taus), max(taus)
    for e in range(-6, 7):
        for dt in (10.0 ** e * tmin, 10.0 ** e * tmax):
            ctx.count('evaluations')
            _, W, Weq, _ = fn(H, state, dt, DT_INF_FACTOR * tmax, pj)
            W, Weq = float(W), float(Weq)
            Winst = Weq + sum(Gs) * n2
            b0 = sum(G * n2 * dt / t for G, t in zip(Gs, taus))
            b1 = sum(G * n2 * t / dt for G, t in zip(Gs, taus))
            tol = 1e-8 * (abs(Weq) + sum(Gs) * n2) + 1e-12 * max(props)
            if not abs(W - Winst) <= b0 + tol:
                ctx.fail('conclusion', '%s: |W(dt) - W_inst| = %.4g exceeds c dt/tau = %.4g at dt=%r (W_inst from an independent Hencky strain)'
                         % (label, abs(W - Winst), b0, dt), case=dict(case, dt=dt, clause='limit-instantaneous'), concrete=True)
            if not abs(W - Weq) <= b1 + tol:
                ctx.fail('conclusion', '%s: |W(dt) - W_eq| = %.4g exceeds c tau/dt = %.4g at dt=%r' % (label, abs(W - Weq), b1, dt),
                         case=dict(case, dt=dt, clause='limit-equilibrium'), concrete=True)
            closed = Weq + sum(G * n2 / (1 + dt / t) for G, t in zip(Gs, taus))
            if not abs(W - closed) <= tol + 1e-7 * abs(closed):
                ctx.fail('conclusion', '%s: energy %r differs from the closed form W_eq + sum G|dev E|^2/(1+dt/tau) = %r at dt=%r' % (label, W, closed, dt),
                         case=dict(case, dt=dt, clause='closed-form'), concrete=True)
            Weq_i = eq_energy_ind(np.asarray(F), props[0], props[1])
            if not abs(Weq - Weq_i) <= 1e-9 * abs(Weq_i) + 1e-12 * max(props):
                ctx.fail('conclusion', '%s: energy at dt -> infinity minus dissipation = %r but the equilibrium hyperelastic energy is %r' % (label, Weq, Weq_i),
                         case=dict(case, dt=dt, clause='equilibrium-energy'), concrete=True)


def gen_history(r, taus):
    import numpy as np
    steps = []
    F = np.eye(3)
    for _ in range(r.randrange(2, 6)):
        F = rand_F(r)
        steps.append((F, 10 ** r.uniform(-6, 6) * r.choice(taus), False))
    for _ in range(r.randrange(2, 6)):
        steps.append((F, 10 ** r.uniform(-3, 3) * r.choice(taus), True))
    return steps


def rot_axis(axis, theta):
    import numpy as np
    a = np.asarray(axis, dtype=float)
    a = a / np.linalg.norm(a)
    Kx = np.array([[0, -a[2], a[1]], [a[2], 0, -a[0]], [-a[1], a[0], 0]])
    return np.eye(3) + math.sin(theta) * Kx + (1 - math.cos(theta)) * (Kx @ Kx)


def gen_rotation_history(r, taus):
    """a load path of one to three steps that ends in a deformation with a LARGE rotation in its polar decomposition (rigid rotation of
    50..180 degrees about a random axis superposed on a volume-preserving or general stretch, or simple shear with gamma in (2, 4],
    rotation atan(gamma/2) > 45 degrees), applied fast compared with at least one relaxation time so that the branches store energy,
    followed by 3..8 holds at fixed F.  Returns (steps, kind, rotation angle in degrees)."""
    import numpy as np
    kind = r.choice(['rotated-stretch', 'rotated-stretch', 'simple-shear'])
    if kind == 'simple-shear':
        gam = r.uniform(2.05, 4.0)
        i, j = r.sample(range(3), 2)
        F = np.eye(3)
        F[i, j] = gam
        if r.random() < 0.5:
            Q = rand_rot(r)                      # same shear in a rotated frame
            F = Q @ F @ Q.T
        angle = math.degrees(math.atan(gam / 2))
    else:
        lam = math.exp(r.uniform(0.15, 0.5) * r.choice([-1, 1]))
        mu = math.exp(r.uniform(-0.3, 0.3))
        vol = math.exp(r.uniform(-0.2, 0.2)) if r.random() < 0.5 else 1.0
        d = np.array([lam, mu / lam, 1.0 / mu]) * vol ** (1.0 / 3.0)
        Q = rand_rot(r) if r.random() < 0.5 else np.eye(3)
        U = Q @ np.diag(d) @ Q.T
        theta = math.radians(r.uniform(50.0, 180.0))
        axis = [r.gauss(0, 1) for _ in range(3)] if r.random() < 0.5 else [0.0, 0.0, 1.0]
        F = rot_axis(axis, theta) @ U
        angle = math.degrees(theta)
    steps = []
    nload = r.randrange(1, 4)
    tau = r.choice(taus)
    for i in range(nload):
        s = (i + 1.0) / nload
        Fi = np.eye(3) + s * (F - np.eye(3)) if i + 1 < nload else F
        if np.linalg.det(Fi) <= 0.3:
            continue
        steps.append((Fi, 10 ** r.uniform(-3, -0.5) * tau, False))
    for _ in range(r.randrange(3, 9)):
        steps.append((F, 10 ** r.uniform(-1.5, 1.0) * tau, True))
    return steps, kind, angle


def l2_rotation(ctx, r, count):
    """large-rotation load steps followed by holds (both models); returns the number of clause failures"""
    nbad = 0
    keys = set()
    for k in range(count):
        nb = 1 if k % 2 == 0 else 3
        props = rand_props(r, nb)
        label = 'HyperViscoelastic' if nb == 1 else 'MultiBranchHyperViscoelastic'
        steps, kind, angle = gen_rotation_history(r, [props[3 + 2 * n] for n in range(nb)])
        nbad += run_history(ctx, nb, props, steps, label)
        ctx.count('large_rotation_histories')
        ctx.count('large_rotation_%s' % kind)
        ctx.count('large_rotation_angle_%s' % ('45-90' if angle < 90 else '90-135' if angle < 135 else '135-180'))
        ctx.count('large_rotation_held_steps', sum(1 for s in steps if s[2]))
        keys.add((label, tuple(props)))
        if k == 0:
            ctx.sample(dict(stream='large-rotation', model=label, kind=kind, rotation_deg=angle, props=props, F=steps[-1][0].tolist(),
                            dts=[s[1] for s in steps]))
    return nbad, keys


def degenerate_F(r, near=False):
    """a deformation whose right stretch has a DEGENERATE spectrum: two equal principal stretches (uniaxial / equibiaxial: the same
    family with a <> c) or three (volumetric), in the coordinate frame or a rotated one, optionally with a superposed rigid rotation.
    near=True (batched streams only): one of the two equal stretches is perturbed by a relative 1e-14 .. 1e-6, the NEARLY degenerate
    spectra on which the eigenvectors of a compiled batch were off by ~ eps/gap before /repo e63b801.
    Returns (F, kind)."""
    import numpy as np
    a, c = math.exp(r.uniform(0.1, 0.5) * r.choice([-1, 1])), math.exp(r.uniform(-0.2, 0.2))
    kind = r.choice(['aligned', 'rotated', 'rotated', 'volumetric'])
    Rf = rand_rot(r) if kind == 'rotated' else np.eye(3)
    perm = r.sample(range(3), 3)
    d = np.array([a, c, c] if kind != 'volumetric' else [a, a, a])
    if near:
        d[2] *= 1.0 + 10 ** r.uniform(-14, -6)
        kind += '+near'
    d = d[perm]
    F = Rf @ np.diag(d) @ Rf.T
    if r.random() < 0.4:
        F = rand_rot(r) @ F
        kind += '+rigid'
    return F, kind


def spectrum_gap(F):
    """smallest relative gap between two eigenvalues of C = F^T F"""
    import numpy as np
    w = np.linalg.eigvalsh(np.asarray(F).T @ np.asarray(F))
    return float(min(w[1] - w[0], w[2] - w[1]) / max(abs(w[2]), 1e-300))


def l2_degenerate(ctx, r, count):
    """round 4: load paths to a deformation with a degenerate spectrum (uniaxial, equibiaxial, volumetric) followed by holds, through
    the single compiled call and all clauses of run_history -- the states where an eigen-decomposition is not unique and only the
    matrix FUNCTION is (C11_spectral_function_solver_independent); no earlier stream produced them.
    Round 5 (after /repo e63b801): the final load step and the holds of every such history are ALSO run inside a compiled batch of two
    (jit(vmap); the other point is a copy, another degenerate state or a generic one, before or after it) with all clauses of
    run_batched at the normal tolerances -- nothing at a degenerate point of a batch is excused any more."""
    import numpy as np
    keys = set()
    for k in range(count):
        nb = 1 if k % 2 == 0 else 3
        props = rand_props(r, nb)
        label = 'HyperViscoelastic' if nb == 1 else 'MultiBranchHyperViscoelastic'
        taus = [props[3 + 2 * n] for n in range(nb)]
        F, kind = degenerate_F(r)
        tau = r.choice(taus)
        steps = [(F, 10 ** r.uniform(-3, -0.5) * tau, False)]
        if r.random() < 0.5:                                    # a second load step along the same degenerate family
            steps.insert(0, (0.5 * (F + __import__('numpy').eye(3)), 10 ** r.uniform(-3, -0.5) * tau, False))
        for _ in range(r.randrange(3, 7)):
            steps.append((F, 10 ** r.uniform(-4, 1.0) * tau, True))
        run_history(ctx, nb, props, steps, label)
        ctx.count('degenerate_spectrum_histories')
        ctx.count('degenerate_spectrum_%s' % kind)
        keys.add((label, tuple(props)))
        # the same degenerate state inside a compiled batch (own random stream: the histories above stay what they were)
        rb = ctx.rng('l2deg-batch-%d' % k)
        mate = rb.choice(['copy', 'degenerate', 'generic'])
        F2 = np.array(F) if mate == 'copy' else degenerate_F(rb)[0] if mate == 'degenerate' else rand_F(rb)
        Fs = [F, F2] if rb.random() < 0.5 else [F2, F]
        run_batched(ctx, nb, props, Fs, [s[1] for s in steps if s[0] is F], label)
        ctx.count('degenerate_spectrum_histories_batched')
        ctx.count('degenerate_spectrum_batch_mate_%s' % mate)
    return keys


# ----------------------------------------------------------------------------- L2b: the models inside a compiled batch
_PUBV = {}
BATCH_CLAUSES = ['dissipation', 'isochoric', 'relaxation', 'batched-vs-single']


def pub_fn_batched(nb):
    """jit(vmap(.)) of the public interface over a batch of (displacement gradient, state) pairs with a shared time step -- the way
    FunctionSpace / Mechanics evaluate a material model over the quadrature points of a mesh"""
    if nb in _PUBV:
        return _PUBV[nb]
    import jax

    def f(H, state, dt, dt_inf, p):
        m = make_model(nb, [p[i] for i in range(2 + 2 * nb)])
        W = m.compute_energy_density(H, state, dt)
        D = m.compute_material_qoi(H, state, dt)
        new = m.compute_state_new(H, state, dt)
        Weq = m.compute_energy_density(H, state, dt_inf) - m.compute_material_qoi(H, state, dt_inf)
        return D, W, Weq, new
    _PUBV[nb] = jax.jit(jax.vmap(f, (0, 0, None, None, None)))
    return _PUBV[nb]


def run_batched(ctx, nb, props, Fs, dts, label):
    """the same history (load to Fs[i] in the first step, then holds) for a batch of material points through jit(vmap) AND through the
    single compiled call.  Clauses on the batched results: dissipation >= 0, det Fv = 1, reported stored energy non-increasing on the
    holds (C11_relaxation_monotone*), and batched == single (a batch must not change the value at a point)."""
    import numpy as np
    import jax.numpy as jnp
    fb, f1 = pub_fn_batched(nb), pub_fn(nb)
    pj = jnp.array(props)
    Gs = [props[2 + 2 * n] for n in range(nb)]
    taus = [props[3 + 2 * n] for n in range(nb)]
    dt_inf = DT_INF_FACTOR * max(taus)
    B = len(Fs)
    H = jnp.array([np.asarray(F) - np.eye(3) for F in Fs])
    st = jnp.array([initial_state(nb)] * B)
    st1 = [jnp.array(initial_state(nb)) for _ in range(B)]
    gaps = [spectrum_gap(F) for F in Fs]
    case = dict(part='history-batched', model=label, props=list(props), Fs=[np.asarray(F).tolist() for F in Fs], dts=list(dts), eig_gaps=gaps)
    found = []
    prev = None
    with np.errstate(all='ignore'):
        for k, dt in enumerate(dts):
            ctx.count('evaluations')
            D, W, Weq, new = (np.asarray(x) for x in fb(H, st, dt, dt_inf, pj))
            rep = W - D - Weq
            ctol = 8e-15 * (np.abs(W) + np.abs(D) + np.abs(Weq)) + 1e-13 * sum(Gs)
            for i in range(B):
                D1, W1, Weq1, new1 = f1(H[i], st1[i], dt, dt_inf, pj)
                st1[i] = new1
                rep1 = float(W1) - float(D1) - float(Weq1)
                cs = dict(case, step=k, point=i, eig_gap=gaps[i])
                if not np.isfinite([D[i], W[i], Weq[i]]).all() or not (D[i] >= 0.0):
                    found.append((0, '%s in a batch of %d: dissipated energy %r at step %d, point %d' % (label, B, float(D[i]), k, i), dict(cs, clause='dissipation')))
                for n in range(nb):
                    dd = float(np.linalg.det(new[i][9 * n:9 * n + 9].reshape(3, 3)))
                    if not abs(dd - 1.0) <= 1e-9:
                        found.append((1, '%s in a batch of %d: det Fv of branch %d = %r after step %d, point %d' % (label, B, n, dd, k, i), dict(cs, clause='isochoric')))
                if prev is not None and rep[i] > prev[0][i] + 1e-7 * abs(prev[0][i]) + ctol[i] + prev[1][i]:
                    found.append((2, '%s in a batch of %d (jit(vmap)): the stored non-equilibrium energy the model reports grew from %r to %r while the '
                                  'deformation was held (step %d, dt/tau_max=%.3g, point %d, relative eigenvalue gap of F^T F %.2g); the single compiled call gives %r'
                                  % (label, B, float(prev[0][i]), float(rep[i]), k, dt / max(taus), i, gaps[i], rep1), dict(cs, clause='relaxation')))
                if abs(rep[i] - rep1) > 1e-8 * abs(rep1) + 4 * ctol[i] or float(np.abs(new[i] - np.asarray(new1)).max()) > 1e-8:
                    found.append((3, '%s: step %d, point %d: inside a batch of %d the model reports stored energy %r / a state differing by %.3g from what the '
                                  'single compiled call reports (%r) (relative eigenvalue gap of F^T F %.2g)'
                                  % (label, k, i, B, float(rep[i]), float(np.abs(new[i] - np.asarray(new1)).max()), rep1, gaps[i]), dict(cs, clause='batched-vs-single')))
                ctx.count('batched_points_checked')
            prev = (rep, ctol)
            st = jnp.array(new)
    found.sort(key=lambda t: t[0])
    for _, what, cs in found[:6]:
        ctx.fail('conclusion', what, case=cs, concrete=True)
    return len(found)


def l2_batched(ctx, r, count):
    """round 4: batches of two material points with degenerate spectra (plus, every third batch, generic ones) through jit(vmap).
    Round 5 (after /repo e63b801, which repaired the batched eigen-solver): every clause of run_batched is CHECKED at the degenerate
    points at the normal tolerances (no failure is excused by a known finding any more), and half of the degenerate points are
    NEARLY degenerate (relative gap of two stretches 1e-14 .. 1e-6), where the batched eigenvectors used to be off by ~ eps/gap."""
    nbad = 0
    for k in range(count):
        nb = 1 if k % 4 != 3 else 3
        props = rand_props(r, nb)
        label = 'HyperViscoelastic' if nb == 1 else 'MultiBranchHyperViscoelastic'
        taus = [props[3 + 2 * n] for n in range(nb)]
        generic = (k % 3 == 2)
        Fs = []
        for _ in range(2):
            if generic:
                Fs.append(rand_F(r))
            else:
                F, kind = degenerate_F(r, near=r.random() < 0.5)
                Fs.append(F)
                ctx.count('batched_points_%s' % ('near_degenerate' if '+near' in kind else 'degenerate'))
        tau = r.choice(taus)
        dts = [10 ** r.uniform(-3, -0.5) * tau] + [10 ** r.uniform(-6, -2) * tau for _ in range(r.randrange(4, 9))]
        nbad += run_batched(ctx, nb, props, Fs, dts, label)
        ctx.count('batched_histories')
        ctx.count('batched_histories_%s' % ('generic' if generic else 'degenerate'))
    return nbad


def l2(ctx):
    keys = set()
    _, ks = l2_rotation(ctx, ctx.rng('l2rot'), ctx.n(8, 80))
    keys |= ks
    keys |= l2_degenerate(ctx, ctx.rng('l2deg'), ctx.n(6, 60))
    l2_batched(ctx, ctx.rng('l2batch'), ctx.n(12, 60))
    r = ctx.rng('l2')
    for k in range(ctx.n(14, 150)):
        nb = 1 if k % 2 == 0 else 3
        props = rand_props(r, nb)
        label = 'HyperViscoelastic' if nb == 1 else 'MultiBranchHyperViscoelastic'
        steps = gen_history(r, [props[3 + 2 * n] for n in range(nb)])
        run_history(ctx, nb, props, steps, label)
        limits(ctx, nb, props, rand_F(r), label)
        keys.add((label, tuple(props)))
        if k == 0:
            ctx.sample(dict(model=label, props=props, nsteps=len(steps), dts=[s[1] for s in steps]))
    ctx.count('distinct_nontrivial', len(keys))


def correspondence(ctx, model_ok):
    import optimism  # noqa: F401
    # the conclusion streams first: they need nothing but the public interface of the models, so they still run (and name a
    # concrete failing history) when a refactoring of the private helpers breaks the kernel-level correspondence below
    l2(ctx)
    l1(ctx, model_ok)
    l1_spectral(ctx, model_ok)


CLAUSE_PRIORITY = ['relaxation', 'relaxation-independent', 'dissipation', 'isochoric', 'limit-instantaneous', 'limit-equilibrium']


def search(ctx, reasons):
    """directed search with the thorough budget: large-rotation load + hold histories first (the relaxation clause), then the random
    histories and the limits; a failure of one of the clauses of the property is preferred to a failed diagnostic"""
    import copy
    import optimism  # noqa: F401
    c2 = copy.copy(ctx)
    c2.failures, c2.counts, c2.cov, c2.samples, c2.notes = [], {}, {}, [], []
    c2.tier = 'thorough'
    c2.seed = ctx.seed + 1

    def best():
        conc = [fl for fl in c2.failures if fl.get('concrete')]
        for cl in CLAUSE_PRIORITY:
            for fl in conc:
                if (fl.get('case') or {}).get('clause') == cl:
                    return fl
        return conc[0] if conc else None
    l2_rotation(c2, c2.rng('search-rot'), 200)
    if best() is None:
        l2(c2)
    return best()


FIXED_CLAUSES = ('relaxation', 'batched-vs-single')


def finding_fails(ctx, f):
    """replay the witness of a known finding on the implementation.
    C11-F1 (fixed in /repo e63b801: TensorMath.eigen_sym33_non_unit evaluates the noise-valued in-plane direction once, so that the
    eigenvectors of a (nearly) degenerate tensor stay orthonormal inside jit(vmap)): the stored history -- a batch of two material
    points, one of them uniaxial, loaded in one step and then held -- is run through jit(vmap) and through the single compiled call,
    in the stored order and with the two points swapped, with the clauses and the NORMAL tolerances of run_batched.  A stored
    non-equilibrium energy that grows during the hold, or a batched value / state that differs from the single call, at ANY point of
    the witness is a recurrence (the driver turns it into a `regression` failure = VIOLATION)."""
    import copy
    import optimism  # noqa: F401
    import numpy as np
    w = f.get('witness') or {}
    if f.get('id') != 'C11-F1' or not w:
        return False
    c2 = copy.copy(ctx)
    c2.failures, c2.counts, c2.cov, c2.samples, c2.notes = [], {}, {}, [], []
    nb = 1 if w['model'] == 'HyperViscoelastic' else 3
    Fs = [np.array(F) for F in w['Fs']]
    run_batched(c2, nb, w['props'], Fs, w['dts'], w['model'])
    run_batched(c2, nb, w['props'], Fs[::-1], w['dts'], w['model'])
    ctx.count('fixed_finding_witness_points_replayed', c2.counts.get('batched_points_checked', 0))
    rec = [fl for fl in c2.failures if (fl.get('case') or {}).get('clause') in FIXED_CLAUSES]
    for fl in rec[:2]:
        ctx.log('C11-F1 recurs: %s' % fl['what'][:500])
    return bool(rec)


def matches_finding(fl, f):
    """C11 has no open finding.  C11-F1 (stored energy growing / differing from the single call at a degenerate point of a compiled
    batch) is fixed (/repo e63b801), so NO failure is excused on its account: a failure of the relaxation clause or of the
    batched-vs-single comparison at a point with two (nearly) equal principal stretches is a violation like any other."""
    return False


def replay(ctx, path):
    import optimism  # noqa: F401
    import numpy as np
    rep = json.load(open(path))
    case = rep.get('failing_input')
    print('replay of', path)
    print(json.dumps(rep.get('reasons'), indent=1)[:3000])
    if case and case.get('part') == 'history-batched':
        ctx.failures = []
        nb = 1 if case['model'] == 'HyperViscoelastic' else 3
        run_batched(ctx, nb, case['props'], [np.array(F) for F in case['Fs']], case['dts'], case['model'])
        bad = [fl['what'] for fl in ctx.failures if fl.get('concrete')]
        print('implementation now:', bad[:5] or 'conclusions hold')
        return 1 if bad else 0
    if not case or case.get('part') not in ('history', 'limits'):
        print('no concrete failing input recorded; broken obligations:', rep.get('broken'))
        return 1
    ctx.failures = []
    nb = 1 if case['model'] == 'HyperViscoelastic' else 3
    if case['part'] == 'history':
        run_history(ctx, nb, case['props'], [(np.array(F), dt, held) for F, dt, held in case['steps']], case['model'])
    else:
        limits(ctx, nb, case['props'], np.array(case['F']), case['model'])
    bad = [fl['what'] for fl in ctx.failures if fl.get('concrete')]
    print('implementation now:', bad[:5] or 'conclusions hold')
    return 1 if bad else 0
