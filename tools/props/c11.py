"""C11 -- viscoelastic models dissipate, relax and keep viscous flow isochoric
(optimism/material/HyperViscoelastic.py, MultiBranchHyperViscoelastic.py, TensorMath.py)."""
import json
import math

from vlib import common as C

ID = 'C11'
READY = True
LEVEL_TEXT = ('Partial (full for the algorithm in exact arithmetic, under two stated hypotheses on the un-modelled matrix functions). '
              'Coq theorems over R about the kernels re-translated from the source on every run, for the single- and the three-branch model: '
              'the reported dissipated energy equals G|dev E_trial|^2 (dt/tau)/(1+dt/tau)^2 and is non-negative for tau, dt > 0, G >= 0 and EVERY '
              'log_sqrt_symm; the state increment is trace-free, so det Fv_new = det Fv_old for every expm with det(expm A) = exp(tr A); the energy '
              'equals W_eq + sum_i G_i |dev E_trial,i|^2/(1+dt/tau_i) for every state, which gives the explicit bounds |W - W_inst| <= c dt/tau and '
              '|W - W_eq| <= c tau/dt and the two limits (epsilon statements); at held deformation every further step multiplies the stored '
              'non-equilibrium energy of a branch by 1/(1+dt/tau)^2 in (0,1), so it is non-increasing along any sequence of positive steps -- '
              'under the coaxial update identity Etrial(state_new) = Etrial(state) - delta_Ev, exact for the true matrix log/exp. '
              'NOT proved: accuracy of TensorMath.log_sqrt_symm (approximate spectral routine) and of jax.scipy.linalg.expm; the two '
              'hypotheses are checked numerically on the implementation for every explored history. Binary64 behaviour is covered only by the '
              'correspondence and by evaluating the conclusions on the real models over dt/tau in [1e-6, 1e6].')
TECHNIQUE = 'Coq proof (Reals) over kernels regenerated from the Python AST, opaque spectral functions as parameters; vm_compute/PrimFloat correspondence'
GEN = ['TensorMath', 'HyperViscoelastic', 'MultiBranchHyperViscoelastic', 'ViscoState']
TARGETS = ['model/M_C11.vo', 'proofs/L_C11a.vo', 'proofs/L_C11.vo']
COQ_FILES = ['base/Num.v', 'model/M_C08.v', 'model/M_C11.v', 'proofs/L_C11a.v', 'proofs/L_C11.v', 'props/P_C11.v']
TRUSTED = ['Coq 8.16.1 kernel + vm_compute (no native_compute)',
           'tools/vlib/py2coq.py translator (Python ast -> Gallina over Num T), cross-checked by running the generated kernels at binary64 against the implementation',
           'hand composition of the generated per-branch kernels for the three-branch loops (model/M_C11.v, model/M_C08.v), tied by the same comparison',
           'correspondence harness: exact float exchange; log_sqrt_symm / expm values of the implementation are fed to the generated kernels as constant oracles',
           'theorems are over exact reals; binary64 rounding is covered only by the correspondence and the evaluated conclusions']
ASSUMPTIONS = ['exact real arithmetic in theorems',
               'Hexp: det(expm A) = exp(tr A) for jax.scipy.linalg.expm (checked numerically on every explored increment)',
               'Hcoax: Etrial(H, expm(delta_Ev) Fv) = Etrial(H, Fv) - delta_Ev at held deformation, exact for the true matrix logarithm/exponential '
               '(checked numerically on every explored held step); TensorMath.log_sqrt_symm itself is not verified',
               'moduli >= 0, relaxation times > 0, time steps > 0']
RULE = ('cases: random positive moduli and relaxation times over four decades, deformations F = R U with stretches in [0.6, 1.7], dt/tau from 1e-6 to 1e6; '
        'L1: random (H, Fv, dt) with non-virgin states; L2: multi-step random deformation histories followed by held segments, and step-size sweeps on a '
        'virgin material.  Non-trivial = deformation with a deviatoric logarithmic strain above 1e-3; distinct = distinct (model, properties, history) tuples')
IMPORTS = ['From OV.gen Require Import Gen_TensorMath Gen_HyperViscoelastic Gen_MultiBranchHyperViscoelastic Gen_ViscoState.',
           'From OV.model Require Import M_C08 M_C11.']


# ----------------------------------------------------------------------------- helpers
def cm(A):
    return '(mk ' + ' '.join(C.cf(float(A[i][j])) for i in range(3) for j in range(3)) + ')'


def ctup(p):
    return '(' + ', '.join(C.cf(float(x)) for x in p) + ')'


def fn_const(A):
    return '(fun _ => ' + cm(A) + ')'


MAT9 = '(fun A : mat PrimFloat.float => [m00 A; m01 A; m02 A; m10 A; m11 A; m12 A; m20 A; m21 A; m22 A])'


def rand_rot(r):
    import numpy as np
    q = np.array([r.gauss(0, 1) for _ in range(4)])
    q /= np.linalg.norm(q)
    w, x, y, z = q
    return np.array([[1 - 2 * (y * y + z * z), 2 * (x * y - z * w), 2 * (x * z + y * w)],
                     [2 * (x * y + z * w), 1 - 2 * (x * x + z * z), 2 * (y * z - x * w)],
                     [2 * (x * z - y * w), 2 * (y * z + x * w), 1 - 2 * (x * x + y * y)]])


def rand_F(r, amp=1.0):
    import numpy as np
    Q = rand_rot(r)
    lam = np.exp(np.array([r.uniform(-0.5, 0.5) * amp for _ in range(3)]))
    U = Q @ np.diag(lam) @ Q.T
    return rand_rot(r) @ U


def rand_props(r, nb):
    K = 10 ** r.uniform(0, 3)
    G = 10 ** r.uniform(-1, 2)
    out = [K, G]
    for _ in range(nb):
        out += [10 ** r.uniform(-2, 2), 10 ** r.uniform(-3, 2)]
    return out


def hencky_dev_norm2(F):
    """|dev log U|^2 from an independent eigen-decomposition"""
    import numpy as np
    w, _ = np.linalg.eigh(F.T @ F)
    e = 0.5 * np.log(w)
    e = e - e.mean()
    return float((e * e).sum())



_JIT = {}


def step_fn(nb):
    """one jitted function per model: everything the checks need from one step, properties passed as an argument"""
    if nb in _JIT:
        return _JIT[nb]
    import jax
    import jax.numpy as jnp
    from jax.scipy import linalg as jlinalg
    from optimism.material import HyperViscoelastic as HV, MultiBranchHyperViscoelastic as MB
    mod = HV if nb == 1 else MB

    def f(H, state, dt, p):
        D = mod._compute_dissipated_energy(H, state, dt, p)
        W = mod._energy_density(H, state, dt, p)
        Weq = mod._eq_strain_energy(H, p)
        new = mod._compute_state_new(H, state, dt, p)
        br = []
        for n in range(nb):
            Fv = state[9 * n:9 * n + 9]
            Ee = mod._compute_elastic_logarithmic_strain(H, Fv)
            if nb == 1:
                dE = mod._compute_state_increment(Ee, dt, p)
                Wn = mod._neq_strain_energy(Ee - dE, p)
            else:
                dE = mod._compute_state_increment(Ee, dt, p, 2 + 2 * n)
                Wn = mod._neq_strain_energy(Ee - dE, p, 2 + 2 * n)
            br.append((Ee, dE, Wn, jlinalg.expm(dE)))
        return D, W, Weq, new, br
    _JIT[nb] = jax.jit(f)
    return _JIT[nb]

# ----------------------------------------------------------------------------- L1: generated kernels at binary64
def l1(ctx, model_ok):
    import numpy as np
    import jax.numpy as jnp
    r = ctx.rng('l1')
    exprs, want, info = [], [], []
    for k in range(ctx.n(40, 400)):
        F = rand_F(r)
        H = F - np.eye(3)
        Fv = rand_F(r, 0.3)
        Fv = Fv / np.cbrt(np.linalg.det(Fv))
        dt_over_tau = 10 ** r.uniform(-6, 6)
        # ---- single branch
        p = rand_props(r, 1)
        dt = dt_over_tau * p[3]
        D, W, _, new, br = step_fn(1)(jnp.array(H), jnp.array(Fv.ravel()), dt, jnp.array(p))
        D, W = float(D), float(W)
        Ee, dEv, EX = (np.asarray(x) for x in (br[0][0], br[0][1], br[0][3]))
        Fn = np.asarray(new).reshape(3, 3)
        e1 = ('[D_hv %s %s %s %s %s; E_hv %s %s %s %s %s] ++ %s (inc_hv %s %s %s) ++ %s (state_new_hv %s %s %s %s %s %s)'
              % (fn_const(Ee), ctup(p), cm(Fv), C.cf(dt), cm(H), fn_const(Ee), ctup(p), cm(Fv), C.cf(dt), cm(H),
                 MAT9, ctup(p), C.cf(dt), cm(Ee), MAT9, fn_const(Ee), fn_const(EX), ctup(p), cm(Fv), C.cf(dt), cm(H)))
        exprs.append('fencs (' + e1 + ')')
        want.append([D, W] + dEv.ravel().tolist() + Fn.ravel().tolist())
        info.append(dict(model='HyperViscoelastic', props=p, dt=dt, H=H.tolist(), Fv=Fv.tolist(), scale=max(p[2], p[1], p[0])))
        # ---- three branches, each with its own viscous distortion
        p3 = rand_props(r, 3)
        dt3 = dt_over_tau * p3[3 + 2 * r.randrange(3)]
        Fvs = [Fv, np.eye(3), rand_F(r, 0.2)]
        Fvs[2] = Fvs[2] / np.cbrt(np.linalg.det(Fvs[2]))
        D3, _, _, new3, br3 = step_fn(3)(jnp.array(H), jnp.array(np.hstack([f.ravel() for f in Fvs])), dt3, jnp.array(p3))
        D3 = float(D3)
        Fn3 = np.asarray(new3).reshape(3, 3, 3)
        parts, mats = [], []
        for n in range(3):
            Een, EXn = np.asarray(br3[n][0]), np.asarray(br3[n][3])
            parts.append('(D_mb_branch %d%%nat %s %s %s %s %s)' % (n, fn_const(Een), ctup(p3), cm(Fvs[n]), C.cf(dt3), cm(H)))
            mats.append('%s (state_new_b %d%%nat %s %s %s %s %s %s)' % (MAT9, n, fn_const(Een), fn_const(EXn), ctup(p3), cm(Fvs[n]), C.cf(dt3), cm(H)))
        e3 = '[nadd (nadd (nadd nzero %s) %s) %s] ++ %s' % (parts[0], parts[1], parts[2], ' ++ '.join(mats))
        exprs.append('fencs (' + e3 + ')')
        want.append([D3] + Fn3.ravel().tolist())
        info.append(dict(model='MultiBranchHyperViscoelastic', props=p3, dt=dt3, H=H.tolist(), Fv=[f.tolist() for f in Fvs], scale=max(p3)))
        ctx.count('evaluations', 2)
    if not model_ok:
        return
    res = C.coq_eval(IMPORTS, exprs, 'C11', shard=40, timeout=900)
    mism = 0
    for zs, ws, inf in zip(res, want, info):
        got = C.dec_floats(zs)
        ctx.count('model_vs_impl_comparisons', len(ws))
        for i, (g, w) in enumerate(zip(got, ws)):
            atol = 1e-11 * inf['scale'] if i < 2 and inf['model'] == 'HyperViscoelastic' or (i < 1) else 1e-12
            if not C.close(g, w, rtol=1e-9, atol=atol):
                mism += 1
                if mism <= 10:
                    ctx.fail('correspondence', 'generated kernels of %s: output %d = %r but the implementation gives %r (dt=%r)' % (inf['model'], i, g, w, inf['dt']),
                             case=dict(part='l1', output=i, model_value=g, impl=w, **inf))
    ctx.count('model_vs_impl_mismatches', mism)


# ----------------------------------------------------------------------------- L2: conclusions on the real models
def run_history(ctx, nb, props, steps, label):
    """steps: list of (F, dt, held) ; evaluates dissipation >= 0, |det Fv - 1|, Hexp, and on held steps Hcoax + monotone decay with the exact factor"""
    import numpy as np
    import jax.numpy as jnp
    fn = step_fn(nb)
    pj = jnp.array(props)
    state = jnp.array(np.hstack([np.eye(3).ravel()] * nb))
    prev = None          # per branch: (reported W_neq, trial strain, increment) of the previous step
    case = dict(part='history', model=label, props=props, steps=[(np.asarray(F).tolist(), dt, held) for F, dt, held in steps])
    for k, (F, dt, held) in enumerate(steps):
        H = jnp.array(F - np.eye(3))
        ctx.count('evaluations')
        D, _, _, new_state, br = fn(H, state, dt, pj)
        D = float(D)
        if not (D >= 0.0):
            ctx.fail('conclusion', '%s: dissipated energy %r < 0 at step %d (dt=%r)' % (label, D, k, dt), case=dict(case, step=k, clause='dissipation'), concrete=True)
        cur = []
        for n in range(nb):
            G, tau = props[2 + 2 * n], props[3 + 2 * n]
            Ee, dE, W, ex = (np.asarray(x) for x in br[n])
            W = float(W)
            if abs(np.linalg.det(ex) - math.exp(float(np.trace(dE)))) > 1e-10:
                ctx.fail('conclusion', '%s: det(expm(delta_Ev)) = %r differs from exp(tr) (hypothesis Hexp)' % (label, float(np.linalg.det(ex))),
                         case=dict(case, step=k, clause='Hexp'), concrete=True)
            if abs(float(np.trace(dE))) > 1e-12 * max(1.0, float(np.abs(dE).max())):
                ctx.fail('conclusion', '%s: state increment of branch %d is not trace-free' % (label, n), case=dict(case, step=k, clause='deviatoric'), concrete=True)
            Fvn = np.asarray(new_state[9 * n:9 * n + 9]).reshape(3, 3)
            if abs(np.linalg.det(Fvn) - 1.0) > 1e-9:
                ctx.fail('conclusion', '%s: det Fv of branch %d = %r after step %d (dt/tau=%.3g)' % (label, n, float(np.linalg.det(Fvn)), k, dt / tau),
                         case=dict(case, step=k, clause='isochoric'), concrete=True)
            if held and prev is not None:
                Wp, Ep, dEp = prev[n]
                gap = float(np.abs(Ee - (Ep - dEp)).max())
                sc = max(1.0, float(np.abs(Ep).max()))
                if gap > 2e-8 * sc:
                    ctx.fail('conclusion', '%s: held step %d, branch %d: trial strain differs from the relaxed strain by %.3g (hypothesis Hcoax)' % (label, k, n, gap),
                             case=dict(case, step=k, clause='Hcoax'), concrete=True)
                f = 1.0 / (1.0 + dt / tau)
                tol = 1e-7 * max(Wp, 1e-300) + 1e-13 * G
                if W > Wp + tol:
                    ctx.fail('conclusion', '%s: stored non-equilibrium energy of branch %d grew from %r to %r while the deformation was held (dt/tau=%.3g)'
                             % (label, n, Wp, W, dt / tau), case=dict(case, step=k, clause='relaxation'), concrete=True)
                if abs(W - f * f * Wp) > tol + 1e-6 * f * f * Wp:
                    ctx.fail('conclusion', '%s: held step %d, branch %d: stored energy %r is not fac^2 * previous (%r)' % (label, k, n, W, f * f * Wp),
                             case=dict(case, step=k, clause='relaxation-factor'), concrete=True)
                ctx.count('held_steps_checked')
            cur.append((W, Ee, dE))
        prev = cur
        state = new_state


def limits(ctx, nb, props, F, label):
    import numpy as np
    import jax.numpy as jnp
    fn = step_fn(nb)
    H = jnp.array(F - np.eye(3))
    state = jnp.array(np.hstack([np.eye(3).ravel()] * nb))
    pj = jnp.array(props)
    n2 = hencky_dev_norm2(F)
    Gs = [props[2 + 2 * n] for n in range(nb)]
    taus = [props[3 + 2 * n] for n in range(nb)]
    case = dict(part='limits', model=label, props=props, F=np.asarray(F).tolist())
    tmin, tmax = min(taus), max(taus)
    for e in range(-6, 7):
        for dt in (10.0 ** e * tmin, 10.0 ** e * tmax):
            ctx.count('evaluations')
            _, W, Weq, _, _ = fn(H, state, dt, pj)
            W, Weq = float(W), float(Weq)
            Winst = Weq + sum(Gs) * n2
            b0 = sum(G * n2 * dt / t for G, t in zip(Gs, taus))
            b1 = sum(G * n2 * t / dt for G, t in zip(Gs, taus))
            tol = 1e-8 * (abs(Weq) + sum(Gs) * n2) + 1e-12 * max(props)
            if abs(W - Winst) > b0 + tol:
                ctx.fail('conclusion', '%s: |W(dt) - W_inst| = %.4g exceeds c dt/tau = %.4g at dt=%r (W_inst from an independent Hencky strain)'
                         % (label, abs(W - Winst), b0, dt), case=dict(case, dt=dt, clause='limit-instantaneous'), concrete=True)
            if abs(W - Weq) > b1 + tol:
                ctx.fail('conclusion', '%s: |W(dt) - W_eq| = %.4g exceeds c tau/dt = %.4g at dt=%r' % (label, abs(W - Weq), b1, dt),
                         case=dict(case, dt=dt, clause='limit-equilibrium'), concrete=True)
            closed = Weq + sum(G * n2 / (1 + dt / t) for G, t in zip(Gs, taus))
            if abs(W - closed) > tol + 1e-7 * abs(closed):
                ctx.fail('conclusion', '%s: energy %r differs from the closed form W_eq + sum G|dev E|^2/(1+dt/tau) = %r at dt=%r' % (label, W, closed, dt),
                         case=dict(case, dt=dt, clause='closed-form'), concrete=True)


def gen_history(r, taus):
    import numpy as np
    steps = []
    F = np.eye(3)
    for _ in range(r.randrange(2, 6)):
        F = rand_F(r)
        steps.append((F, 10 ** r.uniform(-6, 6) * r.choice(taus), False))
    for _ in range(r.randrange(2, 6)):
        steps.append((F, 10 ** r.uniform(-3, 3) * r.choice(taus), True))
    return steps


def l2(ctx):
    r = ctx.rng('l2')
    keys = set()
    for k in range(ctx.n(14, 150)):
        nb = 1 if k % 2 == 0 else 3
        props = rand_props(r, nb)
        label = 'HyperViscoelastic' if nb == 1 else 'MultiBranchHyperViscoelastic'
        steps = gen_history(r, [props[3 + 2 * n] for n in range(nb)])
        run_history(ctx, nb, props, steps, label)
        limits(ctx, nb, props, rand_F(r), label)
        keys.add((label, tuple(props)))
        if k == 0:
            ctx.sample(dict(model=label, props=props, nsteps=len(steps), dts=[s[1] for s in steps]))
    ctx.count('distinct_nontrivial', len(keys))


def correspondence(ctx, model_ok):
    import optimism  # noqa: F401
    l1(ctx, model_ok)
    l2(ctx)


def search(ctx, reasons):
    import copy
    import optimism  # noqa: F401
    c2 = copy.copy(ctx)
    c2.failures, c2.counts, c2.cov, c2.samples, c2.notes = [], {}, {}, [], []
    c2.tier = 'thorough'
    c2.seed = ctx.seed + 1
    l2(c2)
    for fl in c2.failures:
        if fl.get('concrete'):
            return fl
    return None


def finding_fails(ctx, f):
    return False


def matches_finding(fl, f):
    return False


def replay(ctx, path):
    import optimism  # noqa: F401
    import numpy as np
    rep = json.load(open(path))
    case = rep.get('failing_input')
    print('replay of', path)
    print(json.dumps(rep.get('reasons'), indent=1)[:3000])
    if not case or case.get('part') not in ('history', 'limits'):
        print('no concrete failing input recorded; broken obligations:', rep.get('broken'))
        return 1
    ctx.failures = []
    nb = 1 if case['model'] == 'HyperViscoelastic' else 3
    if case['part'] == 'history':
        run_history(ctx, nb, case['props'], [(np.array(F), dt, held) for F, dt, held in case['steps']], case['model'])
    else:
        limits(ctx, nb, case['props'], np.array(case['F']), case['model'])
    bad = [fl['what'] for fl in ctx.failures if fl.get('concrete')]
    print('implementation now:', bad[:5] or 'conclusions hold')
    return 1 if bad else 0
