"""C07 -- solution sensitivities equal implicit-function-theorem derivatives."""
import contextlib
import io
import json
import math
import random
from collections import namedtuple

from vlib import common as C

ID = 'C07'
READY = True
LEVEL_TEXT = ('Partial. Coq theorems: (a) adjoint identity over an abstract real inner-product structure: a minimiser lam of '
              '<v,z> + 1/2<z,Hz> is stationary and <v, -H^-1 J dp> = <J^T lam, dp>; the inexact version with the adjoint residual; '
              '(b) by computation on tables regenerated from the AST of inverse/NonlinearSolve.py: every statically resolvable call '
              'exists with admissible arity/keywords, tuple unpacks and constant indices fit every return of the callee, attributes '
              'read on the objective exist (positive on the repaired tree; fails if F3 returns); both reverse rules restore objective.p, '
              'solve the adjoint system by CG at infinite radius from zero with the Hessian at the forward solution, take component 0, '
              'return a zero cotangent for the initial guess and vec_jacobian_p<k> in slot k in {0,1,2,4} guarded by p[k] != None, None in '
              'slot 3/5; (a)+(b) composed: a denotation of the extracted rule descriptors (every flag selects between the source behaviour and an '
              'arbitrary other value) over abstract grad_x / vjp / jvp / CG, with the slot helpers Objective.vec_jacobian_p<k>, the jitted vjp closures '
              'they call, hessian_vec, grad_x, the place where objective.p is re-established (before anything is evaluated on the objective) and what '
              'the forward rules save all regenerated from the AST; theorem: nonlinear_solve_with_state_b returns in position k of Params the '
              'implicit-function cotangent of slot k at the SAVED parameters for ANY objective.p at backward time (None for absent slots / slot 3, zero '
              'for the guess), nonlinear_solve_b the design-slot cotangent at the SAVED parameters, again for ANY objective.p at backward time; the '
              'closures linearise at the actual parameters; (a2) all slots at once: for any descriptor passing revrule_ok (and for nonlinear_solve_with_state_b on the '
              'regenerated tables, whatever objective.p holds) <v, dU> = sum_k <dp_k, returned cotangent of slot k> for the implicit-function tangent dU of the solution '
              'when every differentiated slot moves (total derivative, not slot by slot); (a3) load histories on ONE Objective (model/M_C07_Hist.v: the reverse rules run '
              'last-to-first, each reads and assigns the mutable objective.p, cotangents are pulled back to the global parameters and to the previous solution = initial '
              'guess): the sweep never gets stuck and the accumulated cotangent pairs with d(theta) as sum_k <v_k, dU_k>, the derivative by the chained implicit function '
              'theorem -- with NO hypothesis on objective.p for either entry point (any mix of nonlinear_solve and nonlinear_solve_with_state, any objective.p at the start of the sweep or '
              'between the solves: since /repo 42a60d0 both reverse rules re-establish the Params their forward rule saved); forward model (regenerated: parameters each primal hands '
              'to the equation solver, nonlinear_equation_solve assigns objective.p on every path, what each forward rule saves): both forward rules save exactly the parameters their '
              'solve ran with and for nonlinear_solve these carry the design; the rule shape before the fix (design slot only) is kept as a remark about the model: correct iff the '
              'other slots of objective.p are unchanged (C07_design_rule_prefix_ift), refuted under load stepping (C07_design_rule_load_stepping_refuted; finding '
              'C07-DESIGN-RESTORE, fixed); (c) slot laws of param_index_update (regenerated table); (d) the two function-space '
              'constructors are the same term after mesh.coords := coords and the re-made mesh carries every Mesh field verbatim. Not proved '
              '(hypotheses of the composition, checked on the implementation against dense linear algebra): JAX vjp is the transpose of the derivative, '
              'jvp of a gradient is linear and self-adjoint, CG at infinite radius returns a minimiser for every SPD preconditioner (streams with exact and '
              'deliberately poor preconditioners), the implicit function theorem itself (the tangent is defined by H u = -J dp); the vjp wrappers of '
              'MechanicsInverse are only checked against dense jacfwd; of the forward passes only the handling of objective.p and of the saved residuals is modelled (equation solver = black box), '
              'the records of that forward model are not yet fed into the sweep theorem by a theorem, and the ordering / accumulation of the rules by JAX is how the model reads jax.grad '
              '(checked by the history, load-stepping and trace streams).')
TECHNIQUE = 'Coq proof (abstract algebra over Reals; computation over regenerated reference tables) + implementation-side conclusion checks against dense linear algebra'
GEN = ['Refs_NonlinearSolve', 'CFG_drivers']
TARGETS = ['proofs/L_C07.vo', 'proofs/L_C07_Rule.vo', 'proofs/L_C07_Hist.vo', 'proofs/L_C19.vo', 'model/M_C07_Refs.vo', 'model/M_C07_Rule.vo', 'model/M_C07_Hist.vo']
COQ_FILES = ['model/M_C07_Refs.v', 'model/M_C07_Rule.v', 'model/M_C07_Hist.v', 'model/M_C19_CFG.v', 'proofs/L_C07.v', 'proofs/L_C07_Rule.v', 'proofs/L_C07_Hist.v', 'proofs/L_C19.v', 'props/P_C07.v']
TRUSTED = ['Coq 8.16.1 kernel + vm_compute (no native_compute)',
           'tools/vlib/extract_drivers.py (AST -> reference/arity/unpack table, reverse-rule descriptors, restore kinds, forward-rule shapes, parameters each primal hands to the equation solver, objective.p assignment in nonlinear_equation_solve, slot helpers / vjp closures of class Objective, normalised constructor bodies, slot table; fail closed or false flags)',
           'static resolution covers calls through the imported optimism modules and methods of class Objective on the first parameter; other calls (jax, numpy) are not in the table',
           'harness-side sksparse shim (dense Cholesky) as preconditioner',
           'theorems are over exact reals; CG / nonlinear-solve tolerances and binary64 rounding are covered only by the conclusion checks']
ASSUMPTIONS = ['adjoint theorem: symmetry and bilinearity of the inner product, linearity and self-adjointness of H, <J dp, w> = <dp, J^T w> as section hypotheses (Example over R)',
               'composition theorems: grad_x, jax.vjp, jax.jvp and solve_trust_region_minimization are section variables; hypotheses: vjp(g, q) is the transpose of the '
               'derivative of g at q; at the point of the solve the jvp-of-gradient operator is linear and self-adjoint and CG at infinite radius from zero returns '
               'a minimiser of the quadratic model in component 0 whatever the preconditioner (Example C07_rule_nonvacuous: jointly satisfiable over R)',
               'the denotation reads the descriptors: statement order inside a rule is represented only by "objective.p is re-established before the first evaluation on the objective"',
               'the objective passed to the reverse rules is an optimism.Objective.Objective (methods resolved against that class)',
               'history theorems: additionally <a, 0> = 0, additivity of the inner product of the global parameters, the pull-backs b_At / b_Bt of the user-side parameter '
               'functions are transposes of their derivatives (weak form), solve_hyps at every forward solution for every right-hand side; the sweep order and the summation of '
               'cotangents stand for jax.grad (Examples C07_history_nonvacuous, C07_design_history_nonvacuous); '
               'forward model: the equation solver is a section variable returning the solution',
               'jax.vjp of the gradient w.r.t. a parameter slot is the transposed parameter Jacobian (JAX); checked against jacfwd in L2']
RULE = ('seeded parameterised energies (quadratic + quartic, 2-6 unknowns, slots 0,1,2,4, random cotangents) through jax.vjp of nonlinear_solve and '
        'nonlinear_solve_with_state, single solves and 2-3 step load histories on ONE Objective with changing boundary data/time/design and a state slot '
        'that depends on the previous solution (chained derivative w.r.t. bc, design, initial state and time offset); histories of 1-3 solves on ONE '
        'Objective with a PrecondStrategy that is exact / bulk part only / diagonal / stale (another point and parameters) / diagonally shifted / '
        'TwoTry(bulk, exact) / the default dense one, every slot of every step against the dense implicit-function value; load stepping with nonlinear_solve where the '
        'boundary data is assigned to objective.p between the steps (energy couples boundary data and design): the sensitivity of the LAST solution and that of the whole '
        'history must both equal the chained implicit-function derivative (the latter was finding C07-DESIGN-RESTORE, fixed in /repo 42a60d0); synthetic energies / material updates on small structured meshes for the helper VJPs; perturbed meshes for the '
        'adjoint function space; distinct = distinct spec tuples, non-trivial = non-zero cotangent and parameter Jacobian')
IMPORTS = ['From OV.model Require Import M_C07_Refs.', 'From OV.gen Require Import Refs_NonlinearSolve.']


@contextlib.contextmanager
def quiet():
    with contextlib.redirect_stdout(io.StringIO()):
        yield


_M = {}


def mods():
    if not _M:
        from vlib import shim
        shim.install()
        import optimism  # noqa: F401
        import jax
        import jax.numpy as jnp
        import numpy as onp
        from optimism import Objective, EquationSolver, Mesh, FunctionSpace, QuadratureRule, Interpolants, TensorMath
        from optimism.inverse import NonlinearSolve, MechanicsInverse, AdjointFunctionSpace
        _M.update(jax=jax, jnp=jnp, onp=onp, Obj=Objective, Eq=EquationSolver, NLS=NonlinearSolve, MI=MechanicsInverse, AFS=AdjointFunctionSpace,
                  Mesh=Mesh, FS=FunctionSpace, QR=QuadratureRule, Interp=Interpolants, TM=TensorMath)
    return _M


# ============================================================================ (a) reverse mode through the nonlinear solve vs dense IFT

def build_energy(spec):
    M = mods()
    jnp, onp = M['jnp'], M['onp']
    r = random.Random(spec['seed'])
    n = spec['n']
    k = [spec.get('k0', 2), spec.get('k1', 2), spec.get('k2', 2)]
    G = onp.array([[r.uniform(-1, 1) for _ in range(n)] for _ in range(n)])
    Q = G @ G.T + onp.eye(n) * (1.0 + r.random())
    B = [jnp.array([[r.uniform(-1, 1) for _ in range(kk)] for _ in range(n)]) for kk in k]
    c4 = jnp.array([r.uniform(-1, 1) for _ in range(n)])
    Qj = jnp.array(Q)
    quart = 0.0 if spec['family'] == 'quad' else 0.05

    def f(x, p):
        e = 0.5 * x @ Qj @ x + quart * jnp.sum(x ** 4)
        e = e - x @ (B[0] @ p[0]) - x @ (B[1] @ jnp.tanh(p[1])) - (x @ (B[2] @ p[2])) * (1.0 + 0.1 * (p[2] @ p[2]))
        return e + p[4] * (x @ c4) + 0.1 * p[4] ** 2 * (x @ x)
    P = M['Obj'].Params
    p = P(bc_data=jnp.array([r.uniform(-1, 1) for _ in range(k[0])]), state_data=jnp.array([r.uniform(-1, 1) for _ in range(k[1])]),
          design_data=jnp.array([r.uniform(-1, 1) for _ in range(k[2])]), time=jnp.array(r.uniform(0.2, 1.0)))
    v = jnp.array([r.uniform(-1, 1) for _ in range(n)])
    return f, p, v


def dense_ift(M, f, x, p, v):
    """-v^T H^-1 dg/dp_k for k in 0,1,2,4 by dense linear algebra"""
    jax, jnp, onp = M['jax'], M['jnp'], M['onp']
    g = jax.grad(f)
    H = onp.array(jax.hessian(f)(x, p))
    z = onp.linalg.solve(H, onp.array(v))
    out = {}
    for k in (0, 1, 2, 4):
        Jk = onp.array(jax.jacfwd(lambda q: g(x, M['Obj'].param_index_update(p, k, q)))(p[k]))
        out[k] = -(Jk.T @ z) if Jk.ndim == 2 else -float(Jk @ z)
    return out, H


def run_reverse(spec):
    M = mods()
    jax, jnp, onp, Obj, Eq, NLS = M['jax'], M['jnp'], M['onp'], M['Obj'], M['Eq'], M['NLS']
    f, p, v = build_energy(spec)
    n = spec['n']
    x0 = jnp.zeros(n)
    settings = Eq.get_settings(tol=1e-11, max_trust_iters=300)
    bad = []
    info = {}
    try:
        with quiet():
            obj = Obj.Objective(f, x0, p)
            if spec['rule'] == 'design':
                fun = lambda guess, d: v @ NLS.nonlinear_solve(obj, settings, guess, d)
                (gguess, gd) = jax.grad(fun, (0, 1))(x0, p[2])
                cot = {2: onp.array(gd)}
            else:
                fun = lambda guess, pp: v @ NLS.nonlinear_solve_with_state(obj, settings, guess, pp)
                (gguess, gp) = jax.grad(fun, (0, 1))(x0 + 0.0, p)
                cot = {k: onp.array(gp[k]) for k in (0, 1, 2, 4)}
                if gp[3] is not None or gp[5] is not None:
                    bad.append('cotangent for an absent parameter slot (3 or 5) is not None')
            xs = obj_solution(M, f, p, n)
            # the parameter-Jacobian products of class Objective themselves (forward and reverse), against dense jacfwd
            g = jax.grad(f)
            rr = random.Random(spec['seed'] + 3)
            xq = jnp.array([rr.uniform(-1, 1) for _ in range(n)])
            vx = jnp.array([rr.uniform(-1, 1) for _ in range(n)])
            for k, fwd, rev in ((0, obj.jacobian_p_vec, obj.vec_jacobian_p0), (1, None, obj.vec_jacobian_p1),
                                (2, obj.jacobian_p2_vec, obj.vec_jacobian_p2), (4, None, obj.vec_jacobian_p4)):
                Jk = onp.array(jax.jacfwd(lambda q: g(xq, Obj.param_index_update(p, k, q)))(p[k]))
                Jk = Jk.reshape(n, -1)
                got_r = onp.atleast_1d(onp.array(rev(xq, vx)[0])).ravel()
                if not onp.allclose(got_r, Jk.T @ onp.array(vx), rtol=1e-10, atol=1e-12):
                    bad.append('Objective.vec_jacobian_p%d differs from the transposed dense parameter Jacobian' % k)
                if fwd is not None:
                    vp = jnp.array([rr.uniform(-1, 1) for _ in range(Jk.shape[1])])
                    if not onp.allclose(onp.array(fwd(xq, vp)), Jk @ onp.array(vp), rtol=1e-10, atol=1e-12):
                        bad.append('Objective.jacobian_p%s_vec differs from the dense parameter Jacobian action' % ('' if k == 0 else '2'))
    except Exception as ex:
        return ['reverse mode through the nonlinear solve raised %s: %s' % (type(ex).__name__, str(ex)[:200])], dict(error=type(ex).__name__)
    ref, H = dense_ift(M, f, xs, p, v)
    hinv = float(onp.linalg.norm(onp.linalg.inv(H), 2))
    cgres = max(settings.cg_tol, settings.cg_inexact_solve_ratio * float(onp.linalg.norm(onp.array(v))))
    if not float(onp.max(onp.abs(onp.array(gguess)))) == 0.0:
        bad.append('cotangent for the initial guess is not zero')
    for k, c in cot.items():
        rk = onp.array(ref[k])
        scale = float(onp.linalg.norm(rk)) + 1e-30
        err = float(onp.linalg.norm(onp.atleast_1d(c - rk)))
        lim = 4.0 * hinv * cgres * (scale / max(hinv * float(onp.linalg.norm(onp.array(v))), 1e-30) + 1.0) + 1e-8 * scale
        info['slot%d' % k] = dict(err=err, ref_norm=scale, limit=lim)
        if not err <= lim:
            bad.append('slot %d: cotangent %r differs from -v^T H^-1 dg/dp = %r by %r (limit %r from the CG tolerance)' % (k, onp.atleast_1d(c).tolist(), onp.atleast_1d(rk).tolist(), err, lim))
    return bad, info


def obj_solution(M, f, p, n):
    jax, jnp = M['jax'], M['jnp']
    x = jnp.zeros(n)
    g, h = jax.grad(f), jax.hessian(f)
    for _ in range(60):
        x = x - jnp.linalg.solve(h(x, p), g(x, p))
    return x



# ============================================================================ (a') multi-step load histories sharing ONE Objective

def run_history(spec):
    """K load steps through the same Objective; boundary data, time and design change from step to step and the state slot depends on the
    previous solution (path dependence).  J = sum_k v_k . U_k is differentiated in reverse mode w.r.t. (bc parameter, design parameter):
    the backward rule of step k runs while the objective still holds the parameters of the LAST step, so it must restore its own.
    Reference: the same chain with a plain differentiable Newton iteration (no optimism reverse rule involved)."""
    M = mods()
    jax, jnp, onp, Obj, Eq, NLS = M['jax'], M['jnp'], M['onp'], M['Obj'], M['Eq'], M['NLS']
    f, p, v = build_energy(spec)
    r = random.Random(spec['seed'] + 7)
    n, K = spec['n'], spec['steps']
    As = jnp.array([[r.uniform(-1, 1) for _ in range(n)] for _ in range(spec.get('k1', 2))])
    vs = [jnp.array([r.uniform(-1, 1) for _ in range(n)]) for _ in range(K)]
    sc = [r.uniform(0.5, 1.5) * (-1) ** k for k in range(K)]
    ts = [r.uniform(0.2, 1.0) for _ in range(K)]
    settings = Eq.get_settings(tol=1e-11, max_trust_iters=300)
    state_rule = spec['rule'] == 'state'

    def params(k, U, b, d, s=p[1], t=p[4]):
        # s (initial state) and t (time offset) default to the values of the base parameters: every slot of the history is differentiated
        if state_rule:
            return Obj.Params(bc_data=b * sc[k], state_data=s + jnp.tanh(As @ U), design_data=d * (1.0 + 0.3 * k), time=ts[k] + (t - p[4]))
        return Obj.param_index_update(p, 2, d * (1.0 + 0.3 * k))      # the design rule keeps the other slots of objective.p

    def newton(pk, x):
        g, h = jax.grad(f), jax.hessian(f)
        for _ in range(40):
            x = x - jnp.linalg.solve(h(x, pk), g(x, pk))
        return x

    def J_ref(b, d, s, t):
        U, tot = jnp.zeros(n), 0.0
        for k in range(K):
            U = newton(params(k, U, b, d, s, t), U)
            tot = tot + vs[k] @ U
        return tot
    try:
        with quiet():
            obj = Obj.Objective(f, jnp.zeros(n), p)

            def J_impl(b, d, s, t):
                U, tot = jnp.zeros(n), 0.0
                for k in range(K):
                    if state_rule:
                        U = NLS.nonlinear_solve_with_state(obj, settings, U, params(k, U, b, d, s, t))
                    else:
                        U = NLS.nonlinear_solve(obj, settings, U, d * (1.0 + 0.3 * k))
                    tot = tot + vs[k] @ U
                return tot
            gi = jax.grad(J_impl, (0, 1, 2, 3))(p[0], p[2], p[1], p[4])
            gr = jax.grad(J_ref, (0, 1, 2, 3))(p[0], p[2], p[1], p[4])
    except Exception as ex:
        return ['reverse mode through a %d-step history raised %s: %s' % (K, type(ex).__name__, str(ex)[:200])], dict(error=type(ex).__name__)
    bad, info = [], {}
    for name, a, b in zip(('bc parameter', 'design parameter', 'initial state parameter', 'time offset'), gi, gr):
        a, b = onp.atleast_1d(onp.array(a)), onp.atleast_1d(onp.array(b))
        err, sc_ = float(onp.linalg.norm(a - b)), float(onp.linalg.norm(b))
        info[name] = dict(err=err, ref_norm=sc_)
        if not err <= 2e-4 * (sc_ + 1e-3):
            bad.append('%d-step history on one Objective (%s rule): dJ/d(%s) = %r differs from the chained implicit-function derivative %r by %.3g'
                       % (K, spec['rule'], name, a.tolist(), b.tolist(), err))
    return bad, info

# ============================================================================ (a3) load stepping through objective.p with the design rule

def run_loadhist(spec):
    """K solves with nonlinear_solve on ONE Objective; between the solves the boundary data is assigned to objective.p (the only way to step a load with
    this entry point: every slot but the design lives in the objective).  The energy couples boundary data and design, so d(grad)/d(design) depends on the
    load.  J = sum_k w_k v_k . U_k; variant 'last': w = (0,..,0,1) -- when the reverse rule of the last solve runs objective.p still holds ITS load, the
    derivative must be right; variant 'all': w = 1 -- the reverse rules of the earlier solves run while objective.p holds the LAST load, so they must
    re-establish ALL parameters of their forward solve (they do since /repo 42a60d0; before, finding C07-DESIGN-RESTORE; theorem C07_design_history_adjoint)."""
    M = mods()
    jax, jnp, onp, Obj, Eq, NLS = M['jax'], M['jnp'], M['onp'], M['Obj'], M['Eq'], M['NLS']
    f0, p, _ = build_energy(spec)
    r = random.Random(spec['seed'] + 23)
    n, K = spec['n'], spec['steps']
    C0 = jnp.array([[r.uniform(-1, 1) for _ in range(spec.get('k0', 2))] for _ in range(n)])

    def f(x, q):
        return f0(x, q) - 0.5 * (x @ (C0 @ q[0])) * jnp.sum(jnp.sin(q[2]) + 1.5)
    vs = [jnp.array([r.uniform(-1, 1) for _ in range(n)]) for _ in range(K)]
    sc = [1.0] + [r.uniform(1.5, 3.0) * (-1) ** k for k in range(1, K)]
    w = [1.0] * K if spec['variant'] == 'all' else [0.0] * (K - 1) + [1.0]
    settings = Eq.get_settings(tol=1e-11, max_trust_iters=300)
    g, h = jax.grad(f), jax.hessian(f)

    def newton(pk, x):
        for _ in range(40):
            x = x - jnp.linalg.solve(h(x, pk), g(x, pk))
        return x

    def J_ref(d):
        U, tot = jnp.zeros(n), 0.0
        for k in range(K):
            U = newton(Obj.Params(bc_data=p[0] * sc[k], state_data=p[1], design_data=d * (1.0 + 0.3 * k), time=p[4]), U)
            tot = tot + w[k] * (vs[k] @ U)
        return tot
    try:
        with quiet():
            obj = Obj.Objective(f, jnp.zeros(n), p)

            def J_impl(d):
                U, tot = jnp.zeros(n), 0.0
                for k in range(K):
                    obj.p = Obj.param_index_update(obj.p, 0, p[0] * sc[k])          # the load step
                    U = NLS.nonlinear_solve(obj, settings, U, d * (1.0 + 0.3 * k))
                    tot = tot + w[k] * (vs[k] @ U)
                return tot
            gi = onp.atleast_1d(onp.array(jax.grad(J_impl)(p[2])))
            gr = onp.atleast_1d(onp.array(jax.grad(J_ref)(p[2])))
    except Exception as ex:
        return ['reverse mode through a %d-step load history of nonlinear_solve raised %s: %s' % (K, type(ex).__name__, str(ex)[:200])], dict(error=type(ex).__name__)
    err, sc_ = float(onp.linalg.norm(gi - gr)), float(onp.linalg.norm(gr))
    info = dict(err=err, ref_norm=sc_, variant=spec['variant'])
    bad = []
    if not err <= 2e-4 * (sc_ + 1e-3):
        if spec['variant'] == 'all':
            bad.append('load stepping through objective.p with nonlinear_solve (%d solves, boundary data assigned to objective.p between them): dJ/d(design) = %r '
                       'differs from the chained implicit-function derivative %r by %.3g' % (K, gi.tolist(), gr.tolist(), err))
        else:
            bad.append('LAST solve of a %d-step load history of nonlinear_solve: d(v.U_last)/d(design) = %r differs from the implicit-function derivative %r by %.3g'
                       % (K, gi.tolist(), gr.tolist(), err))
    return bad, info


# ============================================================================ (a'') every slot of every step, exact / poor preconditioners

PRECOND_KINDS = ('bulk', 'diag', 'stale', 'shifted', 'exact', 'twotry', 'default')
POOR_PRECONDS = ('bulk', 'diag', 'stale', 'shifted')


def make_precond_strategy(M, kind, f_total, f_bulk, xq, p_init):
    """PrecondStrategy of the Objective.  'exact': the full Hessian at the point asked for; 'bulk': the Hessian of the bulk part only
    (the foundation term is not assembled); 'diag': the diagonal of the full Hessian; 'stale': the full Hessian, but at another point and
    with the initial parameters whatever is asked for; 'shifted': full Hessian + 0.5 |diag| (what precond_at_attempt(k>0) returns);
    'twotry': TwoTryPrecondStrategy(bulk, exact); 'default': None (Objective's own dense Hessian).  All are SPD."""
    jax, onp, Obj = M['jax'], M['onp'], M['Obj']
    from scipy.sparse import csc_matrix
    ht, hb = jax.jit(jax.hessian(f_total, 0)), jax.jit(jax.hessian(f_bulk, 0))
    full = lambda x, p: onp.array(ht(x, p))
    asm = dict(exact=lambda x, p: csc_matrix(full(x, p)),
               bulk=lambda x, p: csc_matrix(onp.array(hb(x, p))),
               diag=lambda x, p: csc_matrix(onp.diag(onp.diag(full(x, p)))),
               stale=lambda x, p: csc_matrix(full(xq, p_init)),
               shifted=lambda x, p: csc_matrix(full(x, p) + 0.5 * onp.diag(onp.abs(onp.diag(full(x, p))))))
    if kind == 'default':
        return None
    if kind == 'twotry':
        return Obj.TwoTryPrecondStrategy(asm['bulk'], asm['exact'])
    return Obj.PrecondStrategy(asm[kind])


def recording_objective(M):
    """Objective subclass that logs, in order, every assignment to .p and every hessian_vec / vec_jacobian_p<k> / apply_precond / update_precond
    call together with the parameters the objective holds at that moment (the tie between model/M_C07_Rule.v and the executed reverse rule)"""
    if 'Rec' in M:
        return M['Rec']
    Base = M['Obj'].Objective

    class Rec(Base):
        def __init__(self, *a, **k):
            object.__setattr__(self, 'log', [])
            super().__init__(*a, **k)

        def __setattr__(self, name, val):
            if name == 'p':
                self.log.append(('set_p', val, None, None))
            object.__setattr__(self, name, val)

        def hessian_vec(self, x, vx):
            self.log.append(('hessian_vec', self.p, x, None))
            return super().hessian_vec(x, vx)

        def apply_precond(self, vx):
            self.log.append(('apply_precond', self.p, None, None))
            return super().apply_precond(vx)

        def update_precond(self, x):
            self.log.append(('update_precond', self.p, x, None))
            return super().update_precond(x)
    for k in (0, 1, 2, 4):
        def mk(k):
            def meth(self, x, vp):
                self.log.append(('vjp%d' % k, self.p, x, vp))
                return getattr(Base, 'vec_jacobian_p%d' % k)(self, x, vp)
            return meth
        setattr(Rec, 'vec_jacobian_p%d' % k, mk(k))
    M['Rec'] = Rec
    return Rec


def check_backward_trace(M, log, state_rule, plist, xs, vs, hess, cgres_of):
    """the events of the reverse sweep against the denotation of the extracted rules: every evaluation on the objective happens at a forward
    solution U_k, while objective.p holds the parameters of THAT solve (restored before the first evaluation); the vectors handed to the slot
    helpers of one solve are one and the same lam, which solves H(U_k, p_k) lam = -v_k up to the CG tolerance; the slot helpers called are
    exactly those of the present slots (state rule: 0,1,2,4; design rule: 2)."""
    onp = M['onp']
    bad, K = [], len(plist)

    def same_params(a, b):
        if a is None or len(a) != len(b):
            return False
        for s, t in zip(a, b):
            if (s is None) != (t is None):
                return False
            if s is not None and not onp.array_equal(onp.array(s), onp.array(t)):
                return False
        return True

    def step_of(x):
        d = [float(onp.linalg.norm(onp.array(x) - onp.array(xs[k]))) for k in range(K)]
        k = int(onp.argmin(d))
        return k if d[k] <= 1e-6 * (1.0 + float(onp.linalg.norm(onp.array(xs[k])))) else None
    seen = {k: dict(hv=0, vjp={}, set_before=False) for k in range(K)}
    last_set = None
    for name, p_at, x, w in log:
        if name == 'set_p':
            last_set = p_at
            continue
        if name in ('apply_precond', 'update_precond'):
            continue
        k = step_of(x)
        if k is None:
            bad.append('%s evaluated at a point that is not the solution of any forward solve' % name)
            continue
        if not same_params(p_at, plist[k]):
            bad.append('%s of solve %d evaluated while objective.p holds other parameters than those of that solve' % (name, k + 1))
        elif last_set is not None and same_params(last_set, plist[k]):
            seen[k]['set_before'] = True
        if name == 'hessian_vec':
            seen[k]['hv'] += 1
        else:
            seen[k]['vjp'].setdefault(int(name[3:]), []).append(onp.array(w))
    want = [0, 1, 2, 4] if state_rule else [2]
    for k in range(K):
        s = seen[k]
        if sorted(s['vjp']) != want or any(len(v) != 1 for v in s['vjp'].values()):
            bad.append('solve %d: slot helpers called in the reverse rule: %s, the extracted rule calls %s once each' % (k + 1, sorted(s['vjp']), want))
            continue
        if not s['set_before']:
            bad.append('solve %d: objective.p was not assigned the parameters of that solve before the rule evaluated on the objective' % (k + 1))
        lams = [v[0] for v in s['vjp'].values()]
        if any(not onp.array_equal(lams[0], l) for l in lams[1:]):
            bad.append('solve %d: the slot helpers received different adjoint vectors' % (k + 1))
        res = float(onp.linalg.norm(hess[k] @ lams[0] + onp.array(vs[k])))
        if not res <= 4.0 * cgres_of(k) + 1e-13:
            bad.append('solve %d: the adjoint vector handed to the slot helpers leaves |H lam + v| = %.3g (CG tolerance %.3g)' % (k + 1, res, cgres_of(k)))
        if s['hv'] == 0:
            bad.append('solve %d: the reverse rule never applied the Hessian-vector operator at the forward solution' % (k + 1))
    bad = list(dict.fromkeys(bad))
    return bad, dict(events=len(log), hessian_vec=sum(s['hv'] for s in seen.values()))


def run_precond(spec):
    """K >= 1 solves on ONE Objective whose preconditioner is exact or a deliberately poor approximation of the Hessian; the parameters of
    every step differ (and the state slot of step k depends on the solution of step k-1).  F = sum_k v_k . U_k is differentiated in reverse
    mode w.r.t. EVERY slot of EVERY step's parameters; since the cotangent of the initial guess is zero, the cotangent of (step k, slot j)
    must be -v_k^T H(U_k,p_k)^-1 d(grad)/dp_j(U_k,p_k): compared with that value from dense linear algebra, step by step.  The backward rule of
    step k runs after the forward passes of all later steps: objective.p and the factorised preconditioner then belong to another step."""
    M = mods()
    jax, jnp, onp, Obj, Eq, NLS = M['jax'], M['jnp'], M['onp'], M['Obj'], M['Eq'], M['NLS']
    f_bulk, p, _ = build_energy(spec)
    n, K = spec['n'], spec['steps']
    r = random.Random(spec['seed'] + 11)
    dk = jnp.array([r.uniform(0.5, 2.0) for _ in range(n)])

    def f(x, q):        # bulk + foundation; the foundation part is what a 'bulk' preconditioner leaves out
        return f_bulk(x, q) + 0.5 * jnp.sum(dk * x ** 2) * (1.0 + 0.5 * q[4]) + 0.05 * jnp.sum(dk * x ** 4)
    As = jnp.array([[r.uniform(-1, 1) for _ in range(n)] for _ in range(spec.get('k1', 2))])
    vs = [jnp.array([r.uniform(-1, 1) for _ in range(n)]) for _ in range(K)]
    sc = [r.uniform(0.5, 1.5) * (-1) ** k for k in range(K)]
    ts = [r.uniform(0.2, 1.0) for _ in range(K)]
    xq = jnp.array([r.uniform(-1, 1) for _ in range(n)])
    state_rule = spec['rule'] == 'state'
    settings = Eq.get_settings(tol=1e-11, max_trust_iters=300, cg_inexact_solve_ratio=1e-9, max_cg_iters=100, max_cumulative_cg_iters=5000)
    g, h = jax.grad(f), jax.hessian(f)

    def newton(pk, x):
        for _ in range(40):
            x = x - jnp.linalg.solve(h(x, pk), g(x, pk))
        return x
    # the history (plain Newton, no optimism code): parameters and exact solutions of every step
    plist, xs, U = [], [], jnp.zeros(n)
    for k in range(K):
        if state_rule:
            pk = Obj.Params(bc_data=p[0] * sc[k], state_data=p[1] + jnp.tanh(As @ U), design_data=p[2] * (1.0 + 0.3 * k), time=jnp.array(ts[k]))
        else:
            pk = Obj.param_index_update(p, 2, p[2] * (1.0 + 0.3 * k) + 0.1 * k)
        U = newton(pk, U)
        plist.append(pk)
        xs.append(U)
    try:
        with quiet():
            obj = recording_objective(M)(f, jnp.zeros(n), p, precondStrategy=make_precond_strategy(M, spec['precond'], f, f_bulk, xq, p))
            if state_rule:
                def F(pl):
                    Uu, tot = jnp.zeros(n), 0.0
                    for k in range(K):
                        Uu = NLS.nonlinear_solve_with_state(obj, settings, Uu, pl[k])
                        tot = tot + vs[k] @ Uu
                    return tot
                _, pull = jax.vjp(F, plist)
                del obj.log[:]            # keep the events of the reverse sweep only
                gp = pull(jnp.array(1.0))[0]
                cots = [{j: onp.array(gp[k][j]) for j in (0, 1, 2, 4)} for k in range(K)]
                absent = any(gp[k][3] is not None or gp[k][5] is not None for k in range(K))
            else:
                def F(dl):
                    Uu, tot = jnp.zeros(n), 0.0
                    for k in range(K):
                        Uu = NLS.nonlinear_solve(obj, settings, Uu, dl[k])
                        tot = tot + vs[k] @ Uu
                    return tot
                _, pull = jax.vjp(F, [pk[2] for pk in plist])
                del obj.log[:]
                gd = pull(jnp.array(1.0))[0]
                cots = [{2: onp.array(gd[k])} for k in range(K)]
                absent = False
            trace = list(obj.log)
    except Exception as ex:
        return (['reverse mode through %d solve(s) with a %s preconditioner raised %s: %s' % (K, spec['precond'], type(ex).__name__, str(ex)[:200])],
                dict(error=type(ex).__name__))
    bad, info = [], {}
    if absent:
        bad.append('cotangent for an absent parameter slot (3 or 5) is not None')
    names = {0: 'bc_data', 1: 'state_data', 2: 'design_data', 4: 'time'}
    Hs = [onp.array(h(xs[k], plist[k])) for k in range(K)]
    cg_of = lambda k: max(settings.cg_tol, settings.cg_inexact_solve_ratio * float(onp.linalg.norm(onp.array(vs[k]))))
    try:
        tbad, tinfo = check_backward_trace(M, trace, state_rule, plist, xs, vs, Hs, cg_of)
    except Exception as ex:
        tbad, tinfo = ['the trace of the reverse sweep could not be matched with the extracted rule (%s: %s)' % (type(ex).__name__, str(ex)[:120])], {}
    info['trace'] = tinfo
    bad.extend('TRACE ' + b for b in tbad)
    for k in range(K):
        H = Hs[k]
        z = onp.linalg.solve(H, onp.array(vs[k]))
        hinv = float(onp.linalg.norm(onp.linalg.inv(H), 2))
        vn = float(onp.linalg.norm(onp.array(vs[k])))
        cgres = max(settings.cg_tol, settings.cg_inexact_solve_ratio * vn)
        for j, c in cots[k].items():
            Jk = onp.array(jax.jacfwd(lambda q: g(xs[k], Obj.param_index_update(plist[k], j, q)))(plist[k][j])).reshape(n, -1)
            ref = -(Jk.T @ z)
            c = onp.atleast_1d(c).ravel()
            err, scale = float(onp.linalg.norm(c - ref)), float(onp.linalg.norm(ref))
            lim = 4.0 * float(onp.linalg.norm(Jk, 2)) * hinv * cgres + 1e-8 * scale + 1e-12
            info['step%d.slot%d' % (k, j)] = dict(err=err, ref_norm=scale, limit=lim)
            if not err <= lim:
                bad.append('solve %d of %d on one Objective (%s rule, %s preconditioner), slot %d (%s): reverse-mode cotangent %r differs from the dense '
                           'implicit-function value -v^T H^-1 dg/dp = %r by %.3g (limit %.3g from the CG tolerance)'
                           % (k + 1, K, spec['rule'], spec['precond'], j, names[j], c.tolist(), ref.tolist(), err, lim))
    return bad, info


# ============================================================================ (b) helper VJPs of MechanicsInverse vs dense jacfwd transposes

def run_helpers(spec):
    M = mods()
    jax, jnp, onp, MI = M['jax'], M['jnp'], M['onp'], M['MI']
    r = random.Random(spec['seed'])
    bad = []
    rnd = lambda *sh: jnp.array(onp.array([r.uniform(-1, 1) for _ in range(int(onp.prod(sh)))]).reshape(sh))
    nu, nq, ni, nx = spec['nu'], 2, 3, 4
    W1, W2, W3 = rnd(nu, nx), rnd(nu, ni), rnd(nu, nq)

    def energy3(u, q, x):
        return 0.5 * u @ u * (1.0 + x @ x) + jnp.sin(u) @ (W1 @ x) + (u @ (W3 @ q)) * jnp.sum(jnp.cos(x))

    def energy4(u, q, iv, x):
        return energy3(u, q, x) + jnp.tanh(u) @ (W2 @ iv) * (1 + x[0]) + 0.3 * jnp.sum(iv ** 2) * (u @ u)
    u, q, iv, x, vx = rnd(nu), rnd(nq), rnd(ni), rnd(nx), rnd(nu)
    with quiet():
        f3 = MI.create_residual_inverse_functions(energy3)
        f4 = MI.create_path_dependent_residual_inverse_functions(energy4)
        got = [('residual_jac_coords_vjp', onp.array(f3.residual_jac_coords_vjp(u, q, x, vx)),
                onp.array(jax.jacfwd(lambda z: jax.grad(energy3, 0)(u, q, z))(x)).T @ onp.array(vx)),
               ('path residual_jac_coords_vjp', onp.array(f4.residual_jac_coords_vjp(u, q, iv, x, vx)),
                onp.array(jax.jacfwd(lambda z: jax.grad(energy4, 0)(u, q, iv, z))(x)).T @ onp.array(vx)),
               ('path residual_jac_ivs_prev_vjp', onp.array(f4.residual_jac_ivs_prev_vjp(u, q, iv, x, vx)),
                onp.array(jax.jacfwd(lambda z: jax.grad(energy4, 0)(u, q, z, x))(iv)).T @ onp.array(vx))]
    # internal-variable update on a small mesh with a synthetic smooth material update
    Mesh, FS, QR = M['Mesh'], M['FS'], M['QR']
    mesh = Mesh.construct_structured_mesh(spec['Nx'], spec['Ny'], [0.0, 1.0], [0.0, 1.3])
    coords = mesh.coords + 0.03 * rnd(*mesh.coords.shape)
    mesh = Mesh.mesh_with_coords(mesh, coords)
    qr = QR.create_quadrature_rule_on_triangle(degree=spec['qdeg'])
    fs = FS.construct_function_space(mesh, qr)
    ns = 2
    A = rnd(ns, 3, 3)

    def compute_state_new(dispGrad, state, dt):
        # the time step multiplies terms that depend on the displacement gradient AND on the old state, so every helper derivative depends on dt
        return (jnp.tanh(jnp.tensordot(A, dispGrad, axes=2)) + 0.5 * state * (1.0 + jnp.trace(dispGrad)) + dt * state ** 2
                + dt * jnp.sin(jnp.tensordot(A, dispGrad @ dispGrad.T, axes=2) + state))
    Mat = namedtuple('Mat', ['compute_state_new'])
    with quiet():
        fi = MI.create_ivs_update_inverse_functions(fs, 'plane strain', Mat(compute_state_new))
    U = 0.1 * rnd(*mesh.coords.shape)
    ne, nqp = fs.shapeGrads.shape[0], fs.shapeGrads.shape[1]
    ivs = rnd(ne, nqp, ns)
    av = rnd(ne, nqp, ns)
    dt = 0.3
    t23 = M['TM'].tensor_2D_to_3D

    def ref_update(Uf, ivsf, X):
        # independent reference: shape gradients by the explicit 2x2 inverse of the element Jacobian
        shp = M['Interp'].compute_shapes(mesh.parentElement, qr.xigauss).gradients      # (nq, nn, 2)
        out = []
        for e in range(ne):
            conn = mesh.conns[e]
            Xn = X[conn]
            vv = Xn[mesh.parentElement.vertexNodes]
            Jm = jnp.column_stack((vv[0] - vv[2], vv[1] - vv[2]))
            Ji = jnp.linalg.inv(Jm)
            row = []
            for qq in range(nqp):
                dN = shp[qq] @ Ji                                # (nn, 2)
                Hd = Uf[conn].T @ dN                             # (2, 2)
                row.append(compute_state_new(t23(Hd), ivsf[e, qq], dt))
            out.append(jnp.stack(row))
        return jnp.stack(out)
    with quiet():
        got.append(('ivs_update_jac_disp_vjp', onp.array(fi.ivs_update_jac_disp_vjp(U, ivs, av, dt)),
                    onp.array(jax.vjp(lambda z: ref_update(z, ivs, coords), U)[1](av)[0])))
        got.append(('ivs_update_jac_coords_vjp', onp.array(fi.ivs_update_jac_coords_vjp(U, ivs, coords, av, dt)),
                    onp.tensordot(onp.array(jax.jacfwd(lambda z: ref_update(U, ivs, z))(coords)), onp.array(av), axes=([0, 1, 2], [0, 1, 2]))))
        dprev = onp.array(fi.ivs_update_jac_ivs_prev(U, ivs, dt))
        Jfull = onp.array(jax.jacfwd(lambda z: ref_update(U, z, coords))(ivs))      # (ne,nq,ns, ne,nq,ns)
        refprev = onp.stack([onp.stack([Jfull[e, qq, :, e, qq, :] for qq in range(nqp)]) for e in range(ne)])
        got.append(('ivs_update_jac_ivs_prev', dprev, refprev))
        # dense transposed action for the displacement vjp as well (jacfwd, not vjp of the reference)
        Jd = onp.array(jax.jacfwd(lambda z: ref_update(z, ivs, coords))(U))
        got.append(('ivs_update_jac_disp_vjp (dense jacfwd)', onp.array(fi.ivs_update_jac_disp_vjp(U, ivs, av, dt)),
                    onp.tensordot(Jd, onp.array(av), axes=([0, 1, 2], [0, 1, 2]))))
    info = {}
    for name, a, b in got:
        err = float(onp.max(onp.abs(a - b))) if a.shape == b.shape else float('inf')
        sc = float(onp.max(onp.abs(b))) + 1e-30
        info[name] = err / sc
        if not err <= 1e-9 * sc + 1e-12:
            bad.append('%s differs from the transposed dense Jacobian action: max abs err %r on scale %r (shapes %s / %s)' % (name, err, sc, a.shape, b.shape))
    return bad, info


# ============================================================================ (c) adjoint function space vs direct construction

def run_afs(spec):
    M = mods()
    jnp, onp, Mesh, FS, QR, AFS = M['jnp'], M['onp'], M['Mesh'], M['FS'], M['QR'], M['AFS']
    r = random.Random(spec['seed'])
    mesh = Mesh.construct_structured_mesh(spec['Nx'], spec['Ny'], [0.0, 1.0], [0.0, 1.0], elementOrder=spec.get('order', 1))
    if spec.get('block_maps'):
        mesh = mesh._replace(block_maps={'block_0': onp.arange(mesh.conns.shape[0]) + 1})
    qr = QR.create_quadrature_rule_on_triangle(degree=spec['qdeg'])
    shapeOnRef = M['Interp'].compute_shapes(mesh.parentElement, qr.xigauss)
    coords = mesh.coords + jnp.array(onp.array([r.uniform(-0.02, 0.02) for _ in range(mesh.coords.size)]).reshape(mesh.coords.shape)) \
        + (jnp.array([0.5, 0.0]) if spec['mode'] == 'axisymmetric' else 0.0)
    with quiet():
        fa = AFS.construct_function_space_for_adjoint(coords, shapeOnRef, mesh, qr, mode2D=spec['mode'])
        fd = FS.construct_function_space_from_parent_element(Mesh.mesh_with_coords(mesh, coords), shapeOnRef, qr, mode2D=spec['mode'])
    bad = []
    for name in ('shapes', 'vols', 'shapeGrads'):
        a, b = onp.array(getattr(fa, name)), onp.array(getattr(fd, name))
        if a.shape != b.shape or a.tobytes() != b.tobytes():
            bad.append('function space field %s differs between the adjoint and the direct construction' % name)
    if fa.isAxisymmetric != fd.isAxisymmetric:
        bad.append('isAxisymmetric differs')
    only_bm = False
    for fld in fa.mesh._fields:
        a, b = getattr(fa.mesh, fld), getattr(fd.mesh, fld)
        same = (a is b) or (a is None and b is None)
        if not same:
            try:
                if isinstance(a, dict) and isinstance(b, dict):
                    same = sorted(a) == sorted(b) and all(onp.array_equal(onp.array(a[k]), onp.array(b[k])) for k in a)
                elif a is None or b is None:
                    same = False
                else:
                    same = a == b if not hasattr(a, 'shape') else onp.array_equal(onp.array(a), onp.array(b))
                    same = bool(same)
            except Exception:
                same = False
        if not same:
            bad.append('mesh field %s of the adjoint function space differs from the moved mesh (%s vs %s)' % (fld, type(a).__name__, type(b).__name__))
            only_bm = (fld == 'block_maps') if len(bad) == 1 else False
    return bad, dict(only_block_maps=only_bm and len(bad) == 1)


# ============================================================================ specs, driver interface

def specs_all(ctx):
    r = ctx.rng('c07')
    out = []
    for k in range(ctx.n(6, 40)):
        out.append(dict(kind='reverse', rule=['design', 'state'][k % 2], family=['quartic', 'quad'][(k // 2) % 2], n=r.choice([2, 3, 4, 6]),
                        k0=r.choice([1, 2, 3]), k1=r.choice([1, 2]), k2=r.choice([1, 2, 3]), seed=r.randrange(1 << 30)))
    for k in range(ctx.n(4, 16)):
        out.append(dict(kind='history', rule=['state', 'design'][k % 2], family=['quartic', 'quad'][(k // 2) % 2], n=r.choice([2, 3, 4]),
                        k0=r.choice([1, 2]), k1=r.choice([1, 2]), k2=r.choice([1, 2]), steps=r.choice([2, 3]), seed=r.randrange(1 << 30)))
    for k in range(ctx.n(2, 8)):
        out.append(dict(kind='helpers', nu=r.choice([3, 5]), Nx=r.choice([2, 3]), Ny=r.choice([2, 3]), qdeg=r.choice([1, 2]), seed=r.randrange(1 << 30)))
    for k in range(ctx.n(4, 16)):
        out.append(dict(kind='afs', Nx=r.choice([2, 3, 4]), Ny=r.choice([2, 3]), qdeg=r.choice([1, 2, 3]), order=r.choice([1, 2]),
                        mode=['cartesian', 'axisymmetric'][k % 2], block_maps=False, seed=r.randrange(1 << 30)))
    for mode in ('cartesian', 'axisymmetric'):      # meshes that carry block_maps (as every Exodus mesh does)
        out.append(dict(kind='afs', Nx=2, Ny=2, qdeg=2, order=1, mode=mode, block_maps=True, seed=r.randrange(1 << 30)))
    out.extend(precond_specs(r, ctx.n(5, 42)))
    out.extend(loadhist_specs(r, ctx.n(2, 6)))
    return out


def loadhist_specs(r, count):
    # appended after every other draw (older streams keep their cases); variants alternate; both must hold ('all' was finding C07-DESIGN-RESTORE, fixed)
    out = []
    for k in range(count):
        out.append(dict(kind='loadhist', variant=['last', 'all'][k % 2], family=['quartic', 'quad'][(k // 2) % 2], n=r.choice([2, 3, 4]),
                        k0=r.choice([1, 2]), k1=r.choice([1, 2]), k2=r.choice([1, 2, 3]), steps=r.choice([2, 3]), seed=r.randrange(1 << 30)))
    return out


def precond_specs(r, count):
    # appended after every other draw, so the older streams keep their cases.  Kinds cycle (poor preconditioners first; 7 kinds), the rule alternates
    # (so every kind meets both rules), histories of 2-3 solves twice out of three
    out = []
    for k in range(count):
        out.append(dict(kind='precond', precond=PRECOND_KINDS[k % len(PRECOND_KINDS)], rule=['state', 'design'][k % 2],
                        family=['quartic', 'quad'][(k // 2) % 2], n=r.choice([2, 3, 4, 6]), k0=r.choice([1, 2, 3]), k1=r.choice([1, 2]),
                        k2=r.choice([1, 2, 3]), steps=[2, 1, 3][k % 3], seed=r.randrange(1 << 30)))
    return out


def run_spec(spec):
    try:
        return dict(reverse=run_reverse, history=run_history, precond=run_precond, loadhist=run_loadhist, helpers=run_helpers, afs=run_afs)[spec['kind']](spec)
    except Exception as ex:      # an exception escaping the implementation on an admissible case is a verdict, not a harness crash
        import traceback
        tb = traceback.extract_tb(ex.__traceback__)
        where = next((('%s:%d' % (f.filename, f.lineno)) for f in reversed(tb) if '/optimism/' in f.filename), 'harness')
        if where == 'harness':
            raise
        return ['the implementation raised %s at %s: %s' % (type(ex).__name__, where, str(ex)[:160])], dict(error=type(ex).__name__)


def correspondence(ctx, model_ok):
    distinct = set()
    for spec in specs_all(ctx):
        bad, info = run_spec(spec)
        ctx.count('evaluations')
        ctx.count(spec['kind'] + '_cases')
        if spec['kind'] == 'loadhist':
            ctx.count('loadhist_%s_%s' % (spec['variant'], 'derivative_right' if not bad else 'derivative_wrong'))
        if spec['kind'] == 'precond':
            ctx.count('precond_%s_%s_%s' % (spec['precond'], spec['rule'], 'history' if spec['steps'] > 1 else 'single'))
            ctx.count('precond_slot_cotangents_compared', len([k for k in info if k.startswith('step')]))
        distinct.add(tuple(sorted((k, str(v)) for k, v in spec.items() if k != 'seed')))
        ctx.sample(dict(spec=spec, info=info), limit=4)
        if spec['kind'] == 'precond':
            ctx.count('reverse_sweep_trace_events_matched', int((info.get('trace') or {}).get('events', 0)))
        for b in bad:
            case = dict(spec)
            case.update(only_block_maps=bool(info.get('only_block_maps')))
            if b.startswith('TRACE '):
                ctx.fail('correspondence', '%s case %s: executed reverse rule vs the extracted rule (model/M_C07_Rule.v): %s'
                         % (spec['kind'], {k: v for k, v in spec.items() if k != 'kind'}, b[6:]), case=case, concrete=True)
                continue
            ctx.fail('conclusion', '%s case %s: %s' % (spec['kind'], {k: v for k, v in spec.items() if k != 'kind'}, b), case=case, concrete=True)
    ctx.count('distinct_nontrivial', len(distinct))
    if model_ok:
        # the regenerated table, as evaluated inside Coq, for the evidence (which call sites were resolved)
        res = C.coq_eval(IMPORTS, ['[Z.of_nat (List.length refs); Z.of_nat (List.length unpacks); Z.of_nat (List.length attr_refs); '
                                    'Z.of_nat (List.length (filter call_ok refs)); Z.of_nat (List.length (filter unpack_ok unpacks))]'], 'C07')
        ctx.cov['reference_table'] = dict(calls=res[0][0], unpacks=res[0][1], attribute_reads=res[0][2], calls_ok=res[0][3], unpacks_ok=res[0][4])
        # dynamic cross-check of the static table: the arities it records are the ones Python's inspect reports
        import inspect
        M = mods()
        for fn, want in ((M['Eq'].solve_trust_region_minimization, 6), (M['Eq'].nonlinear_equation_solve, 8), (M['Obj'].param_index_update, 3)):
            got = len(inspect.signature(fn).parameters)
            if got != want:
                ctx.fail('correspondence', 'inspect reports %d parameters for %s, the check was written for %d' % (got, fn.__name__, want))


def search(ctx, reasons):
    import copy
    c2 = copy.copy(ctx)
    c2.tier = 'thorough'
    c2.seed = ctx.seed + 1
    specs = specs_all(c2)
    # first what exposes state carried between solves and adjoint solves that lean on the preconditioner: poor preconditioners on histories,
    # then the chained histories, then everything else
    poor = [x for x in specs if x['kind'] == 'precond' and x['precond'] in POOR_PRECONDS]
    poor.sort(key=lambda x: (-min(x['steps'], 2), 0 if x['rule'] == 'state' else 1))
    rest = [x for x in specs if x['kind'] not in ('history', 'precond')][:30] + [x for x in specs if x['kind'] == 'precond' and x['precond'] not in POOR_PRECONDS]
    hist = [x for x in specs if x['kind'] == 'history']
    hist.sort(key=lambda x: (0 if x['rule'] == 'state' else 1, -x['steps']))     # two or more solves on one Objective with different parameters: state rule first
    # if the rule tables no longer resolve (objective.p not re-established, a slot helper differentiating another slot, ...) a load history is what shows it
    tables = any('L_C07' in str(rr.get('what')) or 'P_C07' in str(rr.get('what')) or rr.get('kind') == 'translator' for rr in reasons)
    lh = [x for x in specs if x['kind'] == 'loadhist']
    specs = (lh[:4] + hist + poor[:12]) if tables else (poor[:12] + hist + lh[:4])
    specs = specs + poor[12:] + rest
    for spec in specs:
        if spec.get('block_maps'):
            continue
        try:
            bad, info = run_spec(spec)
        except Exception:
            continue
        if bad:
            return dict(kind='conclusion', what='%s case: %s' % (spec['kind'], bad[0]), case=spec, concrete=True)
    return None


def finding_fails(ctx, f):
    w = f['witness']
    bad, info = run_spec(w['spec'])
    return bool(bad)


def matches_finding(fl, f):
    return False        # F3, F3b and C07-DESIGN-RESTORE are fixed: any recurrence is a violation (finding_fails replays their witnesses on every run)


def replay(ctx, path):
    rep = json.load(open(path))
    case = rep.get('failing_input')
    print('replay of', path)
    print(json.dumps(rep.get('reasons'), indent=1, default=str)[:3000])
    if not case or case.get('kind') not in ('reverse', 'history', 'precond', 'loadhist', 'helpers', 'afs'):
        print('no concrete failing input recorded; broken obligations:', rep.get('broken'))
        return 1
    bad, info = run_spec(case)
    print('implementation now:', bad or 'conclusion holds', info)
    return 1 if bad else 0
