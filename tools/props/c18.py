"""C18 -- smoothed min/max/abs, friction regularisation, smooth ramp and segment parameter."""
import json
import math
from fractions import Fraction

from vlib import common as C

ID = 'C18'
READY = True
LEVEL_TEXT = ('Full over R: every clause of C18 is a Coq theorem over R about the kernels re-translated from the source on every run '
              '(one-sided bound, quarter-width gap, exactness outside the band, symmetry for min; mirrored bounds for max/abs; '
              'friction potential non-negative, convex, below Coulomb, exact offset outside the switch radius; explicit C1 '
              'derivatives across every switch for min/max/abs/zmax/smooth_linear/friction). '
              'BINARY64 (round 4), proved for the PrimFloat instance of the generated min_base/max/abs kernels (the instance executed against '
              'the implementation), via Flocq (PrimFloat ops = Bplus/Bminus/Bmult/Bdiv, round-to-nearest-even error model from error_N_FLT): '
              'for all finite x, y, eps with a finite result (shown to force every intermediate finite; underflow covered) '
              'min(x,y) - s/4 - 3u(|x|+|y|+s) <= min_base x y eps <= min(x,y) + 3u(|x|+|y|+s), u = 2^-53, s = max(eps, fl(1e-14)); '
              'in the band |result - closed form| <= 3u(|x|+|y|+s); mirrored statements for max and abs; exactness (value = true min) for all finite '
              'inputs with |x-y| >= eps in exact arithmetic and bit-for-bit where(x<y,x,y) whenever the code\'s band test is false (any float); '
              'with a NaN argument the result is the second argument (NaN in y propagates, NaN in x is dropped); symmetry at the level of values '
              '(min_base x y eps and min_base y x eps are finite together and then have the same real value, all finite x, y, eps). The in-band analysis is also '
              'proved for an abstract rounding operator (relative error u <= 1/1000, absolute error eta, eta*1000 <= u tol^2), which covers '
              'flush-to-zero arithmetic with eta = 2^-1022 as well. '
              'NOT PROVED in binary64: friction / zmax / smooth_linear / smoothstep (reals + correspondence only); runs whose result is not finite '
              '((x-y)**2 overflows inside the band for |x-y| > 1.3e154: the implementation then returns -inf/NaN; counted in the evidence, '
              'outside the property\'s ten decades); BITWISE symmetry (false for +0/-0 and NaN arguments); the FTZ/DAZ instance of the abstract '
              'theorem (XLA CPU flushes subnormals inside jit; the binary64 stream therefore uses normal or zero arguments).')
TECHNIQUE = 'Coq proof (Reals + Coquelicot; Flocq for binary64) over kernels regenerated from the Python AST; vm_compute/PrimFloat correspondence'
GEN = ['SmoothFunctions', 'Math', 'Friction', 'MortarContact', 'Surface', 'EdgeCpp']
TARGETS = ['proofs/L_C18.vo', 'proofs/L_C18b.vo', 'proofs/L_C18x.vo', 'proofs/L_C18r.vo', 'proofs/L_C18f.vo', 'proofs/L_C18g.vo', 'model/M_C18.vo']
COQ_FILES = ['base/Num.v', 'base/Piecewise.v', 'model/M_C18.v', 'proofs/L_C18.v', 'proofs/L_C18b.v', 'proofs/L_C18x.v', 'proofs/L_C18r.v', 'proofs/L_C18f.v', 'proofs/L_C18g.v', 'props/P_C18.v']
TRUSTED = ['Coq 8.16.1 kernel + vm_compute (no native_compute)',
           'tools/vlib/py2coq.py translator (Python ast -> Gallina over Num T), cross-checked by running the generated kernels at binary64 against the implementation',
           'correspondence harness: float<->(mantissa,exponent) exchange, tolerance rule 16 ulp of max(|args|,|value|)',
           'Flocq 4 (IEEE754.PrimFloat: Coq primitive floats = Flocq binary floats under the FloatAxioms specification of Coq\'s stdlib)',
           'theorems other than the C18_*_binary64_* ones are over exact reals; for those kernels binary64 rounding is covered only by the correspondence']
ASSUMPTIONS = ['exact real arithmetic in theorems', 'jax.grad of the primitives used is the derivative',
               'smooth_linear is C1 only for 0 < l <= 1/2 (not stated in the source; the library calls it with 1e-7 / 1e-9): for l = 1 it jumps at xi = 1 (C18_smooth_linear_needs_l_le_half_refuted); values for l > 1/2 are still tied to the implementation',
               'C1 clauses need width > safeTol (1e-14); below it the clamp makes the kernel discontinuous (documented domain)']
RULE = ('round-4 binary64 stream: x over 1e-300..1e300 (both signs), widths 1e-305..1e300, y inside the band / 0..3 ulp from x / within 4 ulp either side of the switch / both arguments inside a wide band / unrelated; arguments normal or zero (XLA flushes subnormals); the proved bounds 3u(|x|+|y|+s), exactness for |x-y| >= eps and the NaN clause are evaluated on the implementation outputs in exact rational arithmetic with no extra tolerance; model vs implementation on the same cases. '
        'second-wave streams: widths at/below the 1e-14 clamp, zero and negative widths; single un-jitted calls vs the batched jit; float32 inputs (bounds at float32 accuracy, dtype preserved); midpoint convexity, gradient monotonicity and tangent lower bound of the friction potential on pairs of slips incl. exactly on the switch circle and at zero slip; d max/dy; EdgeCpp.smoothstep value/derivative on and around 0 and 1; smooth_linear for l > 1/2 (values). All model-vs-implementation comparisons are NaN-safe (a NaN derivative is a mismatch). '
        'inputs: seeded random arguments over ten decades of magnitude and width, plus streams placed exactly on, and one ulp '
        'either side of, every branch switch (dyadic so both sides are exact); a case is non-trivial when it lies inside a '
        'smoothing band or within 2 ulp of a switch; distinct = distinct argument tuples')
IMPORTS = ['From OV.gen Require Import Gen_SmoothFunctions Gen_Math Gen_Friction Gen_MortarContact Gen_Surface Gen_EdgeCpp.',
           'From OV.model Require Import M_C18.']

ULPS = 16.0


def nextafter(x, up):
    return math.nextafter(x, math.inf if up else -math.inf)


def gen_cases(ctx):
    """-> dict kind -> list of arg tuples"""
    r = ctx.rng('main')
    n = ctx.n(150, 3000)
    two = []      # (x, y, eps) for min/max
    for _ in range(n):
        eps = 10.0 ** r.uniform(-10, 0)
        mag = 10.0 ** r.uniform(-6, 4) * r.choice([-1, 1])
        x = mag * r.uniform(0.5, 2)
        mode = r.randrange(6)
        if mode == 0:
            y = x + eps * r.uniform(-1, 1)            # inside band
        elif mode == 1:
            y = x + eps * r.choice([-1, 1]) * r.uniform(1, 3)   # outside
        elif mode == 2:
            y = x                                      # centre
        elif mode == 3:
            y = x + eps * r.choice([-1, 1])            # on the switch (up to rounding)
        elif mode == 4:
            y = nextafter(x + eps * r.choice([-1, 1]), r.random() < 0.5)
        else:
            y = 10.0 ** r.uniform(-6, 4) * r.choice([-1, 1])
        two.append((x, y, eps))
    # exact-switch stream: dyadic numbers, |x - y| == eps exactly and one ulp either side
    for k in range(ctx.n(40, 400)):
        e2 = r.randrange(-30, 1)
        eps = math.ldexp(1.0, e2)
        x = math.ldexp(r.randrange(-1024, 1024), e2 + r.randrange(0, 6))
        for sgn in (-1, 1):
            y = x + sgn * eps
            if abs(abs(x - y) - eps) == 0.0:
                two += [(x, y, eps), (x, nextafter(y, True), eps), (x, nextafter(y, False), eps)]
    one = []      # (x, eps) for abs / zmax
    for _ in range(n):
        eps = 10.0 ** r.uniform(-10, 0)
        mode = r.randrange(5)
        if mode == 0:
            x = eps * r.uniform(-1, 1)
        elif mode == 1:
            x = eps * r.choice([-1, 1]) * r.choice([0.5, 1.0])
        elif mode == 2:
            x = nextafter(eps * r.choice([-1, 1]) * r.choice([0.5, 1.0]), r.random() < 0.5)
        elif mode == 3:
            x = 0.0
        else:
            x = 10.0 ** r.uniform(-8, 4) * r.choice([-1, 1])
        one.append((x, eps))
    fr = []       # (s0, s1, mu, sReg)
    for _ in range(n):
        sReg = 10.0 ** r.uniform(-8, 1)
        mu = r.choice([0.0, 0.3, 1.0, r.uniform(0, 2)])
        ang = r.uniform(0, 2 * math.pi)
        mode = r.randrange(5)
        rad = sReg * (r.uniform(0, 1) if mode == 0 else r.uniform(1, 10) if mode == 1 else 1.0 if mode == 2
                      else (1 + r.choice([-1, 1]) * 2e-16) if mode == 3 else 0.0)
        if mode == 2 and r.random() < 0.5:
            fr.append((rad, 0.0, mu, sReg))       # exactly on the switch
        else:
            fr.append((rad * math.cos(ang), rad * math.sin(ang), mu, sReg))
    sl = []       # (xi, l)
    for _ in range(n):
        l = r.choice([0.5, 0.25, 0.1, 10.0 ** r.uniform(-6, -0.31)])
        mode = r.randrange(6)
        xi = (r.uniform(0, 1) if mode == 0 else l if mode == 1 else 1.0 - l if mode == 2 else
              nextafter(l, r.random() < 0.5) if mode == 3 else nextafter(1.0 - l, r.random() < 0.5) if mode == 4 else r.choice([0.0, 1.0]))
        sl.append((xi, l))
    # widths at and below the 1e-14 clamp (safeTol), zero and negative widths: values and bounds only (no C1 claim there)
    tiny = []
    for _ in range(ctx.n(60, 600)):
        eps = r.choice([1e-14, nextafter(1e-14, True), nextafter(1e-14, False), 5e-15, 1e-15, 1e-300, 0.0, -1.0])
        x = r.choice([0.0, 1.0, -1.0, r.uniform(-1, 1) * 1e-13, r.uniform(-1, 1)])
        y = x + r.choice([0.0, 1e-14, -1e-14, 5e-15, -3e-15, 1e-15, r.uniform(-2e-14, 2e-14), 1.0])
        tiny.append((x, y, eps))
    # smooth_linear beyond its documented domain (l > 1/2): values only -- the function is discontinuous there (proved)
    slbig = [(r.choice([r.uniform(0, 1), 0.0, 1.0, 0.5]), r.uniform(0.5000001, 1.5)) for _ in range(ctx.n(30, 300))]
    # EdgeCpp.smoothstep around and exactly on its switches 0 and 1
    ss = []
    for _ in range(ctx.n(60, 600)):
        mode = r.randrange(6)
        ss.append(r.uniform(0, 1) if mode == 0 else r.uniform(-2, 3) if mode == 1 else r.choice([0.0, 1.0, -0.0]) if mode == 2 else
                  nextafter(r.choice([0.0, 1.0]), r.random() < 0.5) if mode == 3 else r.choice([-1, 1]) * 10.0 ** r.uniform(-12, 3) if mode == 4 else 1.0 + r.uniform(-1, 1) * 1e-9)
    return dict(two=two, one=one, fr=fr, sl=sl, tiny=tiny, slbig=slbig, ss=ss, wide=gen_wide(ctx))


def gen_wide(ctx):
    """binary64 stream for the rounding-aware theorems (C18_min_binary64_bounds etc.): magnitudes 1e-300..1e300, widths 1e-305..1e300
    (so |x|/eps from 1e-600 to 1e600: catastrophic-cancellation range, underflow range, near overflow), y placed inside the band, a few
    ulps from x, a few ulps either side of the switch, and both arguments inside a wide band.  Own rng stream."""
    r = ctx.rng('wide')
    wide = []
    for _ in range(ctx.n(300, 4000)):
        x = r.choice([-1, 1]) * 10.0 ** r.uniform(-300, 300) * r.uniform(1, 10)
        eps = 10.0 ** (r.uniform(-305, 150) if r.random() < 0.85 else r.uniform(150, 300))   # (x-y)**2 overflows beyond 1.3e154
        mode = r.randrange(5)
        if mode == 0:
            y = x + eps * r.uniform(-1, 1)
        elif mode == 1:
            y = x * (1 + r.choice([-1, 1]) * r.choice([0, 1, 2, 3]) * 2.0 ** -52)
        elif mode == 2:
            y = x + eps * r.choice([-1, 1]) * (1 + r.uniform(-4, 4) * 2.0 ** -52)
        elif mode == 3:
            x = eps * r.uniform(-1, 1)
            y = eps * r.uniform(-1, 1)
        else:
            y = r.choice([-1, 1]) * 10.0 ** r.uniform(-300, 300)
        # XLA's CPU backend flushes subnormal numbers to zero (FTZ/DAZ) inside jitted code, so subnormal ARGUMENTS are not IEEE
        # inputs for the implementation; keep x, y zero or normal and eps normal (intermediates may still underflow)
        normal = lambda v: v == 0.0 or abs(v) >= 2.2250738585072014e-308
        if math.isfinite(x) and math.isfinite(y) and normal(x) and normal(y) and normal(eps):
            wide.append((x, y, eps))
    return wide


def impl_eval(cases):
    """run the implementation (values and jax.grad derivatives) on all cases; returns dict name -> list"""
    import jax
    import jax.numpy as jnp
    import optimism  # noqa: F401  (enables x64)
    from optimism import SmoothFunctions as S
    from optimism.contact import Friction, MortarContact
    out = {}
    two = jnp.array(cases['two'])
    one = jnp.array(cases['one'])
    fr = jnp.array(cases['fr'])
    sl = jnp.array(cases['sl'])
    v3 = lambda f: jax.jit(jax.vmap(f))(two[:, 0], two[:, 1], two[:, 2])
    v2 = lambda f, a: jax.jit(jax.vmap(f))(a[:, 0], a[:, 1])
    out['min'] = v3(S.min)
    out['max'] = v3(S.max)
    out['dmin_dx'] = v3(jax.grad(S.min, 0))
    out['dmin_dy'] = v3(jax.grad(S.min, 1))
    out['dmax_dx'] = v3(jax.grad(S.max, 0))
    out['dmax_dy'] = v3(jax.grad(S.max, 1))
    out['abs'] = v2(S.abs, one)
    out['dabs'] = v2(jax.grad(S.abs, 0), one)
    out['zmax'] = v2(S.zmax, one)
    out['dzmax'] = v2(jax.grad(S.zmax, 0), one)
    fric = lambda s0, s1, mu, sr: Friction.compute_friction_energy_from_perp_slip(jnp.array([s0, s1]), Friction.Params(mu, sr))
    out['fric'] = jax.jit(jax.vmap(fric))(fr[:, 0], fr[:, 1], fr[:, 2], fr[:, 3])
    gf = jax.jit(jax.vmap(jax.grad(fric, (0, 1))))(fr[:, 0], fr[:, 1], fr[:, 2], fr[:, 3])
    out['dfric0'], out['dfric1'] = gf
    out['slin'] = v2(MortarContact.smooth_linear, sl)
    out['dslin'] = v2(jax.grad(MortarContact.smooth_linear, 0), sl)
    tiny = jnp.array(cases['tiny'])
    out['tmin'] = jax.jit(jax.vmap(S.min))(tiny[:, 0], tiny[:, 1], tiny[:, 2])
    out['tmax'] = jax.jit(jax.vmap(S.max))(tiny[:, 0], tiny[:, 1], tiny[:, 2])
    slb = jnp.array(cases['slbig'])
    out['slbig'] = v2(MortarContact.smooth_linear, slb)
    wide = jnp.array(cases['wide'])
    out['wmin'] = jax.jit(jax.vmap(S.min))(wide[:, 0], wide[:, 1], wide[:, 2])
    out['wmax'] = jax.jit(jax.vmap(S.max))(wide[:, 0], wide[:, 1], wide[:, 2])
    from optimism.contact import EdgeCpp
    ss = jnp.array(cases['ss'])
    out['sstep'] = jax.jit(jax.vmap(EdgeCpp.smoothstep))(ss)
    out['dsstep'] = jax.jit(jax.vmap(jax.grad(EdgeCpp.smoothstep)))(ss)
    return {k: [float(x) for x in v] for k, v in out.items()}


def extra_conclusions(ctx, cases, impl):
    """L2 streams that do not need the model: single un-jitted calls vs the batched jit, float32 inputs, midpoint convexity and
    gradient monotonicity of the friction potential on the implementation, symmetry of min/max, widths at/below the clamp"""
    import jax
    import jax.numpy as jnp
    import numpy as onp
    from optimism import SmoothFunctions as S
    from optimism.contact import Friction, MortarContact, EdgeCpp
    r = ctx.rng('extra')
    n = 0
    # (a) one call at a time, no vmap, no jit: same values and derivatives as the batched evaluation (up to FMA-level rounding)
    for i in r.sample(range(len(cases['two'])), min(ctx.n(40, 300), len(cases['two']))):
        x, y, e = cases['two'][i]
        sc = max(abs(x), abs(y), e)
        vals = dict(min=float(S.min(x, y, e)), max=float(S.max(x, y, e)), dmin_dx=float(jax.grad(S.min, 0)(x, y, e)),
                    dmin_dy=float(jax.grad(S.min, 1)(x, y, e)), dmax_dx=float(jax.grad(S.max, 0)(x, y, e)), dmax_dy=float(jax.grad(S.max, 1)(x, y, e)))
        n += 1
        for k_, v in vals.items():
            t = ULPS * math.ulp(sc) if k_ in ('min', 'max') else 64 * math.ulp(1.0) * max(1.0, sc / max(e, 1e-14))
            if far(v, impl[k_][i], t):
                ctx.fail('conclusion', 'single call %s(%r,%r,%r) = %r differs from the batched jit evaluation %r' % (k_, x, y, e, v, impl[k_][i]),
                         case=dict(fn='single', which=k_, x=x, y=y, eps=e), concrete=True)
        # symmetry in the arguments (values bit for bit: the expressions are symmetric up to commutativity of + and *)
        if far(float(S.min(y, x, e)), vals['min'], 2 * math.ulp(sc)) or far(float(S.max(y, x, e)), vals['max'], 2 * math.ulp(sc)):
            ctx.fail('conclusion', 'smooth min/max not symmetric at (%r,%r,%r)' % (x, y, e), case=dict(fn='sym', x=x, y=y, eps=e), concrete=True)
    for i in r.sample(range(len(cases['one'])), min(ctx.n(30, 200), len(cases['one']))):
        x, e = cases['one'][i]
        n += 1
        for k_, f in (('abs', S.abs), ('zmax', S.zmax)):
            if far(float(f(x, e)), impl[k_][i], ULPS * math.ulp(max(abs(x), e))):
                ctx.fail('conclusion', 'single call %s(%r,%r) differs from the batched jit evaluation' % (k_, x, e), case=dict(fn='single', which=k_, x=x, eps=e), concrete=True)
        if far(float(S.abs(-x, e)), float(S.abs(x, e)), 2 * math.ulp(max(abs(x), e))):
            ctx.fail('conclusion', 'smooth abs not even at x=%r eps=%r' % (x, e), case=dict(fn='even', x=x, eps=e), concrete=True)
    # (b) float32 inputs: the bounds hold at float32 accuracy and the result stays float32 / finite
    f32 = onp.float32
    for i in r.sample(range(len(cases['two'])), min(ctx.n(60, 400), len(cases['two']))):
        x, y, e = (float(f32(v)) for v in cases['two'][i])
        if not (e > 1e-6 * max(abs(x), abs(y), 1e-30)) or not e > 1e-30:
            continue
        n += 1
        vmin, vmax = S.min(f32(x), f32(y), f32(e)), S.max(f32(x), f32(y), f32(e))
        t = 8 * float(onp.finfo(f32).eps) * max(abs(x), abs(y), e)
        lo, hi = min(x, y), max(x, y)
        bad = []
        if str(vmin.dtype) != 'float32' or str(vmax.dtype) != 'float32':
            bad.append('result dtype %s' % vmin.dtype)
        vmin, vmax = float(vmin), float(vmax)
        if not (lo - e / 4 - t <= vmin <= lo + t):
            bad.append('min %r outside [min - eps/4, min]' % vmin)
        if not (hi - t <= vmax <= hi + e / 4 + t):
            bad.append('max %r outside [max, max + eps/4]' % vmax)
        for b in bad:
            ctx.fail('conclusion', 'float32 smooth min/max at x=%r y=%r eps=%r: %s' % (x, y, e, b), case=dict(fn='f32', x=x, y=y, eps=e), concrete=True)
    # (c) friction potential on the implementation: midpoint convexity, monotone gradient along segments, value symmetry
    fric = lambda s, mu, sr: Friction.compute_friction_energy_from_perp_slip(s, Friction.Params(mu, sr))
    A, B, MU, SR = [], [], [], []
    for _ in range(ctx.n(150, 1500)):
        sr = 10.0 ** r.uniform(-8, 1)
        mu = r.choice([0.3, 1.0, r.uniform(0, 2)])
        pt = lambda: (lambda rad, ang: (rad * math.cos(ang), rad * math.sin(ang)))(sr * r.choice([0.0, 1.0, r.uniform(0, 1), r.uniform(1, 4), r.uniform(0.99, 1.01)]), r.uniform(0, 2 * math.pi))
        a, b = pt(), pt()
        if r.random() < 0.3:      # straddle the switch radius along a ray, end point exactly on the circle
            a = (sr, 0.0)
            b = (sr * r.uniform(0, 2), 0.0)
        A.append(a); B.append(b); MU.append(mu); SR.append(sr)
    A, B, MU, SR = jnp.array(A), jnp.array(B), jnp.array(MU), jnp.array(SR)
    fv = jax.jit(jax.vmap(fric))
    gv = jax.jit(jax.vmap(jax.grad(fric)))
    fa, fb, fm = fv(A, MU, SR), fv(B, MU, SR), fv(0.5 * (A + B), MU, SR)
    ga, gb = gv(A, MU, SR), gv(B, MU, SR)
    for i in range(len(MU)):
        n += 1
        sc = float(MU[i]) * max(float(jnp.linalg.norm(A[i])), float(jnp.linalg.norm(B[i])), float(SR[i]))
        case = dict(fn='friction_pair', a=[float(v) for v in A[i]], b=[float(v) for v in B[i]], mu=float(MU[i]), sReg=float(SR[i]))
        if not float(fm[i]) <= 0.5 * (float(fa[i]) + float(fb[i])) + 16 * math.ulp(max(sc, 1e-300)):
            ctx.fail('conclusion', 'friction potential not midpoint-convex between %r and %r (mu=%r sReg=%r): f(mid)=%r > (f(a)+f(b))/2=%r'
                     % (case['a'], case['b'], case['mu'], case['sReg'], float(fm[i]), 0.5 * (float(fa[i]) + float(fb[i]))), case=case, concrete=True)
        # convex + C1  =>  (grad f(b) - grad f(a)) . (b - a) >= 0 and the tangent at a is a lower bound at b
        d = B[i] - A[i]
        mono = float(jnp.dot(gb[i] - ga[i], d))
        if not mono >= -64 * math.ulp(max(float(MU[i]) * float(jnp.linalg.norm(d)), 1e-300)):
            ctx.fail('conclusion', 'friction force (jax.grad) not monotone between %r and %r: (g(b)-g(a)).(b-a) = %r' % (case['a'], case['b'], mono), case=case, concrete=True)
        tang = float(fa[i]) + float(jnp.dot(ga[i], d))
        if not tang <= float(fb[i]) + 64 * math.ulp(max(sc, 1e-300)):
            ctx.fail('conclusion', 'tangent of the friction potential at %r is not a lower bound at %r: %r > %r' % (case['a'], case['b'], tang, float(fb[i])), case=case, concrete=True)
    # (d) widths at and below the clamp
    for i, (x, y, e) in enumerate(cases['tiny']):
        n += 1
        for b in concl_two(x, y, e, impl['tmin'][i], impl['tmax'][i]):
            ctx.fail('conclusion', 'smooth min/max at the width clamp x=%r y=%r eps=%r: %s' % (x, y, e, b), case=dict(fn='minmax', x=x, y=y, eps=e), concrete=True)
    # (f) binary64 stream: proved rounding-aware bounds, exact rational evaluation, wide magnitude range
    ninband = nover = 0
    for i, (x, y, e) in enumerate(cases['wide']):
        n += 1
        vmin, vmax = impl['wmin'][i], impl['wmax'][i]
        if not (math.isfinite(vmin) and math.isfinite(vmax)):
            nover += 1
        if abs(Fraction(x) - Fraction(y)) < Fraction(e):
            ninband += 1
        for b in concl_wide(x, y, e, vmin, vmax):
            ctx.fail('conclusion', 'smooth min/max x=%r y=%r eps=%r: %s' % (x, y, e, b), case=dict(fn='wide64', x=x, y=y, eps=e, min=vmin, max=vmax), concrete=True)
    ctx.count('binary64_stream_cases', len(cases['wide']))
    ctx.count('binary64_stream_inside_band', ninband)
    ctx.count('binary64_stream_overflowed_results', nover)
    for (x, y, e, v) in nan_clause():
        ctx.fail('conclusion', 'NaN clause (result = second argument when an argument is NaN) fails: min(%r,%r,%r) = %r' % (x, y, e, v), case=dict(fn='nan', x=repr(x), y=repr(y), eps=e), concrete=True)
    n += 4
    # (e) smoothstep: range and monotone on the implementation
    for i, x in enumerate(cases['ss']):
        n += 1
        v, dv = impl['sstep'][i], impl['dsstep'][i]
        if not (0.0 <= v <= 1.0) or not (dv >= 0.0) or (x <= 0 and v != 0.0) or (x >= 1 and v != 1.0):
            ctx.fail('conclusion', 'smoothstep(%r) = %r, derivative %r: outside [0,1] / not monotone / not exact outside [0,1]' % (x, v, dv), case=dict(fn='smoothstep', x=x), concrete=True)
    return n


def model_exprs(cases, kernels=True):
    ex, keys = [], []
    K = (lambda t: t) if kernels else (lambda t: 'PrimFloat.nan')
    for (x, y, e) in cases['two']:
        a = '%s %s %s' % (C.cf(x), C.cf(y), C.cf(e))
        ex.append('fencs [%s; %s; d_smin_dx %s; d_smin_dy %s; d_smax_dx %s; d_smax_dy %s]' % (K('s_min ' + a), K('s_max ' + a), a, a, a, a))
    for (x, e) in cases['one']:
        a = '%s %s' % (C.cf(x), C.cf(e))
        ex.append('fencs [%s; d_sabs %s; %s; d_zmax %s]' % (K('s_abs ' + a), a, K('zmax ' + a), a))
    for (s0, s1, mu, sr) in cases['fr']:
        a = '%s %s %s %s' % (C.cf(s0), C.cf(s1), C.cf(mu), C.cf(sr))
        ex.append('fencs [%s; fst (d_friction %s); snd (d_friction %s)]' % (K('compute_friction_energy_from_perp_slip ' + a), a, a))
    for (xi, l) in cases['sl']:
        a = '%s %s' % (C.cf(xi), C.cf(l))
        ex.append('fencs [%s; d_slin %s]' % (K('smooth_linear ' + a), a))
    for (x, y, e) in cases['tiny']:
        a = '%s %s %s' % (C.cf(x), C.cf(y), C.cf(e))
        ex.append('fencs [%s; %s]' % (K('s_min ' + a), K('s_max ' + a)))
    for (xi, l) in cases['slbig']:
        ex.append('fencs [%s]' % K('smooth_linear %s %s' % (C.cf(xi), C.cf(l))))
    for x in cases['ss']:
        ex.append('fencs [%s; d_sstep %s]' % (K('smoothstep ' + C.cf(x)), C.cf(x)))
    for (x, y, e) in cases['wide']:
        a = '%s %s %s' % (C.cf(x), C.cf(y), C.cf(e))
        ex.append('fencs [%s; %s]' % (K('s_min ' + a), K('s_max ' + a)))
    return ex


def far(a, b, t):
    """NaN-safe 'differs by more than t' (a NaN on either side counts as a difference unless both are NaN)"""
    if a != a or b != b:
        return not (a != a and b != b)
    return not abs(a - b) <= t


def tol(*vals):
    m = max([abs(v) for v in vals if v == v and not math.isinf(v)] + [1e-300])
    return ULPS * math.ulp(m)


def concl_two(x, y, e, vmin, vmax):
    """the theorems' conclusions evaluated on implementation outputs; returns list of violated clause names"""
    bad = []
    s = max(e, 1e-14)
    t = tol(x, y, s)
    lo, hi = min(x, y), max(x, y)
    if not vmin <= lo + t:
        bad.append('min exceeds true min by %.3g (tol %.3g)' % (vmin - lo, t))
    if not lo - vmin <= s / 4 + t:
        bad.append('min below true min by more than width/4: gap %.3g' % (lo - vmin))
    if abs(x - y) >= e and vmin != lo:
        bad.append('min not exact outside the band')
    if not vmax >= hi - t:
        bad.append('max below true max by %.3g' % (hi - vmax))
    if not vmax - hi <= s / 4 + t:
        bad.append('max above true max by more than width/4: gap %.3g' % (vmax - hi))
    if abs(x - y) >= e and vmax != hi:
        bad.append('max not exact outside the band')
    return bad


U64 = Fraction(1, 2 ** 53)
TOL64 = Fraction(1e-14)      # the binary64 value of safeTol (tol64 of proofs/L_C18f.v)


def concl_wide(x, y, e, vmin, vmax):
    """conclusions of C18_min_binary64_bounds / C18_max_binary64_bounds / C18_min_binary64_exact_outside evaluated in EXACT rational
    arithmetic on the implementation's outputs (no tolerance beyond the proved 3 u (|x|+|y|+s)); results that overflowed are outside
    the theorems (hypothesis: finite result) and are only counted."""
    bad = []
    X, Y, E = Fraction(x), Fraction(y), Fraction(e)
    s = max(E, TOL64)
    slack = 3 * U64 * (abs(X) + abs(Y) + s)
    lo, hi = min(X, Y), max(X, Y)
    if math.isfinite(vmin):
        V = Fraction(vmin)
        if not V <= lo + slack:
            bad.append('binary64 one-sided bound: min exceeds the true min by %.3g > 3u(|x|+|y|+s) = %.3g' % (float(V - lo), float(slack)))
        if not lo - s / 4 - slack <= V:
            bad.append('binary64 tightness: min below true min - s/4 by %.3g > 3u(|x|+|y|+s) = %.3g' % (float(lo - s / 4 - V), float(slack)))
        if E <= abs(X - Y) and V != lo:
            bad.append('binary64 exactness outside the band (|x-y| >= eps exactly): min = %r, true min %r' % (vmin, float(lo)))
    if math.isfinite(vmax):
        V = Fraction(vmax)
        if not hi - slack <= V:
            bad.append('binary64 one-sided bound: max below the true max by %.3g > 3u(|x|+|y|+s) = %.3g' % (float(hi - V), float(slack)))
        if not V <= hi + s / 4 + slack:
            bad.append('binary64 tightness: max above true max + s/4 by %.3g > 3u(|x|+|y|+s) = %.3g' % (float(V - hi - s / 4), float(slack)))
        if E <= abs(X - Y) and V != hi:
            bad.append('binary64 exactness outside the band (|x-y| >= eps exactly): max = %r, true max %r' % (vmax, float(hi)))
    return bad


def nan_clause():
    """C18_min_binary64_nan on the implementation: with a NaN argument the result is the second argument"""
    from optimism import SmoothFunctions as S
    nan = float('nan')
    bad = []
    for (x, y, e) in ((nan, 1.0, 0.1), (nan, -3.0, 1e-20), (2.0, nan, 0.5), (nan, nan, 1.0)):
        v = float(S.min(x, y, e))
        if not ((v != v and y != y) or v == y):
            bad.append((x, y, e, v))
    return bad


def concl_one(x, e, vabs, vz):
    bad = []
    s = max(e, 1e-14)
    t = tol(x, s)
    if not vabs >= abs(x) - t:
        bad.append('abs below |x| by %.3g' % (abs(x) - vabs))
    if not vabs - abs(x) <= s / 4 + t:
        bad.append('abs above |x| by more than width/4: %.3g' % (vabs - abs(x)))
    if abs(2 * x) >= e and vabs != abs(x):
        bad.append('abs not exact outside the band')
    if e > 0:
        if not (max(0.0, x) - t <= vz <= max(0.0, x) + e / 4 + t):
            bad.append('zmax outside [max(0,x), max(0,x)+eps/4]')
    return bad


def concl_fric(s0, s1, mu, sr, v):
    bad = []
    nrm = math.hypot(s0, s1)
    t = tol(mu * nrm, mu * sr)
    if not v >= -t:
        bad.append('friction energy negative: %.3g' % v)
    if not v <= mu * nrm + t:
        bad.append('friction energy above Coulomb value by %.3g' % (v - mu * nrm))
    if nrm > sr * (1 + 1e-12) and far(v, mu * (nrm - sr / 2), t):
        bad.append('friction energy not mu(|s|-sReg/2) outside the switch radius')
    return bad


def correspondence(ctx, model_ok):
    cases = gen_cases(ctx)
    impl = impl_eval(cases)
    n2, n1, nf, ns = len(cases['two']), len(cases['one']), len(cases['fr']), len(cases['sl'])
    total = n2 + n1 + nf + ns
    ctx.count('evaluations', total)
    distinct = set()
    # ---- L2: conclusions of the theorems on the implementation's outputs
    for i, (x, y, e) in enumerate(cases['two']):
        if abs(x - y) < e or abs(abs(x - y) - e) <= 4 * math.ulp(max(abs(x), abs(y), e)):
            distinct.add(('two', x, y, e))
        bad = concl_two(x, y, e, impl['min'][i], impl['max'][i])
        # symmetry
        for b in bad:
            ctx.fail('conclusion', 'smooth min/max at x=%r y=%r eps=%r: %s' % (x, y, e, b),
                     case=dict(fn='minmax', x=x, y=y, eps=e, min=impl['min'][i], max=impl['max'][i]), concrete=True)
    for i, (x, e) in enumerate(cases['one']):
        if abs(2 * x) < e or abs(abs(x) - e) <= 4 * math.ulp(e) or abs(abs(2 * x) - e) <= 4 * math.ulp(e):
            distinct.add(('one', x, e))
        for b in concl_one(x, e, impl['abs'][i], impl['zmax'][i]):
            ctx.fail('conclusion', 'smooth abs/zmax at x=%r eps=%r: %s' % (x, e, b),
                     case=dict(fn='abszmax', x=x, eps=e, abs=impl['abs'][i], zmax=impl['zmax'][i]), concrete=True)
    for i, (s0, s1, mu, sr) in enumerate(cases['fr']):
        if math.hypot(s0, s1) <= 1.5 * sr:
            distinct.add(('fr', s0, s1, mu, sr))
        for b in concl_fric(s0, s1, mu, sr, impl['fric'][i]):
            ctx.fail('conclusion', 'friction at s=(%r,%r) mu=%r sReg=%r: %s' % (s0, s1, mu, sr, b),
                     case=dict(fn='friction', s0=s0, s1=s1, mu=mu, sReg=sr, value=impl['fric'][i]), concrete=True)
    for (xi, l) in cases['sl']:
        if xi < l or xi > 1 - l or abs(xi - l) < 1e-12 or abs(xi - 1 + l) < 1e-12:
            distinct.add(('sl', xi, l))
    # symmetry of min/max on a swapped evaluation is covered through the model comparison below (the model is proved symmetric)
    nextra = extra_conclusions(ctx, cases, impl)
    ctx.count('evaluations', nextra)
    ctx.count('distinct_nontrivial', len(distinct))
    ctx.count('conclusion_checks', total + nextra)
    ctx.sample(dict(fn='min', x=cases['two'][0][0], y=cases['two'][0][1], eps=cases['two'][0][2], impl=impl['min'][0]))
    ctx.sample(dict(fn='friction', args=cases['fr'][0], impl=impl['fric'][0]))
    # ---- L1: regenerated kernels and proved derivative formulas, executed at binary64, against the implementation.
    # When the regenerated kernels or their proofs no longer build, the hand-written derivative formulas (model/M_C18.v,
    # which do not depend on gen/) are still evaluated: they are what the C1 theorems say jax.grad must deliver.
    import os
    if not model_ok and not os.path.exists(os.path.join(C.COQ, 'model', 'M_C18.vo')):
        return
    res = C.coq_eval(IMPORTS if model_ok else IMPORTS[1:], model_exprs(cases, kernels=model_ok), 'C18', shard=400)
    k = 0
    mism = 0

    def cmp(name, args, got, want, scale):
        nonlocal mism
        if not model_ok:
            return
        t = ULPS * math.ulp(max(scale, 1e-300)) + 1e-9 * abs(want) * 0
        if not (C.close(got, want, rtol=4e-15, atol=t)):
            mism += 1
            if mism <= 20:
                ctx.fail('correspondence', 'model %s%r = %r but implementation gives %r (tol %.3g)' % (name, tuple(args), got, want, t),
                         case=dict(fn=name, args=list(args), model=got, impl=want))

    for i, (x, y, e) in enumerate(cases['two']):
        v = C.dec_floats(res[k]); k += 1
        sc = max(abs(x), abs(y), e)
        cmp('min', (x, y, e), v[0], impl['min'][i], sc)
        cmp('max', (x, y, e), v[1], impl['max'][i], sc)
        # derivatives: compare away from the measure-zero switch set where one-sided selection may legitimately differ by rounding
        d = abs(abs(x - y) - e)
        if True:   # also ON the switches: the C1 theorem fixes the derivative there, and jax.grad must deliver it
            ds = max(1.0, sc / e * 2.3e-16 / 2.2e-16)
            dt = 64 * math.ulp(1.0) * max(1.0, sc / max(e, 1e-14))
            for nm, j, key in (('dmin_dx', 2, 'dmin_dx'), ('dmin_dy', 3, 'dmin_dy'), ('dmax_dx', 4, 'dmax_dx'), ('dmax_dy', 5, 'dmax_dy')):
                if far(v[j], impl[key][i], dt):
                    mism += 1
                    ctx.fail('correspondence', 'proved derivative %s(%r,%r,%r) = %r but jax.grad of the implementation gives %r' % (nm, x, y, e, v[j], impl[key][i]),
                             case=dict(fn=nm, args=[x, y, e], model=v[j], impl=impl[key][i]), concrete=True)
    for i, (x, e) in enumerate(cases['one']):
        v = C.dec_floats(res[k]); k += 1
        sc = max(abs(x), e)
        cmp('abs', (x, e), v[0], impl['abs'][i], sc)
        cmp('zmax', (x, e), v[2], impl['zmax'][i], sc)
        dt = 64 * math.ulp(1.0) * max(1.0, sc / max(e, 1e-14))
        if True:
            if far(v[1], impl['dabs'][i], dt):
                ctx.fail('correspondence', 'proved derivative d_sabs(%r,%r) = %r but jax.grad gives %r' % (x, e, v[1], impl['dabs'][i]),
                         case=dict(fn='dabs', args=[x, e]), concrete=True)
            if far(v[3], impl['dzmax'][i], dt):
                ctx.fail('correspondence', 'proved derivative d_zmax(%r,%r) = %r but jax.grad gives %r' % (x, e, v[3], impl['dzmax'][i]),
                         case=dict(fn='dzmax', args=[x, e]), concrete=True)
    for i, (s0, s1, mu, sr) in enumerate(cases['fr']):
        v = C.dec_floats(res[k]); k += 1
        nrm = math.hypot(s0, s1)
        cmp('friction', (s0, s1, mu, sr), v[0], impl['fric'][i], mu * max(nrm, sr))
        if True:
            for j, key in ((1, 'dfric0'), (2, 'dfric1')):
                if far(v[j], impl[key][i], 1e-9 * max(1.0, mu)):
                    ctx.fail('correspondence', 'proved friction gradient component %d at %r = %r but jax.grad gives %r' % (j - 1, (s0, s1, mu, sr), v[j], impl[key][i]),
                             case=dict(fn='dfric', args=[s0, s1, mu, sr]), concrete=True)
    for i, (xi, l) in enumerate(cases['sl']):
        v = C.dec_floats(res[k]); k += 1
        cmp('smooth_linear', (xi, l), v[0], impl['slin'][i], 1.0)
        if True:
            if far(v[1], impl['dslin'][i], 1e-9 * max(1.0, 1 / l * 1e-4)):
                ctx.fail('correspondence', 'proved derivative d_slin(%r,%r) = %r but jax.grad gives %r' % (xi, l, v[1], impl['dslin'][i]),
                         case=dict(fn='dslin', args=[xi, l]), concrete=True)
    for i, (x, y, e) in enumerate(cases['tiny']):
        v = C.dec_floats(res[k]); k += 1
        sc = max(abs(x), abs(y), abs(e), 1e-14)
        cmp('min (width at/below clamp)', (x, y, e), v[0], impl['tmin'][i], sc)
        cmp('max (width at/below clamp)', (x, y, e), v[1], impl['tmax'][i], sc)
    for i, (xi, l) in enumerate(cases['slbig']):
        v = C.dec_floats(res[k]); k += 1
        cmp('smooth_linear (l > 1/2)', (xi, l), v[0], impl['slbig'][i], 2.0)
    for i, x in enumerate(cases['ss']):
        v = C.dec_floats(res[k]); k += 1
        cmp('smoothstep', (x,), v[0], impl['sstep'][i], 1.0)
        if far(v[1], impl['dsstep'][i], 64 * math.ulp(1.0)):
            ctx.fail('correspondence', 'proved derivative d_smoothstep(%r) = %r but jax.grad gives %r' % (x, v[1], impl['dsstep'][i]), case=dict(fn='dsstep', x=x), concrete=True)
    for i, (x, y, e) in enumerate(cases['wide']):
        v = C.dec_floats(res[k]); k += 1
        sc = max(abs(x), abs(y), e, 1e-14)
        if math.isfinite(impl['wmin'][i]) and math.isfinite(v[0]):
            cmp('min (binary64 stream)', (x, y, e), v[0], impl['wmin'][i], sc)
        if math.isfinite(impl['wmax'][i]) and math.isfinite(v[1]):
            cmp('max (binary64 stream)', (x, y, e), v[1], impl['wmax'][i], sc)
        if model_ok and (math.isfinite(impl['wmin'][i]) != math.isfinite(v[0]) or math.isfinite(impl['wmax'][i]) != math.isfinite(v[1])):
            # overflow must happen on both sides or on neither, except within rounding of the overflow threshold
            if not max(abs(x), abs(y), e) > 1e307:
                mism += 1
                ctx.fail('correspondence', 'model and implementation disagree on overflow at %r: model %r, implementation %r' % ((x, y, e), v, (impl['wmin'][i], impl['wmax'][i])),
                         case=dict(fn='wide64', x=x, y=y, eps=e))
    ctx.count('model_vs_impl_comparisons', k)
    ctx.count('model_vs_impl_mismatches', mism)


def search(ctx, reasons):
    """directed search on the implementation when a proof / translation / correspondence broke"""
    import copy
    c2 = copy.copy(ctx)
    c2.tier = 'thorough'
    c2.failures = []
    c2.counts = {}
    c2.seed = ctx.seed + 1
    correspondence(c2, False)
    conc = [f for f in c2.failures if f.get('concrete')]
    return conc[0] if conc else None


def finding_fails(ctx, f):
    w = f['witness']
    import optimism  # noqa
    from optimism import SmoothFunctions as S
    if w['fn'] == 'minmax':
        v = float(S.min(w['x'], w['y'], w['eps']))
        return bool(concl_two(w['x'], w['y'], w['eps'], v, float(S.max(w['x'], w['y'], w['eps']))))
    return False


def matches_finding(fl, f):
    return False


def replay(ctx, path):
    rep = json.load(open(path))
    case = rep.get('failing_input')
    print('replay of', path)
    print(json.dumps(rep.get('reasons'), indent=1)[:3000])
    if not case:
        print('no concrete failing input recorded; broken obligations:', rep.get('broken'))
        return 1
    import optimism  # noqa
    from optimism import SmoothFunctions as S
    from optimism.contact import Friction
    import jax.numpy as jnp
    bad = []
    if case.get('fn') == 'minmax':
        bad = concl_two(case['x'], case['y'], case['eps'], float(S.min(case['x'], case['y'], case['eps'])), float(S.max(case['x'], case['y'], case['eps'])))
    elif case.get('fn') == 'wide64':
        bad = concl_wide(case['x'], case['y'], case['eps'], float(S.min(case['x'], case['y'], case['eps'])), float(S.max(case['x'], case['y'], case['eps'])))
    elif case.get('fn') == 'nan':
        bad = nan_clause()
    elif case.get('fn') == 'abszmax':
        bad = concl_one(case['x'], case['eps'], float(S.abs(case['x'], case['eps'])), float(S.zmax(case['x'], case['eps'])))
    elif case.get('fn') == 'friction':
        v = float(Friction.compute_friction_energy_from_perp_slip(jnp.array([case['s0'], case['s1']]), Friction.Params(case['mu'], case['sReg'])))
        bad = concl_fric(case['s0'], case['s1'], case['mu'], case['sReg'], v)
    else:
        print('case kind', case.get('fn'), 'is replayed by re-running the check')
        return 1
    print('implementation now:', bad or 'conclusion holds')
    return 1 if bad else 0
