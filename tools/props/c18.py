"""C18 -- smoothed min/max/abs, friction regularisation, smooth ramp and segment parameter."""
import json
import math

from vlib import common as C

ID = 'C18'
READY = True
LEVEL_TEXT = ('Full: every clause of C18 is a Coq theorem over R about the kernels re-translated from the source on every run '
              '(one-sided bound, quarter-width gap, exactness outside the band, symmetry for min; mirrored bounds for max/abs; '
              'friction potential non-negative, convex, below Coulomb, exact offset outside the switch radius; explicit C1 '
              'derivatives across every switch for min/max/abs/zmax/smooth_linear/friction). Binary64 behaviour is covered by the '
              'correspondence (generated kernels and proved derivative formulas executed in PrimFloat vs the implementation and jax.grad).')
TECHNIQUE = 'Coq proof (Reals + Coquelicot) over kernels regenerated from the Python AST; vm_compute/PrimFloat correspondence'
GEN = ['SmoothFunctions', 'Math', 'Friction', 'MortarContact']
TARGETS = ['proofs/L_C18.vo', 'proofs/L_C18x.vo', 'model/M_C18.vo']
COQ_FILES = ['base/Num.v', 'base/Piecewise.v', 'model/M_C18.v', 'proofs/L_C18.v', 'proofs/L_C18x.v', 'props/P_C18.v']
TRUSTED = ['Coq 8.16.1 kernel + vm_compute (no native_compute)',
           'tools/vlib/py2coq.py translator (Python ast -> Gallina over Num T), cross-checked by running the generated kernels at binary64 against the implementation',
           'correspondence harness: float<->(mantissa,exponent) exchange, tolerance rule 16 ulp of max(|args|,|value|)',
           'theorems are over exact reals; binary64 rounding is covered only by the correspondence']
ASSUMPTIONS = ['exact real arithmetic in theorems', 'jax.grad of the primitives used is the derivative',
               'C1 clauses need width > safeTol (1e-14); below it the clamp makes the kernel discontinuous (documented domain)']
RULE = ('inputs: seeded random arguments over ten decades of magnitude and width, plus streams placed exactly on, and one ulp '
        'either side of, every branch switch (dyadic so both sides are exact); a case is non-trivial when it lies inside a '
        'smoothing band or within 2 ulp of a switch; distinct = distinct argument tuples')
IMPORTS = ['From OV.gen Require Import Gen_SmoothFunctions Gen_Math Gen_Friction Gen_MortarContact.',
           'From OV.model Require Import M_C18.']

ULPS = 16.0


def nextafter(x, up):
    return math.nextafter(x, math.inf if up else -math.inf)


def gen_cases(ctx):
    """-> dict kind -> list of arg tuples"""
    r = ctx.rng('main')
    n = ctx.n(150, 3000)
    two = []      # (x, y, eps) for min/max
    for _ in range(n):
        eps = 10.0 ** r.uniform(-10, 0)
        mag = 10.0 ** r.uniform(-6, 4) * r.choice([-1, 1])
        x = mag * r.uniform(0.5, 2)
        mode = r.randrange(6)
        if mode == 0:
            y = x + eps * r.uniform(-1, 1)            # inside band
        elif mode == 1:
            y = x + eps * r.choice([-1, 1]) * r.uniform(1, 3)   # outside
        elif mode == 2:
            y = x                                      # centre
        elif mode == 3:
            y = x + eps * r.choice([-1, 1])            # on the switch (up to rounding)
        elif mode == 4:
            y = nextafter(x + eps * r.choice([-1, 1]), r.random() < 0.5)
        else:
            y = 10.0 ** r.uniform(-6, 4) * r.choice([-1, 1])
        two.append((x, y, eps))
    # exact-switch stream: dyadic numbers, |x - y| == eps exactly and one ulp either side
    for k in range(ctx.n(40, 400)):
        e2 = r.randrange(-30, 1)
        eps = math.ldexp(1.0, e2)
        x = math.ldexp(r.randrange(-1024, 1024), e2 + r.randrange(0, 6))
        for sgn in (-1, 1):
            y = x + sgn * eps
            if abs(abs(x - y) - eps) == 0.0:
                two += [(x, y, eps), (x, nextafter(y, True), eps), (x, nextafter(y, False), eps)]
    one = []      # (x, eps) for abs / zmax
    for _ in range(n):
        eps = 10.0 ** r.uniform(-10, 0)
        mode = r.randrange(5)
        if mode == 0:
            x = eps * r.uniform(-1, 1)
        elif mode == 1:
            x = eps * r.choice([-1, 1]) * r.choice([0.5, 1.0])
        elif mode == 2:
            x = nextafter(eps * r.choice([-1, 1]) * r.choice([0.5, 1.0]), r.random() < 0.5)
        elif mode == 3:
            x = 0.0
        else:
            x = 10.0 ** r.uniform(-8, 4) * r.choice([-1, 1])
        one.append((x, eps))
    fr = []       # (s0, s1, mu, sReg)
    for _ in range(n):
        sReg = 10.0 ** r.uniform(-8, 1)
        mu = r.choice([0.0, 0.3, 1.0, r.uniform(0, 2)])
        ang = r.uniform(0, 2 * math.pi)
        mode = r.randrange(5)
        rad = sReg * (r.uniform(0, 1) if mode == 0 else r.uniform(1, 10) if mode == 1 else 1.0 if mode == 2
                      else (1 + r.choice([-1, 1]) * 2e-16) if mode == 3 else 0.0)
        if mode == 2 and r.random() < 0.5:
            fr.append((rad, 0.0, mu, sReg))       # exactly on the switch
        else:
            fr.append((rad * math.cos(ang), rad * math.sin(ang), mu, sReg))
    sl = []       # (xi, l)
    for _ in range(n):
        l = r.choice([0.5, 0.25, 0.1, 10.0 ** r.uniform(-6, -0.31)])
        mode = r.randrange(6)
        xi = (r.uniform(0, 1) if mode == 0 else l if mode == 1 else 1.0 - l if mode == 2 else
              nextafter(l, r.random() < 0.5) if mode == 3 else nextafter(1.0 - l, r.random() < 0.5) if mode == 4 else r.choice([0.0, 1.0]))
        sl.append((xi, l))
    return dict(two=two, one=one, fr=fr, sl=sl)


def impl_eval(cases):
    """run the implementation (values and jax.grad derivatives) on all cases; returns dict name -> list"""
    import jax
    import jax.numpy as jnp
    import optimism  # noqa: F401  (enables x64)
    from optimism import SmoothFunctions as S
    from optimism.contact import Friction, MortarContact
    out = {}
    two = jnp.array(cases['two'])
    one = jnp.array(cases['one'])
    fr = jnp.array(cases['fr'])
    sl = jnp.array(cases['sl'])
    v3 = lambda f: jax.jit(jax.vmap(f))(two[:, 0], two[:, 1], two[:, 2])
    v2 = lambda f, a: jax.jit(jax.vmap(f))(a[:, 0], a[:, 1])
    out['min'] = v3(S.min)
    out['max'] = v3(S.max)
    out['dmin_dx'] = v3(jax.grad(S.min, 0))
    out['dmin_dy'] = v3(jax.grad(S.min, 1))
    out['dmax_dx'] = v3(jax.grad(S.max, 0))
    out['abs'] = v2(S.abs, one)
    out['dabs'] = v2(jax.grad(S.abs, 0), one)
    out['zmax'] = v2(S.zmax, one)
    out['dzmax'] = v2(jax.grad(S.zmax, 0), one)
    fric = lambda s0, s1, mu, sr: Friction.compute_friction_energy_from_perp_slip(jnp.array([s0, s1]), Friction.Params(mu, sr))
    out['fric'] = jax.jit(jax.vmap(fric))(fr[:, 0], fr[:, 1], fr[:, 2], fr[:, 3])
    gf = jax.jit(jax.vmap(jax.grad(fric, (0, 1))))(fr[:, 0], fr[:, 1], fr[:, 2], fr[:, 3])
    out['dfric0'], out['dfric1'] = gf
    out['slin'] = v2(MortarContact.smooth_linear, sl)
    out['dslin'] = v2(jax.grad(MortarContact.smooth_linear, 0), sl)
    return {k: [float(x) for x in v] for k, v in out.items()}


def model_exprs(cases, kernels=True):
    ex, keys = [], []
    K = (lambda t: t) if kernels else (lambda t: 'PrimFloat.nan')
    for (x, y, e) in cases['two']:
        a = '%s %s %s' % (C.cf(x), C.cf(y), C.cf(e))
        ex.append('fencs [%s; %s; d_smin_dx %s; d_smin_dy %s; d_smax_dx %s]' % (K('s_min ' + a), K('s_max ' + a), a, a, a))
    for (x, e) in cases['one']:
        a = '%s %s' % (C.cf(x), C.cf(e))
        ex.append('fencs [%s; d_sabs %s; %s; d_zmax %s]' % (K('s_abs ' + a), a, K('zmax ' + a), a))
    for (s0, s1, mu, sr) in cases['fr']:
        a = '%s %s %s %s' % (C.cf(s0), C.cf(s1), C.cf(mu), C.cf(sr))
        ex.append('fencs [%s; fst (d_friction %s); snd (d_friction %s)]' % (K('compute_friction_energy_from_perp_slip ' + a), a, a))
    for (xi, l) in cases['sl']:
        a = '%s %s' % (C.cf(xi), C.cf(l))
        ex.append('fencs [%s; d_slin %s]' % (K('smooth_linear ' + a), a))
    return ex


def tol(*vals):
    m = max([abs(v) for v in vals if v == v and not math.isinf(v)] + [1e-300])
    return ULPS * math.ulp(m)


def concl_two(x, y, e, vmin, vmax):
    """the theorems' conclusions evaluated on implementation outputs; returns list of violated clause names"""
    bad = []
    s = max(e, 1e-14)
    t = tol(x, y, s)
    lo, hi = min(x, y), max(x, y)
    if not vmin <= lo + t:
        bad.append('min exceeds true min by %.3g (tol %.3g)' % (vmin - lo, t))
    if not lo - vmin <= s / 4 + t:
        bad.append('min below true min by more than width/4: gap %.3g' % (lo - vmin))
    if abs(x - y) >= e and vmin != lo:
        bad.append('min not exact outside the band')
    if not vmax >= hi - t:
        bad.append('max below true max by %.3g' % (hi - vmax))
    if not vmax - hi <= s / 4 + t:
        bad.append('max above true max by more than width/4: gap %.3g' % (vmax - hi))
    if abs(x - y) >= e and vmax != hi:
        bad.append('max not exact outside the band')
    return bad


def concl_one(x, e, vabs, vz):
    bad = []
    s = max(e, 1e-14)
    t = tol(x, s)
    if not vabs >= abs(x) - t:
        bad.append('abs below |x| by %.3g' % (abs(x) - vabs))
    if not vabs - abs(x) <= s / 4 + t:
        bad.append('abs above |x| by more than width/4: %.3g' % (vabs - abs(x)))
    if abs(2 * x) >= e and vabs != abs(x):
        bad.append('abs not exact outside the band')
    if e > 0:
        if not (max(0.0, x) - t <= vz <= max(0.0, x) + e / 4 + t):
            bad.append('zmax outside [max(0,x), max(0,x)+eps/4]')
    return bad


def concl_fric(s0, s1, mu, sr, v):
    bad = []
    nrm = math.hypot(s0, s1)
    t = tol(mu * nrm, mu * sr)
    if not v >= -t:
        bad.append('friction energy negative: %.3g' % v)
    if not v <= mu * nrm + t:
        bad.append('friction energy above Coulomb value by %.3g' % (v - mu * nrm))
    if nrm > sr * (1 + 1e-12) and abs(v - mu * (nrm - sr / 2)) > t:
        bad.append('friction energy not mu(|s|-sReg/2) outside the switch radius')
    return bad


def correspondence(ctx, model_ok):
    cases = gen_cases(ctx)
    impl = impl_eval(cases)
    n2, n1, nf, ns = len(cases['two']), len(cases['one']), len(cases['fr']), len(cases['sl'])
    total = n2 + n1 + nf + ns
    ctx.count('evaluations', total)
    distinct = set()
    # ---- L2: conclusions of the theorems on the implementation's outputs
    for i, (x, y, e) in enumerate(cases['two']):
        if abs(x - y) < e or abs(abs(x - y) - e) <= 4 * math.ulp(max(abs(x), abs(y), e)):
            distinct.add(('two', x, y, e))
        bad = concl_two(x, y, e, impl['min'][i], impl['max'][i])
        # symmetry
        for b in bad:
            ctx.fail('conclusion', 'smooth min/max at x=%r y=%r eps=%r: %s' % (x, y, e, b),
                     case=dict(fn='minmax', x=x, y=y, eps=e, min=impl['min'][i], max=impl['max'][i]), concrete=True)
    for i, (x, e) in enumerate(cases['one']):
        if abs(2 * x) < e or abs(abs(x) - e) <= 4 * math.ulp(e) or abs(abs(2 * x) - e) <= 4 * math.ulp(e):
            distinct.add(('one', x, e))
        for b in concl_one(x, e, impl['abs'][i], impl['zmax'][i]):
            ctx.fail('conclusion', 'smooth abs/zmax at x=%r eps=%r: %s' % (x, e, b),
                     case=dict(fn='abszmax', x=x, eps=e, abs=impl['abs'][i], zmax=impl['zmax'][i]), concrete=True)
    for i, (s0, s1, mu, sr) in enumerate(cases['fr']):
        if math.hypot(s0, s1) <= 1.5 * sr:
            distinct.add(('fr', s0, s1, mu, sr))
        for b in concl_fric(s0, s1, mu, sr, impl['fric'][i]):
            ctx.fail('conclusion', 'friction at s=(%r,%r) mu=%r sReg=%r: %s' % (s0, s1, mu, sr, b),
                     case=dict(fn='friction', s0=s0, s1=s1, mu=mu, sReg=sr, value=impl['fric'][i]), concrete=True)
    for (xi, l) in cases['sl']:
        if xi < l or xi > 1 - l or abs(xi - l) < 1e-12 or abs(xi - 1 + l) < 1e-12:
            distinct.add(('sl', xi, l))
    # symmetry of min/max on a swapped evaluation is covered through the model comparison below (the model is proved symmetric)
    ctx.count('distinct_nontrivial', len(distinct))
    ctx.count('conclusion_checks', total)
    ctx.sample(dict(fn='min', x=cases['two'][0][0], y=cases['two'][0][1], eps=cases['two'][0][2], impl=impl['min'][0]))
    ctx.sample(dict(fn='friction', args=cases['fr'][0], impl=impl['fric'][0]))
    # ---- L1: regenerated kernels and proved derivative formulas, executed at binary64, against the implementation.
    # When the regenerated kernels or their proofs no longer build, the hand-written derivative formulas (model/M_C18.v,
    # which do not depend on gen/) are still evaluated: they are what the C1 theorems say jax.grad must deliver.
    import os
    if not model_ok and not os.path.exists(os.path.join(C.COQ, 'model', 'M_C18.vo')):
        return
    res = C.coq_eval(IMPORTS if model_ok else IMPORTS[1:], model_exprs(cases, kernels=model_ok), 'C18', shard=400)
    k = 0
    mism = 0

    def cmp(name, args, got, want, scale):
        nonlocal mism
        if not model_ok:
            return
        t = ULPS * math.ulp(max(scale, 1e-300)) + 1e-9 * abs(want) * 0
        if not (C.close(got, want, rtol=4e-15, atol=t)):
            mism += 1
            if mism <= 20:
                ctx.fail('correspondence', 'model %s%r = %r but implementation gives %r (tol %.3g)' % (name, tuple(args), got, want, t),
                         case=dict(fn=name, args=list(args), model=got, impl=want))

    for i, (x, y, e) in enumerate(cases['two']):
        v = C.dec_floats(res[k]); k += 1
        sc = max(abs(x), abs(y), e)
        cmp('min', (x, y, e), v[0], impl['min'][i], sc)
        cmp('max', (x, y, e), v[1], impl['max'][i], sc)
        # derivatives: compare away from the measure-zero switch set where one-sided selection may legitimately differ by rounding
        d = abs(abs(x - y) - e)
        if True:   # also ON the switches: the C1 theorem fixes the derivative there, and jax.grad must deliver it
            ds = max(1.0, sc / e * 2.3e-16 / 2.2e-16)
            dt = 64 * math.ulp(1.0) * max(1.0, sc / max(e, 1e-14))
            for nm, j, key in (('dmin_dx', 2, 'dmin_dx'), ('dmin_dy', 3, 'dmin_dy'), ('dmax_dx', 4, 'dmax_dx')):
                if abs(v[j] - impl[key][i]) > dt:
                    mism += 1
                    ctx.fail('correspondence', 'proved derivative %s(%r,%r,%r) = %r but jax.grad of the implementation gives %r' % (nm, x, y, e, v[j], impl[key][i]),
                             case=dict(fn=nm, args=[x, y, e], model=v[j], impl=impl[key][i]), concrete=True)
    for i, (x, e) in enumerate(cases['one']):
        v = C.dec_floats(res[k]); k += 1
        sc = max(abs(x), e)
        cmp('abs', (x, e), v[0], impl['abs'][i], sc)
        cmp('zmax', (x, e), v[2], impl['zmax'][i], sc)
        dt = 64 * math.ulp(1.0) * max(1.0, sc / max(e, 1e-14))
        if True:
            if abs(v[1] - impl['dabs'][i]) > dt:
                ctx.fail('correspondence', 'proved derivative d_sabs(%r,%r) = %r but jax.grad gives %r' % (x, e, v[1], impl['dabs'][i]),
                         case=dict(fn='dabs', args=[x, e]), concrete=True)
            if abs(v[3] - impl['dzmax'][i]) > dt:
                ctx.fail('correspondence', 'proved derivative d_zmax(%r,%r) = %r but jax.grad gives %r' % (x, e, v[3], impl['dzmax'][i]),
                         case=dict(fn='dzmax', args=[x, e]), concrete=True)
    for i, (s0, s1, mu, sr) in enumerate(cases['fr']):
        v = C.dec_floats(res[k]); k += 1
        nrm = math.hypot(s0, s1)
        cmp('friction', (s0, s1, mu, sr), v[0], impl['fric'][i], mu * max(nrm, sr))
        if True:
            for j, key in ((1, 'dfric0'), (2, 'dfric1')):
                if abs(v[j] - impl[key][i]) > 1e-9 * max(1.0, mu):
                    ctx.fail('correspondence', 'proved friction gradient component %d at %r = %r but jax.grad gives %r' % (j - 1, (s0, s1, mu, sr), v[j], impl[key][i]),
                             case=dict(fn='dfric', args=[s0, s1, mu, sr]), concrete=True)
    for i, (xi, l) in enumerate(cases['sl']):
        v = C.dec_floats(res[k]); k += 1
        cmp('smooth_linear', (xi, l), v[0], impl['slin'][i], 1.0)
        if True:
            if abs(v[1] - impl['dslin'][i]) > 1e-9 * max(1.0, 1 / l * 1e-4):
                ctx.fail('correspondence', 'proved derivative d_slin(%r,%r) = %r but jax.grad gives %r' % (xi, l, v[1], impl['dslin'][i]),
                         case=dict(fn='dslin', args=[xi, l]), concrete=True)
    ctx.count('model_vs_impl_comparisons', k)
    ctx.count('model_vs_impl_mismatches', mism)


def search(ctx, reasons):
    """directed search on the implementation when a proof / translation / correspondence broke"""
    import copy
    c2 = copy.copy(ctx)
    c2.tier = 'thorough'
    c2.failures = []
    c2.counts = {}
    c2.seed = ctx.seed + 1
    correspondence(c2, False)
    conc = [f for f in c2.failures if f.get('concrete')]
    return conc[0] if conc else None


def finding_fails(ctx, f):
    w = f['witness']
    import optimism  # noqa
    from optimism import SmoothFunctions as S
    if w['fn'] == 'minmax':
        v = float(S.min(w['x'], w['y'], w['eps']))
        return bool(concl_two(w['x'], w['y'], w['eps'], v, float(S.max(w['x'], w['y'], w['eps']))))
    return False


def matches_finding(fl, f):
    return False


def replay(ctx, path):
    rep = json.load(open(path))
    case = rep.get('failing_input')
    print('replay of', path)
    print(json.dumps(rep.get('reasons'), indent=1)[:3000])
    if not case:
        print('no concrete failing input recorded; broken obligations:', rep.get('broken'))
        return 1
    import optimism  # noqa
    from optimism import SmoothFunctions as S
    from optimism.contact import Friction
    import jax.numpy as jnp
    bad = []
    if case.get('fn') == 'minmax':
        bad = concl_two(case['x'], case['y'], case['eps'], float(S.min(case['x'], case['y'], case['eps'])), float(S.max(case['x'], case['y'], case['eps'])))
    elif case.get('fn') == 'abszmax':
        bad = concl_one(case['x'], case['eps'], float(S.abs(case['x'], case['eps'])), float(S.zmax(case['x'], case['eps'])))
    elif case.get('fn') == 'friction':
        v = float(Friction.compute_friction_energy_from_perp_slip(jnp.array([case['s0'], case['s1']]), Friction.Params(case['mu'], case['sReg'])))
        bad = concl_fric(case['s0'], case['s1'], case['mu'], case['sReg'], v)
    else:
        print('case kind', case.get('fn'), 'is replayed by re-running the check')
        return 1
    print('implementation now:', bad or 'conclusion holds')
    return 1 if bad else 0
