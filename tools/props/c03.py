"""C03 -- function space reproduces polynomials and integrates them exactly on any mesh."""
import hashlib
import json
import math
import os
import time
from concurrent.futures import ThreadPoolExecutor
from fractions import Fraction as Fr

from vlib import common as C

ID = 'C03'
READY = True
EXHAUSTIVE = True
LEVEL_TEXT = ''
TECHNIQUE = ('Coq proof: vm_compute-checked exactness of the quadrature tables regenerated from the source text; proved certificate '
             'checkers run on the exact rational value of every runtime table (complete configuration set); lifting theorems over R '
             'for every affine element; PrimFloat correspondence for the geometric kernels')
GEN = ['Tab_TriQuad', 'Tab_FsGeom']
TARGETS = ['model/M_C03.vo', 'proofs/L_C03sn.vo', 'proofs/L_C03cert.vo', 'proofs/L_C03tab.vo', 'proofs/L_C03lift.vo']
COQ_FILES = ['base/Num.v', 'model/M_C03.v', 'proofs/L_C03sn.v', 'proofs/L_C03cert.v', 'proofs/L_C03tab.v', 'proofs/L_C03lift.v',
             'props/P_C03.v']
TRUSTED = []
ASSUMPTIONS = []
RULE = ''

ORDERS = (1, 2, 3, 4, 5)
DEG2D = tuple(range(1, 11))
DEG1D = tuple(range(0, 26))
TOL_SHAPE = (1, 10 ** 11)     # 1e-11
TOL_TRI_RT = (1, 10 ** 14)    # runtime (binary64) triangle tables: 1e-14
TOL_G1D = (1, 10 ** 13)       # 1e-13
TOL_FACE = (1, 10 ** 13)
TOL_LOB = (1, 10 ** 11)


# ----------------------------------------------------------------------------- helpers

def sn(x):
    m, e = C.f2me(float(x))
    if e in (7777, 7778):
        raise ValueError('non-finite table entry %r' % x)
    return '(%d, %d)' % (m, e) if m >= 0 and e >= 0 else '((%d), (%d))' % (m, e)


def snl(xs):
    return '[' + '; '.join(sn(x) for x in xs) + ']'


def sn2(p):
    return '(%s, %s)' % (sn(p[0]), sn(p[1]))


def natl(xs):
    return '[' + '; '.join('%d' % int(x) for x in xs) + ']%nat'


def digest(*arrays):
    import numpy as onp
    h = hashlib.sha256()
    for a in arrays:
        a = onp.ascontiguousarray(onp.asarray(a, dtype=onp.float64))
        h.update(str(a.shape).encode())
        h.update(a.tobytes())
    return h.hexdigest()[:16]


def sh_legendre_deriv(n):
    """integer coefficients of d/ds P_n(2s-1)"""
    c = [(-1) ** (n + k) * math.comb(n, k) * math.comb(n + k, k) for k in range(n + 1)]
    return [k * c[k] for k in range(1, n + 1)]


CERT_HEAD = ('From Coq Require Import ZArith List Lia.\nImport ListNotations.\n'
             'From OV.model Require Import M_C03.\nFrom OV.proofs Require Import L_C03sn L_C03cert.\n'
             'Local Open Scope Z_scope.\nLemma two_le_two : 2 <= 2. Proof. lia. Qed.\n')


class Tables:
    """every runtime table of the configuration set, obtained by calling the implementation's constructors"""

    def __init__(self):
        import numpy as onp
        import optimism  # noqa: F401
        from optimism import Interpolants as I, QuadratureRule as Q
        self.onp = onp
        A = lambda a: onp.asarray(a, dtype=onp.float64)
        self.rule2d = {}
        for d in DEG2D:
            qr = Q.create_quadrature_rule_on_triangle(d)
            self.rule2d[d] = (A(qr.xigauss), A(qr.wgauss))
        self.rule1d = {}
        for d in DEG1D:
            qr = Q.create_quadrature_rule_1D(d)
            self.rule1d[d] = (A(qr.xigauss), A(qr.wgauss))
        self.el2d, self.el1d, self.lob = {}, {}, {}
        self.shapes2d, self.shapes1d = {}, {}
        for p in ORDERS:
            self.lob[p] = A(I.get_lobatto_nodes_1d(p))
            e1 = I.make_parent_element_1d(p)
            self.el1d[p] = dict(obj=e1, coords=A(e1.coordinates), vertexNodes=[int(i) for i in e1.vertexNodes],
                                interiorNodes=[int(i) for i in e1.interiorNodes])
            for d in DEG1D:
                sh = I.compute_shapes(e1, self.rule1d[d][0])
                self.shapes1d[(p, d)] = (A(sh.values), A(sh.gradients))    # [nNodes, nPts]
            for bub in (False, True):
                el = I.make_parent_element_2d_with_bubble(p) if bub else I.make_parent_element_2d(p)
                self.el2d[(p, bub)] = dict(obj=el, coords=A(el.coordinates), vertexNodes=[int(i) for i in el.vertexNodes],
                                           faceNodes=[[int(i) for i in r] for r in onp.asarray(el.faceNodes)],
                                           interiorNodes=[int(i) for i in el.interiorNodes], degree=int(el.degree))
                for d in DEG2D:
                    sh = I.compute_shapes(el, self.rule2d[d][0])
                    self.shapes2d[(p, bub, d)] = (A(sh.values), A(sh.gradients))   # [nq, nn], [nq, nn, 2]


def cert_files(T):
    """-> list of (name, text, meta) certificate files covering the complete configuration set; identical tables
    (the same rule serves several degrees) are certified once and the mapping configuration -> certificate is recorded"""
    files = []
    cfgmap = {}
    # --- runtime triangle rules, degree 1..10 (binary64 values of the tables) and 1-D rules 0..25
    body = [CERT_HEAD]
    for d in DEG2D:
        xi, w = T.rule2d[d]
        body.append('Definition pts_%d : list (sn * sn) := [%s].' % (d, '; '.join(sn2(p) for p in xi)))
        body.append('Definition ws_%d : list sn := %s.' % (d, snl(w)))
        body.append('Example tri_rt_%d : tri_rule_ok 2 %d pts_%d ws_%d %d %d = true.\nProof. vm_compute. reflexivity. Qed.' % ((d, d, d, d) + TOL_TRI_RT))
        body.append('Definition tri_rt_%d_meaning := tri_rule_ok_sound 2 two_le_two %d pts_%d ws_%d %d %d eq_refl tri_rt_%d.' % ((d, d, d, d) + TOL_TRI_RT + (d,)))
        cfgmap['tri2d:d=%d' % d] = 'cert_C03_tri'
    files.append(('cert_C03_tri', '\n'.join(body) + '\n', dict(kind='tri', configs=len(DEG2D))))
    for lo in range(0, 26, 6):
        ds = [d for d in DEG1D if lo <= d < lo + 6]
        body = [CERT_HEAD]
        for d in ds:
            x, w = T.rule1d[d]
            body.append('Definition xs_%d : list sn := %s.\nDefinition ws_%d : list sn := %s.' % (d, snl(x), d, snl(w)))
            body.append('Example g1d_%d : gauss1d_ok 2 %d xs_%d ws_%d %d %d = true.\nProof. vm_compute. reflexivity. Qed.' % ((d, d, d, d) + TOL_G1D))
            body.append('Definition g1d_%d_meaning := gauss1d_ok_sound 2 two_le_two %d xs_%d ws_%d %d %d eq_refl g1d_%d.' % ((d, d, d, d) + TOL_G1D + (d,)))
            cfgmap['gauss1d:d=%d' % d] = 'cert_C03_g1d_%d' % lo
        files.append(('cert_C03_g1d_%d' % lo, '\n'.join(body) + '\n', dict(kind='g1d', configs=len(ds))))
    # --- 2-D shape tables per (order, bubble): nodes, one record list per distinct rule table
    for (p, bub), el in sorted(T.el2d.items()):
        tag = 'p%d%s' % (p, 'b' if bub else '')
        body = [CERT_HEAD]
        body.append('Definition nodes : list (sn * sn) := [%s].' % '; '.join(sn2(c) for c in el['coords']))
        seen = {}
        for d in DEG2D:
            xi, _ = T.rule2d[d]
            N, G = T.shapes2d[(p, bub, d)]
            key = digest(xi, N, G)
            if key not in seen:
                k = len(seen)
                seen[key] = k
                recs = ['(%s, (%s, (%s, %s)))' % (sn2(xi[q]), snl(N[q]), snl(G[q, :, 0]), snl(G[q, :, 1])) for q in range(len(xi))]
                body.append('Definition q_%d : list qrec := [%s].' % (k, ';\n  '.join(recs)))
                body.append('Example sh_%d : shapes_ok 2 %d nodes q_%d %d %d = true.\nProof. vm_compute. reflexivity. Qed.' % ((k, p, k) + TOL_SHAPE))
                body.append('Definition sh_%d_meaning := shapes_ok_sound 2 two_le_two %d nodes q_%d %d %d eq_refl sh_%d.' % ((k, p, k) + TOL_SHAPE + (k,)))
            cfgmap['shapes2d:p=%d,bubble=%s,d=%d' % (p, bub, d)] = 'cert_C03_sh_%s#sh_%d' % (tag, seen[key])
        # face-node layout against the 1-D element of the same order
        body.append('Definition nodes1 : list sn := %s.' % snl(T.el1d[p]['coords']))
        body.append('Example faces : faces_ok 2 nodes %s [%s] nodes1 %d %d = true.\nProof. vm_compute. reflexivity. Qed.' % (
            (natl(el['vertexNodes']), '; '.join(natl(r) for r in el['faceNodes'])) + TOL_FACE))
        body.append('Definition faces_meaning := faces_ok_sound 2 two_le_two nodes _ _ nodes1 %d %d eq_refl faces.' % TOL_FACE)
        cfgmap['faces:p=%d,bubble=%s' % (p, bub)] = 'cert_C03_sh_%s#faces' % tag
        files.append(('cert_C03_sh_%s' % tag, '\n'.join(body) + '\n', dict(kind='shapes2d', configs=len(DEG2D) + 1, distinct=len(seen))))
    # --- 1-D shape tables and node sets per order
    for p in ORDERS:
        body = [CERT_HEAD]
        e1 = T.el1d[p]
        body.append('Definition nodes1 : list sn := %s.' % snl(e1['coords']))
        body.append('Definition lobatto : list sn := %s.' % snl(T.lob[p]))
        cs = sh_legendre_deriv(p)
        body.append('Example lob_coeffs : poly_deriv (sh_legendre %d) = [%s].\nProof. vm_compute. reflexivity. Qed.' % (p, '; '.join('(%d)' % c for c in cs)))
        for nm in ('nodes1', 'lobatto'):
            body.append('Example %s_ok : nodes1d_ok 2 %d %s (poly_deriv (sh_legendre %d)) %d %d = true.\nProof. vm_compute. reflexivity. Qed.' % ((nm, p, nm, p) + TOL_LOB))
            body.append('Definition %s_meaning := nodes1d_ok_sound 2 two_le_two %d %s _ %d %d eq_refl %s_ok.' % ((nm, p, nm) + TOL_LOB + (nm,)))
        if e1['vertexNodes'] != [0, p] or e1['interiorNodes'] != list(range(1, p)):
            body.append('Example vertex_nodes_1d_unexpected : false = true. Proof. reflexivity. Qed.')
        seen = {}
        for d in DEG1D:
            x, _ = T.rule1d[d]
            N, dN = T.shapes1d[(p, d)]
            key = digest(x, N, dN)
            if key not in seen:
                k = len(seen)
                seen[key] = k
                recs = ['(%s, (%s, %s))' % (sn(x[q]), snl(N[:, q]), snl(dN[:, q])) for q in range(len(x))]
                body.append('Definition q_%d : list qrec1 := [%s].' % (k, ';\n  '.join(recs)))
                body.append('Example sh_%d : shapes1d_ok 2 %d nodes1 q_%d %d %d = true.\nProof. vm_compute. reflexivity. Qed.' % ((k, p, k) + TOL_SHAPE))
                body.append('Definition sh_%d_meaning := shapes1d_ok_sound 2 two_le_two %d nodes1 q_%d %d %d eq_refl sh_%d.' % ((k, p, k) + TOL_SHAPE + (k,)))
            cfgmap['shapes1d:p=%d,d=%d' % (p, d)] = 'cert_C03_s1_p%d#sh_%d' % (p, seen[key])
        cfgmap['nodes1d:p=%d' % p] = 'cert_C03_s1_p%d#nodes1_ok,lobatto_ok' % p
        files.append(('cert_C03_s1_p%d' % p, '\n'.join(body) + '\n', dict(kind='shapes1d', configs=len(DEG1D) + 1, distinct=len(seen))))
    return files, cfgmap


def run_certs(ctx, files, jobs=10, timeout=600):
    os.makedirs(C.RUN, exist_ok=True)
    paths = []
    for name, text, meta in files:
        path = os.path.join(C.RUN, '%s_%d.v' % (name, os.getpid()))
        with open(path, 'w') as fh:
            fh.write(text)
        paths.append(path)

    def one(path):
        return C.coqc(path, timeout)

    with ThreadPoolExecutor(max_workers=jobs) as ex:
        outs = list(ex.map(one, paths))
    res = []
    for (name, text, meta), path, (rc, out, dt) in zip(files, paths, outs):
        res.append(dict(name=name, ok=(rc == 0), seconds=round(dt, 1), bytes=len(text), out=out[-1500:] if rc else '', **meta))
        for ext in ('.v', '.vo', '.vok', '.vos', '.glob'):
            try:
                os.remove(path[:-2] + ext)
            except OSError:
                pass
        try:
            os.remove(os.path.join(C.RUN, '.' + os.path.basename(path)[:-2] + '.aux'))
        except OSError:
            pass
    return res
