"""C03 -- function space reproduces polynomials and integrates them exactly on any mesh."""
import hashlib
import json
import math
import os
import time
from concurrent.futures import ThreadPoolExecutor
from fractions import Fraction as Fr

from vlib import common as C

ID = 'C03'
READY = True
EXHAUSTIVE = True
LEVEL_TEXT = ('Every clause is a Coq theorem about the model, including (round 4) the divergence clause at the implementation\'s own edge points; what remains tested only is stated at the end. '
              'Proved: (1) every tabulated triangle rule, re-extracted from the decimal source text on every run, is exact to 2e-15 on all monomials up to the '
              'degree it is selected for (d = 1..10), weights > 0, points in the closed reference triangle; (2) soundness of the certificate checkers run by '
              'vm_compute on the exact rational value of every runtime table (1-D Gauss rules d = 0..25 to 1e-13, binary64 triangle rules to 1e-14, 2-D and 1-D '
              'shape tables of orders 1..5 with/without bubble at every rule: values and gradients reproduce every monomial of degree <= order to 1e-11, '
              'face-node layout against the 1-D element, 1-D node sets 0/1-anchored, increasing, symmetric; Lebesgue sums of the 1-D tables <= 2) -- exhaustive over the configuration set; (3) lifting '
              'over R to every non-degenerate affine element and every mesh with explicit tolerance propagation: partition of unity, zero gradient sum, exact '
              'interpolation and exact mapped gradients of polynomial fields of degree <= order (affine closure + normal form; the gradient components are proved '
              'to be the partial derivatives); the mapped gradients solve J^T g = dN uniquely (they ARE J^-T dN, J the Jacobian of the element map) and their nodal sum is the mapped sum of the reference gradients (exactly zero when those sum to zero); '
              'volumes sum to signed area / total area of a counter-clockwise mesh, quadrature exactness against the Riemann '
              'integral (the monomial formula i!j!/(i+j+2)! is proved to be the iterated integral over the reference triangle; change of variables by the affine '
              'map), axisymmetric mode with 2 pi r spending one degree (tolerance and exact versions, per element and summed over a mesh for any nodal basis with the reference identities, bubble or not); (4) divergence theorem for polynomial vector fields on every '
              'affine triangle (Green on the reference triangle + Piola pull-back) and on a mesh by cancellation of interior-edge fluxes, with the edge-list premise derived from C13\'s create_edges theorems for consistently oriented manifold triangulations; '
              '(5) the edge sum exactly as FunctionSpace.integrate_function_on_edge forms it (F at the interpolated points X_q = sum_a N_a(s_q) X_a, unit normal and jac * w_q of compute_edge_vectors) differs from the flux by at most '
              'C eps_q + (1 + eps_q) * eta * (Lip(F1) |t_y| + Lip(F2) |t_x|) with eta = delta * Lam + eps_s * emax (explicit Lipschitz constant of a polynomial on a box from its normal form; X_q within eta of A + s_q t from the certified '
              '1-D identities k = 0, 1; delta = placement error of the edge nodes, Lam = certified Lebesgue sum), in Lipschitz form C eps_q + L (1 + eps_q) eps_s for exact nodes, and summed over the boundary edges reported by create_edges against the sum of the element integrals of div F. '
              'Tested only: binary64 rounding inside FunctionSpace/Mesh (L1 on the geometric kernels, L2 head-room), the node placement error delta of elevated meshes (owned by C13; measured per edge in L2), edge integrands combining the interpolated nodal field u_q (itself proved exact: C03_edge_interpolation) with F(X_q).')
TECHNIQUE = ('Coq proof: vm_compute-checked exactness of the quadrature tables regenerated from the source text; proved certificate '
             'checkers run on the exact rational value of every runtime table (complete configuration set); lifting theorems over R '
             'for every affine element; PrimFloat correspondence for the geometric kernels')
GEN = ['Tab_TriQuad', 'Tab_FsGeom']
TARGETS = ['model/M_C03.vo', 'proofs/L_C03sn.vo', 'proofs/L_C03cert.vo', 'proofs/L_C03tab.vo', 'proofs/L_C03lift.vo', 'proofs/L_C03int.vo', 'proofs/L_C03div.vo', 'proofs/L_C03_C13.vo', 'proofs/L_C03edge.vo', 'proofs/L_C03geo.vo']
COQ_FILES = ['base/Num.v', 'model/M_C03.v', 'proofs/L_C03sn.v', 'proofs/L_C03cert.v', 'proofs/L_C03tab.v', 'proofs/L_C03lift.v',
             'proofs/L_C03int.v', 'proofs/L_C03div.v', 'proofs/L_C03_C13.v', 'proofs/L_C03edge.v', 'proofs/L_C03geo.v', 'props/P_C03.v']
TRUSTED = ['Coq 8.16.1 kernel + vm_compute (no native_compute)',
           'tools/vlib/tab_c03.py: extraction of the tabulated rules (decimal source text -> exact rationals) and of the index structure of the geometric kernels from the Python AST, fail closed',
           'harness: exact binary64 -> (mantissa, exponent) conversion of every runtime table, sharding of certificates, de-duplication of byte-identical tables',
           'hand model edge_flux_sum of integrate_function_on_edge (model/M_C03.v), tied by the PrimFloat correspondence stream l1_edgeflux; its R-instance is the impl_edge_flux of the theorems (C03_impl_edge_flux_is_model)',
           'hand model of the geometric kernels (model/M_C03.v Section Geo), tied by PrimFloat correspondence on random triangles (tolerance: 8 ulp of the '
           'cross-product terms for volumes; 64 u cond(J) |J^-1| |dN| for the LU solve vs the closed form; 16 ulp for edge vectors) and by the extracted index structure (gen/Tab_FsGeom.v)',
           'theorems are over exact reals with the certified table tolerances as explicit hypotheses; binary64 rounding inside FunctionSpace is covered only by L2 (tolerance 2e-10 relative to the theorem\'s own error scale)',
           'element nodes are the affine images of the reference nodes (owned by C13; checked per mesh in L2 as a guard)']
ASSUMPTIONS = ['exact real arithmetic in the lifting theorems; table errors enter as the hypotheses RefIds/TriQuadExact/Gauss1dExact with the certified eps',
               'the integral over a physical triangle is jac times the Riemann integral over the reference triangle of the pulled-back integrand (affine change of variables taken as definition; signed with the vertex orientation)',
               'edge quadrature theorems: at the exact edge points A + s_q t (C03_edge_flux_quadrature_partial) and at the implementation\'s interpolated points (C03_edge_flux_impl_points: hypotheses delta = node placement error, Lam = Lebesgue sum <= 2 certified; C03_edge_flux_quadrature / C03_divergence_mesh_discrete for exact nodes); boundary edges must be geometrically non-degenerate (A <> B)',
               'mesh divergence theorem: no directed vertex pair occurs twice and no element side is degenerate (checked on every L2 mesh); the create_edges model is C13\'s, tied to Mesh.create_edges by C13\'s correspondence and by the L2 premise check here']
RULE = ('round-4 L2 addition per cartesian mesh: for up to 4 sampled boundary edges the implementation\'s interpolated edge points (interpolate_nodal_field_on_edge of the coordinate field) against A + s_q t within delta*Lam_q + 1e-11*emax (+16 ulp), and integrate_function_on_edge against the same sum at the exact edge points within the proved Lipschitz bound (count l2_edge_point_checks, worst ratio edge_point_max_deviation_over_bound). second-wave L2 additions per mesh: integrate_over_block on a proper non-prefix element subset, with a per-element parameter field, with a random state-variable field, and with an integrand using the primal field and its gradient (polynomial nodal fields, exact rational reference values); project_quadrature_field_to_element_field against the volume-weighted average and the exact element mean of monomials; edge integrals whose integrand multiplies the interpolated nodal field with the position; Surface.integrate_function_on_surface on the simplex mesh of every cartesian case; axisymmetric mode for every (order, bubble) combination in every tier. '
        'certificates: the complete set {order 1..5} x {bubble on/off} x {2-D degree 1..10}, {order 1..5} x {1-D degree 0..25}, all 1-D and 2-D rules, obtained by '
        'calling the implementation\'s constructors; one configuration = one distinct item. L2: seeded random Delaunay / graded / rotated / anisotropic / '
        'structured triangulations with random cyclic vertex rotation per element, orders and bubble cycling through all combinations, random rule degrees, '
        'cartesian and axisymmetric; a mesh counts as non-trivial when it has >= 2 elements; distinct = distinct (kind, seed, order, bubble, degree, mode). '
        'L1: random triangles over six decades of size, aspect ratio up to 100, both orientations; distinct = distinct triangles. '
        'L1 edgeflux (round 4): one-element meshes of orders 1..5 (cycled), random side, random 1-D degree 0..9, random monomial fields of degree <= 4; the model edge_flux_sum is fed the '
        'implementation\'s edge-node coordinates, 1-D shape table and weights (oracle tables) and compared with integrate_function_on_edge within 32 ulp of the magnitude of the expression as written; distinct = distinct (triangle, side, degree, exponents).')

ORDERS = (1, 2, 3, 4, 5)
DEG2D = tuple(range(1, 11))
DEG1D = tuple(range(0, 26))
TOL_SHAPE = (1, 10 ** 11)     # 1e-11
TOL_TRI_RT = (1, 10 ** 14)    # runtime (binary64) triangle tables: 1e-14
TOL_G1D = (1, 10 ** 13)       # 1e-13
TOL_FACE = (1, 10 ** 13)
TOL_LOB = (1, 10 ** 13)    # symmetry of the 1-D node sets
BOUND_LEB = (2, 1)         # Lebesgue sums of the 1-D shape tables at the 1-D rule points: sum_a |N_a(s_q)| <= 2


# ----------------------------------------------------------------------------- helpers

def sn(x):
    m, e = C.f2me(float(x))
    if e in (7777, 7778):
        raise ValueError('non-finite table entry %r' % x)
    return '(%d, %d)' % (m, e) if m >= 0 and e >= 0 else '((%d), (%d))' % (m, e)


def snl(xs):
    return '[' + '; '.join(sn(x) for x in xs) + ']'


def sn2(p):
    return '(%s, %s)' % (sn(p[0]), sn(p[1]))


def natl(xs):
    return '[' + '; '.join('%d' % int(x) for x in xs) + ']%nat'


def digest(*arrays):
    import numpy as onp
    h = hashlib.sha256()
    for a in arrays:
        a = onp.ascontiguousarray(onp.asarray(a, dtype=onp.float64))
        h.update(str(a.shape).encode())
        h.update(a.tobytes())
    return h.hexdigest()[:16]


CERT_HEAD = ('From Coq Require Import ZArith List Lia.\nImport ListNotations.\n'
             'From OV.model Require Import M_C03.\nFrom OV.proofs Require Import L_C03sn L_C03cert L_C03lift.\n'
             'Local Open Scope Z_scope.\nLemma two_le_two : 2 <= 2. Proof. lia. Qed.\n')


class Tables:
    """every runtime table of the configuration set, obtained by calling the implementation's constructors"""

    def __init__(self):
        import numpy as onp
        import optimism  # noqa: F401
        from optimism import Interpolants as I, QuadratureRule as Q
        self.onp = onp
        A = lambda a: onp.asarray(a, dtype=onp.float64)
        self.rule2d = {}
        for d in DEG2D:
            qr = Q.create_quadrature_rule_on_triangle(d)
            self.rule2d[d] = (A(qr.xigauss), A(qr.wgauss))
        self.rule1d = {}
        for d in DEG1D:
            qr = Q.create_quadrature_rule_1D(d)
            self.rule1d[d] = (A(qr.xigauss), A(qr.wgauss))
        self.el2d, self.el1d, self.lob = {}, {}, {}
        self.shapes2d, self.shapes1d = {}, {}
        for p in ORDERS:
            self.lob[p] = A(I.get_lobatto_nodes_1d(p))
            e1 = I.make_parent_element_1d(p)
            self.el1d[p] = dict(obj=e1, coords=A(e1.coordinates), vertexNodes=[int(i) for i in e1.vertexNodes],
                                interiorNodes=[int(i) for i in e1.interiorNodes])
            for d in DEG1D:
                sh = I.compute_shapes(e1, self.rule1d[d][0])
                self.shapes1d[(p, d)] = (A(sh.values), A(sh.gradients))    # [nNodes, nPts]
            for bub in (False, True):
                el = I.make_parent_element_2d_with_bubble(p) if bub else I.make_parent_element_2d(p)
                self.el2d[(p, bub)] = dict(obj=el, coords=A(el.coordinates), vertexNodes=[int(i) for i in el.vertexNodes],
                                           faceNodes=[[int(i) for i in r] for r in onp.asarray(el.faceNodes)],
                                           interiorNodes=[int(i) for i in el.interiorNodes], degree=int(el.degree))
                for d in DEG2D:
                    sh = I.compute_shapes(el, self.rule2d[d][0])
                    self.shapes2d[(p, bub, d)] = (A(sh.values), A(sh.gradients))   # [nq, nn], [nq, nn, 2]


QED = 'Proof. vm_cast_no_check (@eq_refl bool true). Qed.'     # one VM evaluation, checked by the kernel at Qed


def _chunks(seq, n):
    return [seq[i:i + n] for i in range(0, len(seq), n)]


def cert_files(T):
    """-> (files, cfgmap): certificate files covering the complete configuration set.  Identical tables (the same rule
    serves several degrees) are certified once; cfgmap records configuration -> certificate(s)."""
    files = []
    cfgmap = {}
    # --- runtime triangle rules, degree 1..10 (binary64 values of the tables)
    for grp in ((1, 2, 3, 4, 5, 6), (7, 8), (9, 10)):
        body = [CERT_HEAD]
        name = 'cert_C03_tri_%d' % grp[0]
        for d in grp:
            xi, w = T.rule2d[d]
            body.append('Definition pts_%d : list (sn * sn) := [%s].' % (d, '; '.join(sn2(p) for p in xi)))
            body.append('Definition ws_%d : list sn := %s.' % (d, snl(w)))
            body.append('Example tri_rt_%d : tri_rule_ok 2 %d pts_%d ws_%d %d %d = true.\n%s' % ((d, d, d, d) + TOL_TRI_RT + (QED,)))
            body.append('Definition tri_rt_%d_meaning := tri_rule_ok_sound 2 two_le_two %d pts_%d ws_%d %d %d eq_refl tri_rt_%d.' % ((d, d, d, d) + TOL_TRI_RT + (d,)))
            cfgmap['tri2d:d=%d' % d] = name
        files.append((name, '\n'.join(body) + '\n', dict(kind='tri', configs=len(grp))))
    # --- 1-D rules 0..25
    for ds in ([d for d in DEG1D if d < 12], [12, 13, 14, 15], [16, 17, 18], [19, 20, 21], [22, 23], [24, 25]):
        body = [CERT_HEAD]
        name = 'cert_C03_g1d_%d' % ds[0]
        for d in ds:
            x, w = T.rule1d[d]
            body.append('Definition xs_%d : list sn := %s.\nDefinition ws_%d : list sn := %s.' % (d, snl(x), d, snl(w)))
            body.append('Example g1d_%d : gauss1d_ok 2 %d xs_%d ws_%d %d %d = true.\n%s' % ((d, d, d, d) + TOL_G1D + (QED,)))
            body.append('Definition g1d_%d_meaning := gauss1d_ok_sound 2 two_le_two %d xs_%d ws_%d %d %d eq_refl g1d_%d.' % ((d, d, d, d) + TOL_G1D + (d,)))
            cfgmap['gauss1d:d=%d' % d] = name
        files.append((name, '\n'.join(body) + '\n', dict(kind='g1d', configs=len(ds))))
    # --- 2-D shape tables per (order, bubble): nodes, record lists per distinct rule table, split into chunks of points
    for (p, bub), el in sorted(T.el2d.items()):
        tag = 'p%d%s' % (p, 'b' if bub else '')
        nn = len(el['coords'])
        unit = nn * ((p + 1) * (p + 2) // 2)
        per_chunk = max(1, 2500 // unit)
        head = [CERT_HEAD, 'Definition nodes : list (sn * sn) := [%s].' % '; '.join(sn2(c) for c in el['coords'])]
        chunks = []      # (label, text, work)
        seen = {}
        for d in DEG2D:
            xi, _ = T.rule2d[d]
            N, G = T.shapes2d[(p, bub, d)]
            key = digest(xi, N, G)
            if key not in seen:
                k = len(seen)
                recs = ['(%s, (%s, (%s, %s)))' % (sn2(xi[q]), snl(N[q]), snl(G[q, :, 0]), snl(G[q, :, 1])) for q in range(len(xi))]
                labels = []
                for c, rs in enumerate(_chunks(recs, per_chunk)):
                    lab = '%d_%d' % (k, c)
                    txt = ('Definition q_%s : list qrec := [%s].\n' % (lab, ';\n  '.join(rs))
                           + 'Example sh_%s : shapes_ok 2 %d nodes q_%s %d %d = true.\n%s\n' % ((lab, p, lab) + TOL_SHAPE + (QED,))
                           + 'Definition sh_%s_meaning := shapes_ok_sound 2 two_le_two %d nodes q_%s %d %d eq_refl sh_%s.\n' % ((lab, p, lab) + TOL_SHAPE + (lab,))
                           # the certified identities are exactly the hypothesis of the lifting theorems: instantiate one for every element
                           + 'Definition sh_%s_lifted := fun v0 v1 v2 q N Gx Gy (H : In (q, (N, (Gx, Gy))) q_%s) =>\n'
                             '  lift_partition_of_unity v0 v1 v2 _ _ _ _ _ _ _ (sh_%s_meaning q N Gx Gy H).' % (lab, lab, lab))
                    chunks.append((lab, txt, len(rs) * unit))
                    labels.append(lab)
                seen[key] = labels
            cfgmap['shapes2d:p=%d,bubble=%s,d=%d' % (p, bub, d)] = 'cert_C03_sh_%s#sh_{%s}' % (tag, ','.join(seen[key]))
        faces = ['Definition nodes1 : list sn := %s.' % snl(T.el1d[p]['coords']),
                 'Example faces : faces_ok 2 nodes %s [%s] nodes1 %d %d = true.\n%s' % (
                     (natl(el['vertexNodes']), '; '.join(natl(r) for r in el['faceNodes'])) + TOL_FACE + (QED,)),
                 'Definition faces_meaning := faces_ok_sound 2 two_le_two nodes _ _ nodes1 %d %d eq_refl faces.' % TOL_FACE]
        cfgmap['faces:p=%d,bubble=%s' % (p, bub)] = 'cert_C03_sh_%s#faces' % tag
        shards, cur, work = [], [], 0
        for lab, txt, wk in chunks:
            if cur and work + wk > 8000:
                shards.append(cur)
                cur, work = [], 0
            cur.append(txt)
            work += wk
        shards.append(cur)
        for si, sh in enumerate(shards):
            body = head + sh + (faces if si == 0 else [])
            files.append(('cert_C03_sh_%s_%d' % (tag, si), '\n'.join(body) + '\n',
                          dict(kind='shapes2d', configs=(len(DEG2D) + 1) if si == 0 else 0, distinct=len(seen))))
    # --- 1-D shape tables and node sets per order
    for p in ORDERS:
        body = [CERT_HEAD, 'From OV.proofs Require Import L_C03edge.']
        e1 = T.el1d[p]
        body.append('Definition nodes1 : list sn := %s.' % snl(e1['coords']))
        body.append('Definition lobatto : list sn := %s.' % snl(T.lob[p]))
        for nm in ('nodes1', 'lobatto'):
            body.append('Example %s_ok : nodes1d_ok 2 %d %s %d %d = true.\n%s' % ((nm, p, nm) + TOL_LOB + (QED,)))
            body.append('Definition %s_meaning := nodes1d_ok_sound 2 two_le_two %d %s %d %d eq_refl %s_ok.' % ((nm, p, nm) + TOL_LOB + (nm,)))
        if e1['vertexNodes'] != [0, p] or e1['interiorNodes'] != list(range(1, p)):
            body.append('Example vertex_nodes_1d_unexpected : false = true. Proof. reflexivity. Qed.')
        seen = {}
        for d in DEG1D:
            x, _ = T.rule1d[d]
            N, dN = T.shapes1d[(p, d)]
            key = digest(x, N, dN)
            if key not in seen:
                k = len(seen)
                seen[key] = k
                recs = ['(%s, (%s, %s))' % (sn(x[q]), snl(N[:, q]), snl(dN[:, q])) for q in range(len(x))]
                body.append('Definition q_%d : list qrec1 := [%s].' % (k, ';\n  '.join(recs)))
                body.append('Example sh_%d : shapes1d_ok 2 %d nodes1 q_%d %d %d = true.\n%s' % ((k, p, k) + TOL_SHAPE + (QED,)))
                body.append('Definition sh_%d_meaning := shapes1d_ok_sound 2 two_le_two %d nodes1 q_%d %d %d eq_refl sh_%d.' % ((k, p, k) + TOL_SHAPE + (k,)))
                # Lebesgue sums sum_a |N_a(s_q)| <= 2 (hypothesis Lam of C03_edge_flux_impl_points)
                body.append('Example leb_%d : lebesgue1_ok 2 q_%d %d %d = true.\n%s' % ((k, k) + BOUND_LEB + (QED,)))
                body.append('Definition leb_%d_meaning := lebesgue1_ok_sound_b2 q_%d %d %d eq_refl leb_%d.' % ((k, k) + BOUND_LEB + (k,)))
            cfgmap['shapes1d:p=%d,d=%d' % (p, d)] = 'cert_C03_s1_p%d#sh_%d' % (p, seen[key])
            cfgmap['lebesgue1d:p=%d,d=%d' % (p, d)] = 'cert_C03_s1_p%d#leb_%d' % (p, seen[key])
        cfgmap['nodes1d:p=%d' % p] = 'cert_C03_s1_p%d#nodes1_ok,lobatto_ok' % p
        files.append(('cert_C03_s1_p%d' % p, '\n'.join(body) + '\n', dict(kind='shapes1d', configs=len(DEG1D) + 1, distinct=len(seen))))
    return files, cfgmap


def run_certs(ctx, files, jobs=12, timeout=600):
    os.makedirs(C.RUN, exist_ok=True)
    paths = []
    for name, text, meta in files:
        path = os.path.join(C.RUN, '%s_%d.v' % (name, os.getpid()))
        with open(path, 'w') as fh:
            fh.write(text)
        paths.append(path)

    def one(path):
        return C.coqc(path, timeout)

    with ThreadPoolExecutor(max_workers=jobs) as ex:
        outs = list(ex.map(one, paths))
    res = []
    for (name, text, meta), path, (rc, out, dt) in zip(files, paths, outs):
        res.append(dict(name=name, ok=(rc == 0), seconds=round(dt, 1), bytes=len(text), out=out[-1500:] if rc else '', **meta))
        for ext in ('.v', '.vo', '.vok', '.vos', '.glob'):
            try:
                os.remove(path[:-2] + ext)
            except OSError:
                pass
        try:
            os.remove(os.path.join(C.RUN, '.' + os.path.basename(path)[:-2] + '.aux'))
        except OSError:
            pass
    return res


# ----------------------------------------------------------------------------- exact integrals (Python integers / Fractions)

def _pmul(a, b):
    out = {}
    for (r1, s1), c1 in a.items():
        for (r2, s2), c2 in b.items():
            k = (r1 + r2, s1 + s2)
            out[k] = out.get(k, 0) + c1 * c2
    return out


_FACT = [math.factorial(n) for n in range(64)]


class ExactTri:
    """exact integrals of monomials over a triangle whose vertices are binary64 numbers (affine pull-back to the
    reference triangle, int xi^r eta^s = r! s!/(r+s+2)!), all in integers over a common power-of-two scale"""

    def __init__(self, v0, v1, v2):
        fr = [Fr(float(c)) for v in (v0, v1, v2) for c in v]
        den = 1
        for f in fr:
            den = max(den, f.denominator)
        self.den = den                    # power of two
        x0, y0, x1, y1, x2, y2 = [int(f * den) for f in fr]
        self.lx = {(0, 0): x2, (1, 0): x0 - x2, (0, 1): x1 - x2}
        self.ly = {(0, 0): y2, (1, 0): y0 - y2, (0, 1): y1 - y2}
        self.jac = (x1 - x0) * (y2 - y0) - (y1 - y0) * (x2 - x0)      # times den^2
        self.px = [{(0, 0): 1}]
        self.py = [{(0, 0): 1}]

    def _pow(self, tab, lin, n):
        while len(tab) <= n:
            tab.append(_pmul(tab[-1], lin))
        return tab[n]

    def pullback(self, i, j):
        return _pmul(self._pow(self.px, self.lx, i), self._pow(self.py, self.ly, j))      # coefficients times den^(i+j)

    def integral(self, i, j):
        """int_T x^i y^j dA  (signed with the orientation of the vertices) as a Fraction"""
        P = self.pullback(i, j)
        s = Fr(0)
        for (r, t), c in P.items():
            s += Fr(c * _FACT[r] * _FACT[t], _FACT[r + t + 2])
        return s * self.jac / Fr(self.den) ** (i + j + 2)

    def norm1(self, i, j):
        P = self.pullback(i, j)
        return float(Fr(sum(abs(c) for c in P.values()), self.den ** (i + j)))


# ----------------------------------------------------------------------------- meshes

MESH_KINDS = ('delaunay', 'graded', 'rotated', 'anisotropic', 'structured')


def make_simplex_mesh(kind, mseed):
    """seeded random triangulation -> (coords float64 [n,2], conns int [ne,3]); counter-clockwise elements with a random
    cyclic rotation of the vertex order of every element"""
    import random
    import numpy as onp
    from scipy.spatial import Delaunay
    r = random.Random(mseed)
    if kind == 'structured':
        nx, ny = r.randrange(2, 5), r.randrange(2, 5)
        xs = sorted([0.0, 1.0] + [r.uniform(0.05, 0.95) for _ in range(nx - 1)])
        ys = sorted([0.0, 1.0] + [r.uniform(0.05, 0.95) for _ in range(ny - 1)])
        pts = onp.array([[x, y] for y in ys for x in xs])
    else:
        n = r.randrange(5, 14)
        if kind == 'graded':
            pts = [[r.random() ** 3, r.random() ** 3] for _ in range(n)]
        else:
            pts = [[r.random(), r.random()] for _ in range(n)]
        pts += [[0.0, 0.0], [1.0, 0.0], [1.0, 1.0], [0.0, 1.0]]
        pts = onp.array(pts)
    tri = Delaunay(pts)
    conns = onp.array(tri.simplices, dtype=int)
    # drop slivers of (numerically) zero area, orient counter-clockwise
    keep = []
    for c in conns:
        a, b, d = pts[c[0]], pts[c[1]], pts[c[2]]
        j = (b[0] - a[0]) * (d[1] - a[1]) - (b[1] - a[1]) * (d[0] - a[0])
        if abs(j) < 1e-9:
            continue
        if j < 0:
            c = c[[0, 2, 1]]
        k = r.randrange(3)
        keep.append(onp.roll(c, k))
    conns = onp.array(keep, dtype=int)
    used = onp.unique(conns.ravel())
    remap = -onp.ones(len(pts), dtype=int)
    remap[used] = onp.arange(len(used))
    pts, conns = pts[used], remap[conns]
    if kind in ('rotated', 'anisotropic'):
        th = r.uniform(0, 2 * math.pi)
        sx, sy = (1.0, 1.0) if kind == 'rotated' else (10.0 ** r.uniform(-2, 2), 10.0 ** r.uniform(-2, 2))
        R = onp.array([[math.cos(th), -math.sin(th)], [math.sin(th), math.cos(th)]])
        pts = (pts * onp.array([sx, sy])) @ R.T + onp.array([r.uniform(-3, 3), r.uniform(-3, 3)])
    if kind != 'graded' and r.random() < 0.5:
        pts = pts + onp.array([r.uniform(0.5, 4.0), r.uniform(-2, 2)])      # keep away from r = 0 sometimes
    return onp.ascontiguousarray(pts, dtype=onp.float64), conns


def build_fs(coords, conns, order, bubble, degree, mode):
    import jax.numpy as jnp
    from optimism import FunctionSpace, Mesh, QuadratureRule
    blocks = {'block': jnp.arange(conns.shape[0])}
    mesh = Mesh.construct_mesh_from_basic_data(jnp.asarray(coords), jnp.asarray(conns), blocks)
    if order > 1 or bubble:
        mesh = Mesh.create_higher_order_mesh_from_simplex_mesh(mesh, order, useBubbleElement=bubble) if order > 1 else mesh
    qr = QuadratureRule.create_quadrature_rule_on_triangle(degree)
    fs = FunctionSpace.construct_function_space(mesh, qr, mode2D=mode)
    return mesh, qr, fs


EPS_L2 = 2e-10     # certified table tolerance 1e-11 plus head-room for binary64 rounding of the mapped quantities


def l2_case(case):
    """evaluate the conclusions of the lifting theorems on the implementation's FunctionSpace for one seeded mesh
    configuration; returns (list of violated clauses, number of evaluations, stats)"""
    import numpy as onp
    import jax.numpy as jnp
    from optimism import FunctionSpace, Mesh, QuadratureRule
    import random
    kind, mseed, p, bub, d, mode = case['kind'], case['mseed'], case['order'], case['bubble'], case['degree'], case['mode']
    r = random.Random(mseed ^ 0x5EED)
    coords, conns = make_simplex_mesh(kind, mseed)
    mesh, qr, fs = build_fs(coords, conns, p, bub, d, mode)
    X = onp.asarray(mesh.coords, dtype=onp.float64)
    cn = onp.asarray(mesh.conns)
    vn = onp.asarray(mesh.parentElement.vertexNodes)
    ne = cn.shape[0]
    xi = onp.asarray(qr.xigauss, dtype=onp.float64)
    w = onp.asarray(qr.wgauss, dtype=onp.float64)
    shapes = onp.asarray(fs.shapes)
    sg = onp.asarray(fs.shapeGrads)
    vols = onp.asarray(fs.vols)
    bad = []
    nev = 0
    V = X[cn[:, vn]]                                   # [ne, 3, 2] vertex coordinates v0, v1, v2
    # the simplex vertices must be the ones we passed in (elevation keeps them)
    if not onp.array_equal(V, coords[conns]):
        bad.append('vertex nodes of the elevated mesh are not the simplex vertices')
    a1, b1 = V[:, 0, 0] - V[:, 2, 0], V[:, 0, 1] - V[:, 2, 1]
    a2, b2 = V[:, 1, 0] - V[:, 2, 0], V[:, 1, 1] - V[:, 2, 1]
    jac = a1 * b2 - a2 * b1
    Kx = (onp.abs(b2) + onp.abs(b1)) / onp.abs(jac)
    Ky = (onp.abs(a1) + onp.abs(a2)) / onp.abs(jac)
    cx = onp.abs(V[:, 2, 0]) + onp.abs(a1) + onp.abs(a2)       # 1-norm of the pulled-back coordinate functions
    cy = onp.abs(V[:, 2, 1]) + onp.abs(b1) + onp.abs(b2)
    # physical quadrature points X(xi_q) = v2 + (v0 - v2) xi + (v1 - v2) eta
    Xq = V[:, None, 2, :] + xi[None, :, 0, None] * (V[:, None, 0, :] - V[:, None, 2, :]) + xi[None, :, 1, None] * (V[:, None, 1, :] - V[:, None, 2, :])
    # nodes are the affine images of the reference nodes (premise of the lifting theorems; C13 owns the clause, checked here as a guard)
    ref = onp.asarray(mesh.parentElement.coordinates, dtype=onp.float64)
    Xn = V[:, None, 2, :] + ref[None, :, 0, None] * (V[:, None, 0, :] - V[:, None, 2, :]) + ref[None, :, 1, None] * (V[:, None, 1, :] - V[:, None, 2, :])
    scale = onp.abs(V).max()
    if onp.abs(Xn - X[cn]).max() > 1e-12 * max(1.0, scale):
        bad.append('element nodes are not the affine images of the reference nodes (max dev %.3g)' % onp.abs(Xn - X[cn]).max())
    # (a) partition of unity, gradient sums
    e = onp.abs(shapes.sum(axis=2) - 1.0).max()
    nev += shapes.shape[0] * shapes.shape[1]
    if not e <= EPS_L2:
        bad.append('shape functions do not sum to one: max error %.3g' % e)
    gs = sg.sum(axis=2)                                # [ne, nq, 2]
    ex_ = (onp.abs(gs[:, :, 0]) / Kx[:, None]).max()
    ey_ = (onp.abs(gs[:, :, 1]) / Ky[:, None]).max()
    if not max(ex_, ey_) <= EPS_L2:
        bad.append('mapped shape gradients do not sum to zero: scaled error %.3g' % max(ex_, ey_))
    # (b, c) interpolation and gradients of monomial fields of degree <= p
    monos = [(i, j) for i in range(p + 1) for j in range(p + 1 - i)]
    Uall = onp.stack([X[:, 0] ** i * X[:, 1] ** j for (i, j) in monos], axis=1)          # one nodal field per monomial
    Uq_all = onp.asarray(FunctionSpace.interpolate_to_points(fs, jnp.asarray(Uall)))        # [ne, nq, nmono]
    Gq_all = onp.asarray(FunctionSpace.compute_field_gradient(fs, jnp.asarray(Uall)))       # [ne, nq, nmono, 2]
    for m, (i, j) in enumerate(monos):
        Uq = Uq_all[:, :, m]
        Gq = Gq_all[:, :, m, :]
        C = (cx ** i * cy ** j)[:, None]
        f = Xq[:, :, 0] ** i * Xq[:, :, 1] ** j
        fxv = i * Xq[:, :, 0] ** max(i - 1, 0) * Xq[:, :, 1] ** j if i > 0 else 0 * f
        fyv = j * Xq[:, :, 0] ** i * Xq[:, :, 1] ** max(j - 1, 0) if j > 0 else 0 * f
        nev += 3 * f.size
        e0 = (onp.abs(Uq - f) / C).max()
        e1 = (onp.abs(Gq[:, :, 0] - fxv) / (Kx[:, None] * C)).max()
        e2 = (onp.abs(Gq[:, :, 1] - fyv) / (Ky[:, None] * C)).max()
        if not e0 <= EPS_L2:
            bad.append('interpolation of x^%d y^%d not exact: scaled error %.3g' % (i, j, e0))
        if not max(e1, e2) <= EPS_L2:
            bad.append('gradient of interpolated x^%d y^%d not exact: scaled error %.3g' % (i, j, max(e1, e2)))
    # (d, e, f) integrals of monomials of degree <= d (cartesian) / <= d - 1 (axisymmetric) against exact rational values
    ex = [ExactTri(V[k, 0], V[k, 1], V[k, 2]) for k in range(ne)]
    state = jnp.zeros((ne, len(w), 1))
    Udummy = jnp.zeros(X.shape[0])
    dmax = d if mode == 'cartesian' else d - 1
    cand = [(i, j) for i in range(dmax + 1) for j in range(dmax + 1 - i)]
    chosen = [(0, 0)] + ([m for m in cand if sum(m) == dmax][:1]) + (r.sample(cand, min(3, len(cand))) if cand else [])
    if mode == 'cartesian':
        area = sum(Fr(t.jac, 2 * t.den ** 2) for t in ex)
        got = float(vols.sum())
        tol = EPS_L2 * float(sum(abs(Fr(t.jac, t.den ** 2)) for t in ex))
        nev += 1
        if not abs(got - float(area)) <= tol:
            bad.append('quadrature-point volumes sum to %r, exact area %r' % (got, float(area)))
        if not (vols > 0).all():
            bad.append('non-positive quadrature-point volume on a counter-clockwise mesh')
    for (i, j) in dict.fromkeys(chosen):
        func = (lambda u, gu, s, x, dt, i=i, j=j: x[0] ** i * x[1] ** j)
        got = float(FunctionSpace.integrate_over_block(fs, Udummy, state, 0.0, func, mesh.blocks['block']))
        if mode == 'cartesian':
            exact = sum(t.integral(i, j) for t in ex)
            bound = sum(abs(float(Fr(t.jac, t.den ** 2))) * t.norm1(i, j) for t in ex)
            fac = 1.0
        else:
            exact = sum(t.integral(i + 1, j) for t in ex)
            bound = sum(abs(float(Fr(t.jac, t.den ** 2))) * t.norm1(i + 1, j) for t in ex)
            fac = 2 * math.pi
        nev += 1
        if not abs(got - fac * float(exact)) <= fac * EPS_L2 * bound:
            bad.append('%s integral of x^%d y^%d over the mesh = %r, exact %r (tolerance %.3g)' % (mode, i, j, got, fac * float(exact), fac * EPS_L2 * bound))
    # (h) integrate_over_block on a proper, non-prefix subset of the elements; states and per-element parameters reach the integrand
    def exact_mono(t, i, j):
        return (t.integral(i, j), abs(float(Fr(t.jac, t.den ** 2))) * t.norm1(i, j)) if mode == 'cartesian' else \
               (t.integral(i + 1, j), abs(float(Fr(t.jac, t.den ** 2))) * t.norm1(i + 1, j))
    fac = 1.0 if mode == 'cartesian' else 2 * math.pi
    if ne >= 2 and cand:
        ksub = r.randrange(1, ne)
        sub = sorted(r.sample(range(ne), ksub))
        if sub == list(range(ksub)):
            sub = list(range(ne - ksub, ne))
        (i, j) = r.choice(cand)
        func = (lambda u, gu, s, x, dt, i=i, j=j: x[0] ** i * x[1] ** j)
        got = float(FunctionSpace.integrate_over_block(fs, Udummy, state, 0.0, func, jnp.asarray(sub)))
        exact = sum(exact_mono(ex[e_], i, j)[0] for e_ in sub)
        bound = sum(exact_mono(ex[e_], i, j)[1] for e_ in sub)
        nev += 1
        if not abs(got - fac * float(exact)) <= fac * EPS_L2 * bound:
            bad.append('%s integral of x^%d y^%d over the element subset %r = %r, exact %r' % (mode, i, j, sub, got, fac * float(exact)))
        # per-element parameter field
        cpar = onp.array([r.choice([0.0, 1.0, r.uniform(-2, 2)]) for _ in range(ne)])
        func = (lambda u, gu, s, x, dt, c, i=i, j=j: c * x[0] ** i * x[1] ** j)
        got = float(FunctionSpace.integrate_over_block(fs, Udummy, state, 0.0, func, mesh.blocks['block'], jnp.asarray(cpar)))
        exact = sum(Fr(float(cpar[e_])) * exact_mono(ex[e_], i, j)[0] for e_ in range(ne))
        bound = sum(abs(float(cpar[e_])) * exact_mono(ex[e_], i, j)[1] for e_ in range(ne))
        nev += 1
        if not abs(got - fac * float(exact)) <= fac * EPS_L2 * bound + 1e-300:
            bad.append('%s integral with a per-element parameter field: %r, exact %r' % (mode, got, fac * float(exact)))
    # state variables: the value at every quadrature point of every element reaches the integrand
    stR = onp.array([[[r.uniform(-1, 1)] for _ in range(len(w))] for _ in range(ne)])
    got = float(FunctionSpace.integrate_over_block(fs, Udummy, jnp.asarray(stR), 0.0, (lambda u, gu, s, x, dt: s[0]), mesh.blocks['block']))
    want = float((vols * stR[:, :, 0]).sum())
    nev += 1
    if not abs(got - want) <= 1e-12 * float(onp.abs(vols).sum()):
        bad.append('integral of the state variable field is %r, sum of vols*state is %r' % (got, want))
    # (i) the primal field and its gradient reach the integrand: int (U_0 + dU_1/dx) with polynomial nodal fields of degree <= min(p, dmax)
    km = min(p, dmax)
    if km >= 0:
        a_ = r.randrange(0, km + 1); b_ = r.randrange(0, km + 1 - a_)
        c_ = r.randrange(0, km + 1); e2 = r.randrange(0, km + 1 - c_)
        U2 = onp.stack([X[:, 0] ** a_ * X[:, 1] ** b_, X[:, 0] ** c_ * X[:, 1] ** e2], axis=1)
        func = (lambda u, gu, s, x, dt: u[0] + gu[1, 0])
        got = float(FunctionSpace.integrate_over_block(fs, jnp.asarray(U2), state, 0.0, func, mesh.blocks['block']))
        exact = Fr(0)
        bound = 0.0
        for t in ex:
            v_, b0 = exact_mono(t, a_, b_)
            exact += v_
            bound += b0
            if c_ > 0:
                v_, b0 = exact_mono(t, c_ - 1, e2)
                exact += c_ * v_
                bound += c_ * b0 * float((Kx * onp.abs(jac)).max() + 1.0)
        nev += 1
        if not abs(got - fac * float(exact)) <= fac * EPS_L2 * 4 * bound + 1e-300:
            bad.append('%s integral of U_0 + dU_1/dx with U = (x^%d y^%d, x^%d y^%d): %r, exact %r (tol %.3g)' % (mode, a_, b_, c_, e2, got, fac * float(exact), fac * EPS_L2 * 4 * bound))
    # (j) projection of a quadrature field to element averages (volume-weighted): independent evaluation, and exact for polynomials
    if cand:
        (i, j) = r.choice(cand)
        qf = Xq[:, :, 0] ** i * Xq[:, :, 1] ** j
        qf2 = onp.stack([qf, 2.0 - qf], axis=2)
        got = onp.asarray(FunctionSpace.project_quadrature_field_to_element_field(fs, jnp.asarray(qf)))
        got2 = onp.asarray(FunctionSpace.project_quadrature_field_to_element_field(fs, jnp.asarray(qf2)))
        want = (vols * qf).sum(axis=1) / vols.sum(axis=1)
        nev += 2 * ne
        scq = float(onp.abs(qf).max()) + 1.0
        if not onp.abs(got - want).max() <= 1e-11 * scq or not onp.abs(got2[:, 0] - want).max() <= 1e-11 * scq or not onp.abs(got2[:, 1] - (2.0 - want)).max() <= 1e-11 * scq:
            bad.append('project_quadrature_field_to_element_field is not the volume-weighted element average (max dev %.3g)' % float(onp.abs(got - want).max()))
        if mode == 'cartesian':
            for e_ in range(ne):
                exact_avg = ex[e_].integral(i, j) / ex[e_].integral(0, 0)
                if not abs(got[e_] - float(exact_avg)) <= 4 * EPS_L2 * ex[e_].norm1(i, j):
                    bad.append('element average of x^%d y^%d on element %d is %r, exact %r' % (i, j, e_, float(got[e_]), float(exact_avg)))
                    break
    # (g) divergence theorem on the boundary: sum_edges int F.n ds = sum_elements int div F dA,  F = (x^a y^b, x^c y^e)
    if mode == 'cartesian':
        d1 = case['degree1d']
        qr1 = QuadratureRule.create_quadrature_rule_1D(d1)
        edgeConns, edges = Mesh.create_edges(onp.asarray(conns))
        bnd = onp.array([[e_[0], e_[1]] for e_ in edges if e_[2] < 0], dtype=int)
        # hypotheses and conclusion of C03_faces_boundary_interior on the implementation's create_edges output:
        # no directed vertex pair twice, no degenerate side, directed element sides = boundary rows + interior rows both ways
        faces = [(int(c[p_]), int(c[(p_ + 1) % 3])) for c in conns for p_ in range(3)]
        if len(set(faces)) != len(faces) or any(a_ == b_ for a_, b_ in faces):
            bad.append('generated mesh is not a consistently oriented manifold triangulation (harness error)')
        rhs = []
        for ec, e_ in zip(onp.asarray(edgeConns), edges):
            rhs.append((int(ec[0]), int(ec[1])))
            if e_[2] >= 0:
                rhs.append((int(ec[1]), int(ec[0])))
        nev += 1
        if sorted(rhs) != sorted(faces):
            bad.append('create_edges: boundary rows plus interior rows in both directions are not the directed sides of the elements (premise of the mesh divergence theorem)')
        if any(tuple(int(x) for x in (conns[e_[0]][e_[1]], conns[e_[0]][(e_[1] + 1) % 3])) != (int(ec[0]), int(ec[1])) for ec, e_ in zip(onp.asarray(edgeConns), edges)):
            bad.append('create_edges: a row does not list the directed side of its left element')
        kmax = min(d1, 6)
        for _ in range(2):
            a, b = r.randrange(0, kmax + 1), 0
            b = r.randrange(0, kmax + 1 - a)
            c = r.randrange(0, kmax + 1)
            e_ = r.randrange(0, kmax + 1 - c)
            func = (lambda u, x, n, a=a, b=b, c=c, e_=e_: x[0] ** a * x[1] ** b * n[0] + x[0] ** c * x[1] ** e_ * n[1])
            got = float(FunctionSpace.integrate_function_on_edges(fs, func, jnp.asarray(X), qr1, jnp.asarray(bnd)))
            exact = Fr(0)
            bound = 0.0
            for t in ex:
                if a > 0:
                    exact += a * t.integral(a - 1, b)
                    bound += a * abs(float(Fr(t.jac, t.den ** 2))) * t.norm1(a - 1, b)
                if e_ > 0:
                    exact += e_ * t.integral(c, e_ - 1)
                    bound += e_ * abs(float(Fr(t.jac, t.den ** 2))) * t.norm1(c, e_ - 1)
            per = float(onp.abs(V[:, 0] - V[:, 1]).sum() + onp.abs(V[:, 1] - V[:, 2]).sum())
            tol = EPS_L2 * (bound + per * (float(cx.max()) ** a * float(cy.max()) ** b + float(cx.max()) ** c * float(cy.max()) ** e_))
            nev += 1
            if not abs(got - float(exact)) <= tol:
                bad.append('divergence theorem fails for F=(x^%d y^%d, x^%d y^%d) with 1-D degree %d: boundary flux %r, exact int div F %r (tol %.3g)' % (a, b, c, e_, d1, got, float(exact), tol))
            # the nodal field interpolated on the edge must be evaluated at the same points as the position:
            # oint u * y * n_x ds = int d(u y)/dx dA  with the nodal field u = x^au y^bu of degree <= min(p, d1 - 1)
            ku = min(p, d1 - 1, 5)
            if ku >= 0:
                au = r.randrange(0, ku + 1); bu = r.randrange(0, ku + 1 - au)
                Uu = X[:, 0] ** au * X[:, 1] ** bu
                funcu = (lambda u, x, n: u * x[1] * n[0])
                gotu = float(FunctionSpace.integrate_function_on_edges(fs, funcu, jnp.asarray(Uu), qr1, jnp.asarray(bnd)))
                exactu, boundu = Fr(0), 0.0
                if au > 0:
                    for t in ex:
                        exactu += au * t.integral(au - 1, bu + 1)
                        boundu += au * abs(float(Fr(t.jac, t.den ** 2))) * t.norm1(au - 1, bu + 1)
                tolu = EPS_L2 * (boundu + per * float(cx.max()) ** au * float(cy.max()) ** (bu + 1))
                nev += 1
                if not abs(gotu - float(exactu)) <= tolu:
                    bad.append('edge integral of (interpolated nodal field u = x^%d y^%d) * y * n_x with 1-D degree %d: %r, exact %r (tol %.3g)' % (au, bu, d1, gotu, float(exactu), tolu))
            if True:
                # Surface.integrate_function_on_surface only reads the vertex connectivity: evaluated on the straight-sided simplex mesh
                # of EVERY cartesian case (all mesh kinds, in particular rotated ones whose boundary edges are not axis aligned)
                from optimism import Surface
                mesh1 = mesh if (p == 1 and not bub) else Mesh.construct_mesh_from_basic_data(jnp.asarray(coords), jnp.asarray(conns), {'block': jnp.arange(conns.shape[0])})
                _, edges1 = Mesh.create_edges(onp.asarray(conns))
                bnd1 = onp.array([[e1_[0], e1_[1]] for e1_ in edges1 if e1_[2] < 0], dtype=int)
                f2 = (lambda x, n, a=a, b=b, c=c, e_=e_: x[0] ** a * x[1] ** b * n[0] + x[0] ** c * x[1] ** e_ * n[1])
                got2 = float(Surface.integrate_function_on_surface(qr1, jnp.asarray(bnd1), mesh1, f2))
                nev += 1
                if not abs(got2 - float(exact)) <= tol:
                    bad.append('divergence theorem (Surface.integrate_function_on_surface) fails for F=(x^%d y^%d, x^%d y^%d), 1-D degree %d: %r vs %r' % (a, b, c, e_, d1, got2, float(exact)))
        # (g') conclusions of C03_edge_point_distance and of the perturbation bound behind C03_edge_flux_impl_points on the
        # implementation's OWN edge points and edge sums, for a sample of boundary edges: X_q = edgeShapes^T @ edgeCoords must lie
        # within  delta * Lam_q + eps_s * emax  of  A + s_q t  (delta: measured placement error of the edge nodes, Lam_q: sum_a |N_a(s_q)|
        # of the implementation's 1-D tables, eps_s = 1e-11 the certified table tolerance), and the edge sum within
        # (1 + eps_q) * lip_term of the same sum at the exact points
        from optimism import Interpolants
        U64 = 2.0 ** -52
        e1 = mesh.parentElement1d
        sig = onp.asarray(e1.coordinates, dtype=onp.float64)
        s1 = onp.asarray(qr1.xigauss, dtype=onp.float64)
        w1 = onp.asarray(qr1.wgauss, dtype=onp.float64)
        N1 = onp.asarray(Interpolants.compute_shapes(e1, qr1.xigauss).values, dtype=onp.float64)      # [nn1, nq1]
        Lam = onp.abs(N1).sum(axis=0)
        fnodes = onp.asarray(mesh.parentElement.faceNodes)
        mlip = lambda M, i, j: (i * M ** (i - 1) * M ** j if i else 0.0) + (j * M ** i * M ** (j - 1) if j else 0.0)
        nedge = 0
        eratio = 0.0
        for (el, side) in (r.sample([tuple(int(x) for x in b_) for b_ in bnd], min(4, len(bnd))) if len(bnd) else []):
            A_ = coords[conns[el][side]]
            B_ = coords[conns[el][(side + 1) % 3]]
            t_ = B_ - A_
            Xe = X[cn[el, fnodes[side]]]
            delta = float(onp.abs(Xe - (A_[None, :] + sig[:, None] * t_[None, :])).max())
            emax = max(abs(A_[0]) + abs(t_[0]), abs(A_[1]) + abs(t_[1]))
            Xq_impl = onp.asarray(FunctionSpace.interpolate_nodal_field_on_edge(fs, mesh.coords, qr1.xigauss, (el, side)), dtype=onp.float64)
            Xq_ex = A_[None, :] + s1[:, None] * t_[None, :]
            eta = delta * Lam + 1e-11 * emax
            dev = onp.abs(Xq_impl - Xq_ex).max(axis=1)
            nev += len(s1)
            nedge += 1
            eratio = max(eratio, float((dev / (eta + 16 * U64 * Lam * emax)).max()) if Xq_impl.shape == Xq_ex.shape else float('inf'))
            if Xq_impl.shape != Xq_ex.shape or not (dev <= eta + 16 * U64 * Lam * emax).all():
                bad.append('edge (%d, %d): interpolated edge points deviate from A + s_q t by %.3g, bound delta*Lam + eps_s*emax = %.3g (delta %.3g, 1-D degree %d)' % (
                    el, side, float(dev.max()), float(eta.max()), delta, d1))
                continue
            fe = (lambda u, x, n, a=a, b=b, c=c, e_=e_: x[0] ** a * x[1] ** b * n[0] + x[0] ** c * x[1] ** e_ * n[1])
            got_e = float(FunctionSpace.integrate_function_on_edge(fs, fe, jnp.asarray(X), qr1, (el, side)))
            F1e = Xq_ex[:, 0] ** a * Xq_ex[:, 1] ** b
            F2e = Xq_ex[:, 0] ** c * Xq_ex[:, 1] ** e_
            want_e = float((w1 * F1e).sum() * t_[1] - (w1 * F2e).sum() * t_[0])
            etam = float(eta.max())
            Mb = emax + etam
            lipt = etam * (mlip(Mb, a, b) * abs(t_[1]) + mlip(Mb, c, e_) * abs(t_[0]))
            tol_e = (1 + 1e-13) * lipt + 64 * U64 * float((w1 * (onp.abs(F1e) * abs(t_[1]) + onp.abs(F2e) * abs(t_[0]))).sum()) + 1e-300
            nev += 1
            if not abs(got_e - want_e) <= tol_e:
                bad.append('edge (%d, %d): edge sum for F=(x^%d y^%d, x^%d y^%d) is %r, the sum at the exact edge points %r, Lipschitz bound %.3g' % (
                    el, side, a, b, c, e_, got_e, want_e, tol_e))
    return bad, nev, dict(elements=ne, nodes=int(X.shape[0]), min_jac=float(onp.abs(jac).min()), max_aspect=float((Kx * onp.sqrt(onp.abs(jac))).max()),
                          edge_checks=(nedge if mode == 'cartesian' else 0), edge_ratio=(eratio if mode == 'cartesian' else 0.0))


# ----------------------------------------------------------------------------- L1: geometric kernels, model (binary64) vs implementation

IMPORTS = ['From OV.model Require Import M_C03.']


def _fp(p):
    return '(%s, %s)' % (C.cf(p[0]), C.cf(p[1]))


def _fl(xs):
    return '[' + '; '.join(C.cf(x) for x in xs) + ']'


def l1_cases(ctx):
    import numpy as onp
    r = ctx.rng('l1')
    cases = []
    for k in range(ctx.n(60, 600)):
        p = r.choice([1, 2, 3])
        sc = 10.0 ** r.uniform(-3, 3)
        c0 = (r.uniform(-5, 5) * sc, r.uniform(0.1, 5) * sc)
        ang = r.uniform(0, 2 * math.pi)
        asp = 10.0 ** r.uniform(0, 2)
        v = []
        for t in range(3):
            a = ang + 2 * math.pi * t / 3 + r.uniform(-0.6, 0.6)
            v.append((c0[0] + sc * math.cos(a) * asp, c0[1] + sc * math.sin(a)))
        if r.random() < 0.5:
            v = [v[0], v[2], v[1]]          # clockwise too: the kernels are defined for any orientation
        nq = r.randrange(1, 4)
        cases.append(dict(p=p, v=v, ws=[r.uniform(0.01, 0.5) for _ in range(nq)],
                          dN=[(r.uniform(-8, 8), r.uniform(-8, 8)) for _ in range(2)],
                          extra=[(r.uniform(-5, 5) * sc, r.uniform(-5, 5) * sc) for _ in range(30)],
                          Ns=[[r.uniform(-0.3, 1.0) for _ in range(30)] for _ in range(nq)],
                          edge=[(r.uniform(-5, 5) * sc, r.uniform(-5, 5) * sc), (r.uniform(-5, 5) * sc, r.uniform(-5, 5) * sc)]))
    return cases


def l1_impl(cases):
    import numpy as onp
    import jax.numpy as jnp
    from types import SimpleNamespace
    from optimism import FunctionSpace, Interpolants, Mesh
    pes = {p: Interpolants.make_parent_element_2d(p) for p in (1, 2, 3)}
    pe1 = {p: Interpolants.make_parent_element_1d(p) for p in (1, 2, 3)}
    out = []
    for c in cases:
        pe = pes[c['p']]
        nn = int(pe.coordinates.shape[0])
        vn = [int(i) for i in pe.vertexNodes]
        coords = onp.array(c['extra'][:nn], dtype=onp.float64)
        for k in range(3):
            coords[vn[k]] = c['v'][k]
        conn = jnp.arange(nn)
        nq = len(c['ws'])
        shapes = onp.array([row[:nn] for row in c['Ns']], dtype=onp.float64)
        w = jnp.asarray(onp.array(c['ws']))
        vols = onp.asarray(FunctionSpace.compute_element_volumes(jnp.asarray(coords), conn, pe, jnp.asarray(shapes), w))
        axi = onp.asarray(FunctionSpace.compute_element_volumes_axisymmetric(jnp.asarray(coords), conn, pe, jnp.asarray(shapes), w))
        dN = onp.zeros((1, nn, 2))
        dN[0, 0] = c['dN'][0]
        dN[0, nn - 1] = c['dN'][1]
        sg = onp.asarray(FunctionSpace.map_element_shape_grads(jnp.asarray(coords), conn, pe, jnp.asarray(dN)))
        ec = onp.array(c['extra'][:c['p'] + 1], dtype=onp.float64)
        ec[0], ec[c['p']] = c['edge'][0], c['edge'][1]
        t, n, j = Mesh.compute_edge_vectors(SimpleNamespace(parentElement1d=pe1[c['p']]), jnp.asarray(ec))
        out.append(dict(vols=[float(x) for x in vols], axi=[float(x) for x in axi], xs=[float(x) for x in coords[:, 0]], nn=nn,
                        g=[float(sg[0, 0, 0]), float(sg[0, 0, 1]), float(sg[0, nn - 1, 0]), float(sg[0, nn - 1, 1])],
                        edge=[float(t[0]), float(t[1]), float(n[0]), float(n[1]), float(j)]))
    return out


def l1_exprs(cases, impl):
    ex = []
    for c, o in zip(cases, impl):
        v0, v1, v2 = (_fp(x) for x in c['v'])
        nn = o['nn']
        Ns = '[' + '; '.join(_fl(row[:nn]) for row in c['Ns']) + ']'
        ex.append('fencs (@el_vols float NumF %s %s %s %s ++ @el_vols_axi float NumF %s %s %s %s %s %s %s)' % (
            v0, v1, v2, _fl(c['ws']), C.cf(2 * math.pi), v0, v1, v2, Ns, _fl(o['xs']), _fl(c['ws'])))
        ex.append('let g := @map_grad float NumF %s %s %s %s in let h := @map_grad float NumF %s %s %s %s in fencs [fst g; snd g; fst h; snd h]' % (
            v0, v1, v2, _fp(c['dN'][0]), v0, v1, v2, _fp(c['dN'][1])))
        ex.append("let '(t, n, j) := @edge_vectors float NumF %s %s in fencs [fst t; snd t; fst n; snd n; j]" % (_fp(c['edge'][0]), _fp(c['edge'][1])))
    return ex


def l1_compare(ctx, cases, impl, res):
    U = 2.0 ** -52
    mism = 0
    k = 0

    def chk(name, case, got, want, tol):
        nonlocal mism
        if not (abs(got - want) <= tol):
            mism += 1
            if mism <= 10:
                ctx.fail('correspondence', 'model %s = %r but implementation gives %r (tolerance %.3g) on triangle %r' % (name, got, want, tol, case['v']),
                         case=dict(ckind='l1', fn=name, case=case, model=got, impl=want))

    for c, o in zip(cases, impl):
        (x0, y0), (x1, y1), (x2, y2) = c['v']
        nq = len(c['ws'])
        vals = C.dec_floats(res[k]); k += 1
        mag = abs((x1 - x0) * (y2 - y0)) + abs((y1 - y0) * (x2 - x0))
        for q in range(nq):
            chk('el_vols[%d]' % q, c, vals[q], o['vols'][q], 8 * U * mag * c['ws'][q])
            rmag = sum(abs(a * b) for a, b in zip(c['Ns'][q][:o['nn']], o['xs']))
            chk('el_vols_axi[%d]' % q, c, vals[nq + q], o['axi'][q], 64 * U * 2 * math.pi * rmag * mag * c['ws'][q])
        g = C.dec_floats(res[k]); k += 1
        a1, b1, a2, b2 = x0 - x2, y0 - y2, x1 - x2, y1 - y2
        det = a1 * b2 - a2 * b1
        nJ = math.sqrt(a1 * a1 + b1 * b1 + a2 * a2 + b2 * b2)
        cond = nJ * nJ / abs(det)
        for t in range(2):
            dn = max(abs(c['dN'][t][0]), abs(c['dN'][t][1]))
            tol = 64 * U * cond * dn * nJ / abs(det)
            chk('map_grad.x', c, g[2 * t], o['g'][2 * t], tol)
            chk('map_grad.y', c, g[2 * t + 1], o['g'][2 * t + 1], tol)
        e = C.dec_floats(res[k]); k += 1
        L = math.hypot(c['edge'][1][0] - c['edge'][0][0], c['edge'][1][1] - c['edge'][0][1])
        for t in range(4):
            chk('edge_vectors[%d]' % t, c, e[t], o['edge'][t], 16 * U)
        chk('edge_vectors.jac', c, e[4], o['edge'][4], 16 * U * L)
    ctx.count('model_vs_impl_comparisons', k)
    ctx.count('model_vs_impl_mismatches', mism)


# ----------------------------------------------------------------------------- L1 (round 4): the edge sum, model (binary64) vs implementation

def l1e_cases(ctx):
    r = ctx.rng('l1_edgeflux')
    cases = []
    for k in range(ctx.n(40, 400)):
        sc = 10.0 ** r.uniform(-2, 2)
        c0 = (r.uniform(-3, 3) * sc, r.uniform(-3, 3) * sc)
        ang = r.uniform(0, 2 * math.pi)
        v = []
        for t in range(3):
            a = ang + 2 * math.pi * t / 3 + r.uniform(-0.5, 0.5)
            v.append([c0[0] + sc * math.cos(a) * 10.0 ** r.uniform(0, 1), c0[1] + sc * math.sin(a)])
        a_ = r.randrange(0, 5); b_ = r.randrange(0, 5 - a_)
        c_ = r.randrange(0, 5); e_ = r.randrange(0, 5 - c_)
        cases.append(dict(p=1 + k % 5, v=v, side=r.randrange(3), d1=r.randrange(0, 10), exps=[a_, b_, c_, e_]))
    return cases


def l1e_impl(cases):
    import numpy as onp
    import jax.numpy as jnp
    from types import SimpleNamespace
    from optimism import FunctionSpace, Interpolants, Mesh, QuadratureRule
    out = []
    for c in cases:
        mesh = Mesh.construct_mesh_from_basic_data(jnp.asarray(onp.array(c['v'], dtype=onp.float64)), jnp.asarray([[0, 1, 2]]), {'block': jnp.arange(1)})
        if c['p'] > 1:
            mesh = Mesh.create_higher_order_mesh_from_simplex_mesh(mesh, c['p'])
        qr = QuadratureRule.create_quadrature_rule_1D(c['d1'])
        a, b, cc, e = c['exps']
        func = (lambda u, x, n, a=a, b=b, cc=cc, e=e: x[0] ** a * x[1] ** b * n[0] + x[0] ** cc * x[1] ** e * n[1])
        got = float(FunctionSpace.integrate_function_on_edge(SimpleNamespace(mesh=mesh), func, mesh.coords, qr, (0, c['side'])))
        X = onp.asarray(mesh.coords, dtype=onp.float64)
        en = onp.asarray(mesh.parentElement.faceNodes)[c['side']]
        Xn = X[onp.asarray(mesh.conns)[0, en]]
        N = onp.asarray(Interpolants.compute_shapes(mesh.parentElement1d, qr.xigauss).values, dtype=onp.float64)       # [nn, nq]
        vn1 = [int(i) for i in mesh.parentElement1d.vertexNodes]
        out.append(dict(flux=got, Xn=[[float(x), float(y)] for x, y in Xn], Ns=[[float(x) for x in row] for row in N.T],
                        ws=[float(x) for x in onp.asarray(qr.wgauss)], A=[float(x) for x in Xn[vn1[0]]], B=[float(x) for x in Xn[vn1[1]]]))
    return out


def l1e_exprs(cases, impl):
    ex = []
    for c, o in zip(cases, impl):
        a, b, cc, e = c['exps']
        ex.append('fenc (@edge_flux_sum float NumF (@mono_fn float NumF %d %d) (@mono_fn float NumF %d %d) %s %s [%s] [%s] %s)' % (
            a, b, cc, e, _fp(o['A']), _fp(o['B']), '; '.join(_fp(x) for x in o['Xn']), '; '.join(_fl(row) for row in o['Ns']), _fl(o['ws'])))
    return ex


def l1e_compare(ctx, cases, impl, res):
    U = 2.0 ** -52
    mlip = lambda M, i, j: (i * M ** (i - 1) * M ** j if i else 0.0) + (j * M ** i * M ** (j - 1) if j else 0.0)
    mism = 0
    worst = 0.0
    for c, o, rz in zip(cases, impl, res):
        got = C.dec_floats(rz)[0]
        a, b, cc, e = c['exps']
        M = max(max(abs(x), abs(y)) for x, y in o['Xn'])
        Lam = max(sum(abs(x) for x in row) for row in o['Ns'])
        tx, ty = o['B'][0] - o['A'][0], o['B'][1] - o['A'][1]
        jac = math.hypot(tx, ty)
        nx, ny = abs(ty) / jac, abs(tx) / jac
        # rounding of the expression as written: every product/sum a few ulp of its magnitude; the points X_q carry an absolute error
        # of a few ulp of Lam * M, amplified by the Lipschitz constant of the monomial on the box [-M, M]^2
        tol = 32 * U * jac * sum(abs(w) for w in o['ws']) * ((M ** (a + b) + mlip(M, a, b) * Lam * M) * nx + (M ** (cc + e) + mlip(M, cc, e) * Lam * M) * ny) + 1e-300
        worst = max(worst, abs(got - o['flux']) / tol)
        ctx.count('l1_edgeflux_order_%d' % c['p'])
        if not abs(got - o['flux']) <= tol:
            mism += 1
            if mism <= 5:
                ctx.fail('correspondence', 'model edge_flux_sum = %r but FunctionSpace.integrate_function_on_edge gives %r (tolerance %.3g) for F=(x^%d y^%d, x^%d y^%d), order %d, side %d, 1-D degree %d' % (
                    got, o['flux'], tol, a, b, cc, e, c['p'], c['side'], c['d1']), case=dict(ckind='l1e', case=c, model=got, impl=o['flux']))
    ctx.count('model_vs_impl_comparisons', len(cases))
    ctx.count('model_vs_impl_mismatches', mism)
    ctx.cov['l1_edgeflux_worst_error_over_tolerance'] = worst


# ----------------------------------------------------------------------------- exact re-evaluation of a failed certificate (search)

def table_identities_exact(T, limit=5):
    """re-evaluate every certified identity in Python Fractions; -> list of concrete failures (dicts)"""
    bad = []

    def add(what, case):
        if len(bad) < limit:
            bad.append(dict(kind='conclusion', what=what, case=case, concrete=True))

    F = lambda a: [Fr(float(x)) for x in a]
    for d in DEG2D:
        xi, w = T.rule2d[d]
        xs, ys, ws = F(xi[:, 0]), F(xi[:, 1]), F(w)
        for i in range(d + 1):
            for j in range(d + 1 - i):
                s = sum(wq * x ** i * y ** j for wq, x, y in zip(ws, xs, ys))
                ex = Fr(_FACT[i] * _FACT[j], _FACT[i + j + 2])
                if abs(s - ex) > Fr(*TOL_TRI_RT):
                    add('triangle rule of degree %d integrates x^%d y^%d to %r instead of %r' % (d, i, j, float(s), float(ex)),
                        dict(ckind='table', table='tri2d', degree=d, mono=[i, j], error=float(s - ex)))
        if not all(x > 0 for x in ws) or not all(x >= 0 and y >= 0 and x + y <= 1 for x, y in zip(xs, ys)):
            add('triangle rule of degree %d has a non-positive weight or a point outside the reference triangle' % d,
                dict(ckind='table', table='tri2d', degree=d, mono=None))
    for d in DEG1D:
        x, w = T.rule1d[d]
        xs, ws = F(x), F(w)
        for k in range(d + 1):
            s = sum(wq * xq ** k for wq, xq in zip(ws, xs))
            if abs(s - Fr(1, k + 1)) > Fr(*TOL_G1D):
                add('1-D rule of degree %d integrates x^%d to %r instead of 1/%d' % (d, k, float(s), k + 1),
                    dict(ckind='table', table='gauss1d', degree=d, mono=[k], error=float(s - Fr(1, k + 1))))
    for (p, bub, d), (N, G) in T.shapes2d.items():
        el = T.el2d[(p, bub)]
        X = el['coords']
        xn, yn = F(X[:, 0]), F(X[:, 1])
        xi = T.rule2d[d][0]
        for q in range(len(xi)):
            xq, yq = Fr(float(xi[q, 0])), Fr(float(xi[q, 1]))
            Nq, Gx, Gy = F(N[q]), F(G[q, :, 0]), F(G[q, :, 1])
            for i in range(p + 1):
                for j in range(p + 1 - i):
                    m = [a ** i * b ** j for a, b in zip(xn, yn)]
                    e0 = sum(a * b for a, b in zip(Nq, m)) - xq ** i * yq ** j
                    e1 = sum(a * b for a, b in zip(Gx, m)) - (i * xq ** (i - 1) * yq ** j if i else 0)
                    e2 = sum(a * b for a, b in zip(Gy, m)) - (j * xq ** i * yq ** (j - 1) if j else 0)
                    if max(abs(e0), abs(e1), abs(e2)) > Fr(*TOL_SHAPE):
                        add('shape table order %d bubble %s at point %d of the degree-%d rule does not reproduce x^%d y^%d (value err %.3g, gradient err %.3g, %.3g)' % (
                            p, bub, q, d, i, j, float(e0), float(e1), float(e2)),
                            dict(ckind='table', table='shapes2d', order=p, bubble=bub, degree=d, point=q, mono=[i, j]))
        if len(bad) >= limit:
            break
    for (p, d), (N, dN) in T.shapes1d.items():
        xn = F(T.el1d[p]['coords'])
        x = T.rule1d[d][0]
        for q in range(len(x)):
            s = Fr(float(x[q]))
            for k in range(p + 1):
                m = [a ** k for a in xn]
                e0 = sum(a * b for a, b in zip(F(N[:, q]), m)) - s ** k
                e1 = sum(a * b for a, b in zip(F(dN[:, q]), m)) - (k * s ** (k - 1) if k else 0)
                if max(abs(e0), abs(e1)) > Fr(*TOL_SHAPE):
                    add('1-D shape table order %d at point %d of the degree-%d rule does not reproduce s^%d' % (p, q, d, k),
                        dict(ckind='table', table='shapes1d', order=p, degree=d, point=q, mono=[k]))
    for (p, d), (N, dN) in T.shapes1d.items():
        for q in range(N.shape[1]):
            lam = sum(abs(a) for a in F(N[:, q]))
            if lam > Fr(*BOUND_LEB):
                add('1-D shape table order %d at point %d of the degree-%d rule has Lebesgue sum %.6g > %s' % (p, q, d, float(lam), BOUND_LEB[0] / BOUND_LEB[1]),
                    dict(ckind='table', table='shapes1d', order=p, degree=d, point=q, mono=None))
    for (p, bub), el in T.el2d.items():
        X = el['coords']
        s1 = T.el1d[p]['coords']
        V = [(1.0, 0.0), (0.0, 1.0), (0.0, 0.0)]
        ok = [tuple(X[el['vertexNodes'][k]]) == V[k] for k in range(3)] if len(el['vertexNodes']) == 3 else [False]
        if not all(ok):
            add('vertex nodes of parent element order %d bubble %s are not at (1,0),(0,1),(0,0)' % (p, bub),
                dict(ckind='table', table='faces', order=p, bubble=bub))
        for f, fn in enumerate(el['faceNodes']):
            if len(fn) != len(s1):
                add('face %d of parent element order %d bubble %s has %d nodes, the 1-D element %d' % (f, p, bub, len(fn), len(s1)),
                    dict(ckind='table', table='faces', order=p, bubble=bub, face=f))
                continue
            for a, ia in enumerate(fn):
                s = float(s1[a])
                ex = ((1 - s) * V[f][0] + s * V[(f + 1) % 3][0], (1 - s) * V[f][1] + s * V[(f + 1) % 3][1])
                if max(abs(X[ia][0] - ex[0]), abs(X[ia][1] - ex[1])) > 1e-13:
                    add('node %d of face %d (parent element order %d bubble %s) is at %r, the 1-D node %d maps to %r' % (a, f, p, bub, tuple(X[ia]), a, ex),
                        dict(ckind='table', table='faces', order=p, bubble=bub, face=f, local=a))
    return bad


# ----------------------------------------------------------------------------- driver interface

def l2_cases(ctx, stream='l2', n=None):
    r = ctx.rng(stream)
    n = n or ctx.n(10, 100)
    combos = [(p, b) for p in ORDERS for b in (False, True) if not (p == 1 and b)]
    r.shuffle(combos)
    cases = []
    for k in range(n):
        p, b = combos[k % len(combos)]
        cases.append(dict(kind=MESH_KINDS[k % len(MESH_KINDS)] if k < 2 * len(MESH_KINDS) else r.choice(MESH_KINDS),
                          mseed=r.randrange(1 << 30), order=p, bubble=b, degree=r.choice(DEG2D),
                          mode='axisymmetric' if ((k + k // len(combos)) % 3 == 2) else 'cartesian', degree1d=r.choice(DEG1D)))
    # axisymmetric sweep: every (order, bubble) combination in axisymmetric mode on a small structured mesh, in every tier
    if stream == 'l2':
        for (p, b) in combos:
            cases.append(dict(kind='structured', mseed=r.randrange(1 << 30), order=p, bubble=b, degree=r.choice(DEG2D[1:]),
                              mode='axisymmetric', degree1d=r.choice(DEG1D), sweep=True))
    for c in cases:
        if c['mode'] == 'axisymmetric' and c['degree'] < 2:
            c['degree'] = 2
    return cases


def run_l2(ctx, cases):
    seen = set()
    for c in cases:
        try:
            bad, nev, st = l2_case(c)
        except Exception as ex:      # the implementation refusing a valid configuration is a finding about the implementation
            bad, nev, st = ['implementation raised %r' % ex], 0, {}
        ctx.count('evaluations', nev)
        ctx.count('l2_mesh_configurations')
        key = (c['kind'], c['mseed'], c['order'], c['bubble'], c['degree'], c['mode'])
        if key not in seen and st.get('elements', 0) >= 2:
            seen.add(key)
            ctx.count('distinct_nontrivial')
        ctx.count('l2_kind_' + c['kind'])
        ctx.count('l2_edge_point_checks', st.get('edge_checks', 0))
        ctx.cov['edge_point_max_deviation_over_bound'] = max(ctx.cov.get('edge_point_max_deviation_over_bound', 0.0), st.get('edge_ratio', 0.0))
        ctx.count('l2_order_%d%s' % (c['order'], 'b' if c['bubble'] else ''))
        if len(ctx.samples) < 3:
            ctx.sample(dict(case=c, stats=st, violated=bad))
        for b in bad[:3]:
            ctx.fail('conclusion', 'FunctionSpace on %s mesh (seed %d), order %d%s, degree %d, %s: %s' % (
                c['kind'], c['mseed'], c['order'], ' bubble' if c['bubble'] else '', c['degree'], c['mode'], b),
                case=dict(ckind='mesh', **c), concrete=True)


def correspondence(ctx, model_ok):
    import optimism  # noqa: F401
    t0 = time.time()
    T = Tables()
    ctx.log('called the table constructors for the whole configuration set in %.1fs' % (time.time() - t0))
    # ---- L2: conclusions of the lifting theorems on the implementation's FunctionSpace
    t0 = time.time()
    run_l2(ctx, l2_cases(ctx))
    ctx.log('L2 on %d seeded meshes in %.1fs' % (ctx.counts.get('l2_mesh_configurations', 0), time.time() - t0))
    if not model_ok:
        return
    # ---- K: certificates for every runtime table (complete configuration set)
    t0 = time.time()
    files, cfgmap = cert_files(T)
    res = run_certs(ctx, files)
    nbad = [r_ for r_ in res if not r_['ok']]
    ctx.cov['certificates'] = dict(files=len(res), configurations=len(cfgmap), failed=[r_['name'] for r_ in nbad],
                                   seconds=round(time.time() - t0, 1), bytes=sum(r_['bytes'] for r_ in res),
                                   tolerances=dict(shapes='1e-11', tri_runtime='1e-14', gauss1d='1e-13', faces='1e-13', nodes1d_symmetry='1e-13', lebesgue1d_bound='2'))
    ctx.cov['certificate_map_sample'] = dict(list(sorted(cfgmap.items()))[:6])
    ctx.cov['certificate_obligations'] = sum(t.count('Qed.') for _, t, _ in files)
    ctx.count('certified_configurations', len(cfgmap))
    ctx.count('distinct_nontrivial', len(cfgmap))
    ctx.count('evaluations', len(cfgmap))
    ctx.log('certificates: %d files, %d configurations, %d failed, %.1fs' % (len(res), len(cfgmap), len(nbad), time.time() - t0))
    if nbad:
        conc = table_identities_exact(T)
        for f in conc:
            ctx.fail(f['kind'], f['what'], case=f['case'], concrete=True)
        if not conc:
            for r_ in nbad[:3]:
                ctx.fail('certificate', 'certificate %s no longer checks: %s' % (r_['name'], r_['out'][-400:]))
    # ---- L1: Num-generic geometric kernels executed at binary64 against the implementation
    cases = l1_cases(ctx)
    impl = l1_impl(cases)
    res = C.coq_eval(IMPORTS, l1_exprs(cases, impl), 'C03', shard=300)
    l1_compare(ctx, cases, impl, res)
    ctx.count('evaluations', len(res))
    ctx.count('distinct_nontrivial', len(cases))
    # ---- L1 (round 4): the edge sum of integrate_function_on_edge, Num-generic model executed at binary64 against the implementation
    ecases = l1e_cases(ctx)
    eimpl = l1e_impl(ecases)
    eres = C.coq_eval(IMPORTS, l1e_exprs(ecases, eimpl), 'C03e', shard=300)
    l1e_compare(ctx, ecases, eimpl, eres)
    ctx.count('evaluations', len(eres))
    ctx.count('distinct_nontrivial', len(ecases))


def search(ctx, reasons):
    """a proof / extraction / certificate / correspondence broke and no concrete input is known yet"""
    import copy
    import optimism  # noqa: F401
    try:
        conc = table_identities_exact(Tables())
        if conc:
            return conc[0]
    except Exception as ex:
        ctx.notes.append('search: table constructors raised %r' % ex)
    # the source tables themselves (decimal text), against the exact moments
    try:
        from vlib import tab_c03
        br = tab_c03.parse_tri_tables(open(os.path.join(C.REPO, 'optimism/QuadratureRule.py')).read())
        for d in DEG2D:
            sel = next(((pts, ws) for (is_le, n, pts, ws) in br if (d <= n if is_le else d == n)), None)
            if sel is None:
                return dict(kind='conclusion', what='no tabulated rule is selected for degree %d' % d, case=dict(ckind='table', table='source', degree=d), concrete=True)
            pts, ws = sel
            fr = lambda me: Fr(me[0]) * Fr(10) ** me[1]
            for i in range(d + 1):
                for j in range(d + 1 - i):
                    s = sum(fr(w) * fr(x) ** i * fr(y) ** j for w, (x, y) in zip(ws, pts))
                    ex = Fr(_FACT[i] * _FACT[j], _FACT[i + j + 2])
                    if abs(s - ex) > Fr(2, 10 ** 15):
                        return dict(kind='conclusion', what='the tabulated rule selected for degree %d integrates x^%d y^%d to %.17g instead of %.17g' % (d, i, j, float(s), float(ex)),
                                    case=dict(ckind='table', table='source', degree=d, mono=[i, j]), concrete=True)
    except Exception as ex:
        ctx.notes.append('search: source tables unreadable: %r' % ex)
    c2 = copy.copy(ctx)
    c2.failures, c2.counts, c2.samples = [], {}, []
    run_l2(c2, l2_cases(c2, stream='search', n=80))
    conc = [f for f in c2.failures if f.get('concrete')]
    return conc[0] if conc else None


def finding_fails(ctx, f):
    w = f['witness']
    if w.get('ckind') == 'mesh':
        bad, _, _ = l2_case(w)
        return bool(bad)
    return False


def matches_finding(fl, f):
    return False


def replay(ctx, path):
    rep = json.load(open(path))
    case = rep.get('failing_input')
    print('replay of', path)
    print(json.dumps(rep.get('reasons'), indent=1, default=str)[:3000])
    if not case:
        print('no concrete failing input recorded; broken obligations:', rep.get('broken'))
        return 1
    import optimism  # noqa: F401
    if case.get('ckind') == 'mesh':
        bad, _, st = l2_case(case)
        print('implementation now:', bad or 'conclusions hold', st)
        return 1 if bad else 0
    if case.get('ckind') == 'table':
        if case.get('table') == 'source':
            found = search(ctx, [])
            print('now:', found['what'] if found else 'tables check')
            return 1 if found else 0
        conc = table_identities_exact(Tables(), limit=50)
        same = [c for c in conc if c['case'].get('table') == case.get('table')]
        print('implementation now:', [c['what'] for c in same[:5]] or 'identities hold')
        return 1 if same else 0
    print('case kind', case.get('ckind'), 'is replayed by re-running the check')
    return 1
