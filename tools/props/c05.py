"""C05 -- bound-constrained trust-region (SPG) solver: feasible, descends, flags honestly; projections."""
import contextlib
import io
import json
import math
import signal

import numpy as onp

from vlib import common as C
from props import c01 as P1

ID = 'C05'
READY = True
LEVEL_TEXT = ('Partial. Coq theorems over R: project is feasible, the nearest feasible point and idempotent for finite/one-sided/infinite/degenerate bounds; '
              'project_onto_tr is in the box for every value brentq may return, unchanged and inside the radius when the projection already is, inside the radius when f(t)<=0; '
              'an SPG update xNew+alpha(P-xNew) with feasible xNew, P and 0<=alpha<=1 is feasible; the clipped step length min(1,max(0,alpha)) (repo commit d722144, hand kernel clip01 matched syntactically against the source) '
              'is in [0,1] for every line-search value, so every SPG update is a convex combination in BOTH line-search modes without hypotheses; outer loop for ARBITRARY value/gradient oracles and ARBITRARY step proposals: '
              'accepted objective values non-increasing (default mode, eta1>=0), flag=True only at a ConvergedAt event at the returned point with |P(y-g)-y|<tol, '
              'flag=False => returned point is the current iterate; convex + exact projected-gradient stationarity => bound-constrained minimiser. '
              'Not proved (tested by L2 only): feasibility of every iterate as one theorem about the whole solver (find_generalized_cauchy_point and the SPG loop are not modelled; '
              'solve_spg_subproblem output is an oracle in the model), descent at the converged exit is FALSE (finding F1\'), success on convex problems.')
TECHNIQUE = 'Coq proof (Reals, lra/nra) on a hand model + regenerated line-search kernels; vm_compute/PrimFloat correspondence with logged oracle values'
GEN = ['TrustRegionSPG']
TARGETS = ['model/M_C06_Vec.vo', 'model/M_C06_CG.vo', 'model/M_C01_TR.vo', 'model/M_C05_SPG.vo', 'proofs/L_C06_Vec.vo', 'proofs/L_C01.vo', 'proofs/L_C05.vo']
COQ_FILES = ['base/Num.v', 'model/M_C06_Vec.v', 'model/M_C01_TR.v', 'model/M_C05_SPG.v', 'proofs/L_C06_Vec.v', 'proofs/L_C01.v', 'proofs/L_C05.v', 'props/P_C05.v']
TRUSTED = ['Coq 8.16.1 kernel + vm_compute (no native_compute)', 'tools/vlib/py2coq.py translator for the two line-search kernels',
           'hand model model/M_C05_SPG.v tied by the correspondence; solve_spg_subproblem (with find_generalized_cauchy_point) and scipy brentq are ORACLES whose logged outputs are fed to the model',
           'harness: duck-typed polynomial objectives (shared with C01), recording callback / update_precond, monkey-patched TrustRegionSPG.solve_spg_subproblem and optimize.brentq for logging only',
           'near-tie rule as C01 (implementation re-run with <= 2 ulp noise on oracle arguments)', 'theorems are over exact reals; binary64 rounding (bounds may be exceeded by an ulp through y = x + s) is covered only by L2 with 4 ulp slack']
ASSUMPTIONS = ['none on value/gradient oracles and on step proposals for descent / flag / returns-last', 'lb <= ub wherever both finite', '0 <= eta1, default (non-incremental) mode for descent',
               'brentq returns some number (no assumption for box feasibility)']
RULE = ('objectives as C01 (dyadic polynomials, 1..6 variables) with boxes whose components are finite, one-sided, infinite or degenerate (lb == ub), starts inside, on faces and on vertices, '
        'both line-search modes, settings forcing each exit; direct calls of project / project_onto_tr with points inside, outside the box and outside the radius; '
        'a case is non-trivial when at least one outer iteration runs (solver) or the root find is needed (project_onto_tr); distinct = distinct input tuples')
IMPORTS = ['From OV.gen Require Import Gen_TrustRegionSPG.', 'From OV.model Require Import M_C06_Vec M_C06_CG M_C01_TR M_C05_SPG.']
PREAMBLE = P1.PREAMBLE.split('Definition run_poly')[0] + '''
Definition run_bc (A : list (list float)) (b c d : list float) (bs : list (@bound float)) (props : list (list float * float * bool * nat))
    (x0 : list float) (S : settings float) : list Z :=
  enc_run (@bc_minimize float NumF (pvalue A b c d) (pgrad A b c d) bs
            (fun k _ => nth k props (map (fun _ => F 0 0) x0, F 0 0, false, O)) S x0).
'''
INF = math.inf


def _mods():
    from vlib import shim
    shim.install()
    import jax.numpy as jnp
    import optimism  # noqa: F401
    from optimism import TrustRegionSPG as TR
    return jnp, TR


quiet, cvec, cmat = P1.quiet, P1.cvec, P1.cmat


class Timeout(Exception):
    pass


def _alarm(signum, frame):
    raise Timeout()


def cbound(lo, hi):
    return '(%s, %s)' % ('None' if lo == -INF else 'Some %s' % C.cf(lo), 'None' if hi == INF else 'Some %s' % C.cf(hi))


def cbounds(bs):
    return C.clist([cbound(lo, hi) for lo, hi in bs])


def gen_box(r, x0):
    bs, x = [], list(x0)
    for i, xi in enumerate(x0):
        k = r.randrange(6)
        if k == 0:
            lo, hi = -INF, INF
        elif k == 1:
            lo, hi = xi - P1.dy(r, 0, 2), INF
        elif k == 2:
            lo, hi = -INF, xi + P1.dy(r, 0, 2)
        elif k == 3:
            lo = hi = xi                      # degenerate
        else:
            lo, hi = xi - P1.dy(r, 0, 3), xi + P1.dy(r, 0, 3)
        if r.random() < 0.25 and lo > -INF:
            x[i] = lo                          # start on a lower face
        elif r.random() < 0.2 and hi < INF:
            x[i] = hi                          # start on an upper face
        bs.append((lo, hi))
    if r.random() < 0.12:                      # start on a vertex: every coordinate with a finite bound sits on one
        for i, (lo, hi) in enumerate(bs):
            if lo > -INF and (hi == INF or r.random() < 0.5):
                x[i] = lo
            elif hi < INF:
                x[i] = hi
    return bs, x


def gen_cases(ctx, count):
    r = ctx.rng('box')
    base = P1.gen_cases(ctx, count)
    out = []
    for c in base:
        bs, x0 = gen_box(r, c['x0'])
        st = c['st']
        s2 = dict(t1=st['t1'], t2=st['t2'], eta1=st['eta1'], eta2=st['eta2'], eta3=st['eta3'], max_trust_iters=min(st['max_trust_iters'], 12), tol=st['tol'],
                  max_spg_iters=r.choice([25, 25, 2, 5]), max_cumulative_spg_iters=r.choice([1000, 1000, 6]), tr_size=st['tr_size'], min_tr_size=st['min_tr_size'],
                  spg_use_nonmonotone=r.random() < 0.6, use_incremental_objective=st['use_incremental_objective'],
                  spg_nonmonotone_iter_limit_to_enforce_decrease=r.choice([10, 10, 1, 2]), spg_inexact_solve_ratio=r.choice([1e-4, 1e-4, 1e-1, 1e-8]),
                  cauchy_point_max_line_search_iters=r.choice([25, 25, 4]), cauchy_point_sufficient_decrease_factor=r.choice([1e-4, 1e-4, 0.3]),
                  min_spectral_step_length=r.choice([1e-12, 1e-12, 1e-2]), max_spectral_step_length=r.choice([1e12, 1e12, 10.0]),
                  use_preconditioned_inner_product_for_spg=r.random() < 0.2)
        out.append(dict(c, x0=x0, bounds=bs, st=s2, E=[[0.0] * c['n'] for _ in range(c['n'])], pk=0))
    return out


def f1p_case():
    c = P1.exact_switch_cases()[0]
    st = dict(t1=0.25, t2=1.75, eta1=1e-10, eta2=0.1, eta3=0.5, max_trust_iters=100, tol=1e-8, max_spg_iters=25, max_cumulative_spg_iters=1000,
              tr_size=2.0, min_tr_size=1e-8, spg_use_nonmonotone=True, use_incremental_objective=False)
    return dict(c, bounds=[(-10.0, 10.0)], st=st)


def run_impl(case, mods, noise=None):
    jnp, TR = mods
    obj = P1.PolyObjective(jnp, case, None, noise)
    st = TR.get_settings(**dict(case['st'], debug_info=False))
    bounds = jnp.array([[lo, hi] for lo, hi in case['bounds']])
    props = []
    orig = TR.solve_spg_subproblem

    def logged(*a, **k):
        r = orig(*a, **k)
        props.append(([float(t) for t in r[0]], float(r[1]), r[3] == TR.boundaryString, int(r[4])))
        return r

    def cb(x, o):
        obj.log.append(('cb', [float(t) for t in x]))
    alphas = []
    orig_k = TR.kouri_exact_line_search

    def logged_k(*a, **k):
        r = orig_k(*a, **k)
        alphas.append(float(r))
        return r
    TR.kouri_exact_line_search = logged_k
    TR.solve_spg_subproblem = logged
    orig_c = TR.is_converged
    margin = [math.inf]

    def logged_c(objective, xx, realO, modelO, realOpt, *a, **k):
        ro = float(realOpt)
        if ro == ro:
            margin[0] = min(margin[0], abs(ro - st.tol) / st.tol)
        return orig_c(objective, xx, realO, modelO, realOpt, *a, **k)
    TR.is_converged = logged_c
    old = signal.signal(signal.SIGALRM, _alarm)
    signal.alarm(60)
    err = None
    try:
        x, flag = quiet(TR.bound_constrained_trust_region_minimize, obj, obj.x0, bounds, st, callback=cb)
        x, flag = [float(t) for t in x], bool(flag)
    except RuntimeError as ex:
        x, flag, err = None, False, str(ex)       # documented exit of the Cauchy-point line search
    except Timeout:
        x, flag, err = None, False, 'timeout'
    except Exception as ex:                        # anything else the solver raises is a failure of the property, not of the harness
        x, flag, err = None, False, 'exception: %r' % ex
    finally:
        signal.alarm(0)
        signal.signal(signal.SIGALRM, old)
        TR.solve_spg_subproblem = orig
        TR.kouri_exact_line_search = orig_k
        TR.is_converged = orig_c
    return dict(x=x, flag=flag, log=obj.log, props=props, obj=obj, settings=st, err=err, bounds=bounds, conv_margin=margin[0],
                min_alpha=min([a for a in alphas if a == a] + [0.0]))


def discrete(o):
    return (o['flag'], o['err'] is None, tuple(k for k, _ in o['log']))


def excess(p, bs):
    worst = 0.0
    for t, (lo, hi) in zip(p, bs):
        for bnd, d in ((lo, lo - t), (hi, t - hi)):
            if math.isfinite(bnd) and d > 0:
                worst = max(worst, d / (math.ulp(max(1.0, abs(bnd)))))
    return worst


def concl(case, out, mods):
    jnp, TR = mods
    obj, st = out['obj'], out['settings']
    bad = []
    if out['err'] == 'timeout':
        return [('hang', 'bound_constrained_trust_region_minimize did not return within 60 s')]
    if out['err'] and out['err'].startswith('exception'):
        return [('exception', 'bound_constrained_trust_region_minimize raised ' + out['err'][11:])]
    pts = [p for k, p in out['log'] if k == 'cb']
    allpts = pts + ([out['x']] if out['x'] is not None else [])
    if not all(math.isfinite(t) for p in allpts for t in p):
        bad.append(('finite', 'a reported iterate is not finite'))
    for p in allpts:
        e = excess(p, case['bounds'])
        if e > 4:
            bad.append(('infeasible', 'reported iterate %r leaves the box by %.3g ulp' % (p, e)))
            break
    vals = [float(obj.value(jnp.array(p))) for p in [case['x0']] + pts]
    if not case['st']['use_incremental_objective'] and case['st']['eta1'] >= 0:
        for i in range(1, len(vals)):
            if not vals[i] <= vals[i - 1]:
                last = (i == len(vals) - 1) and out['flag']
                bad.append(('uphill-converged-exit' if last else 'uphill',
                            'objective increased from %.17g to %.17g at reported iterate %d of %d%s' % (vals[i - 1], vals[i], i, len(vals) - 1, ' (the converged exit)' if last else '')))
    if out['err'] is not None:
        return bad
    if out['flag']:
        xr = jnp.array(out['x'])
        R = TR.project(xr - obj.gradient(xr), out['bounds']) - xr
        if not float(jnp.linalg.norm(R)) < st.tol:
            bad.append(('flag', 'success reported but the projected-gradient measure %.6g >= tol %.6g' % (float(jnp.linalg.norm(R)), st.tol)))
        if not pts or pts[-1] != out['x']:
            bad.append(('last', 'success reported but the returned point is not the last reported iterate'))
    else:
        cur = pts[-1] if pts else [float(t) for t in case['x0']]
        if cur != out['x']:
            bad.append(('last', 'failure exit returned a point that is not the last accepted iterate / start'))
    return bad


def model_expr(case, out):
    st = case['st']
    s = ('{| s_t1 := %s; s_t2 := %s; s_eta1 := %s; s_eta2 := %s; s_eta3 := %s; s_max_trust_iters := %d; s_tol := %s; s_max_cg_iters := %d; '
         's_max_cumulative_cg_iters := %d; s_cg_tol := %s; s_cg_ratio := %s; s_tr_size := %s; s_min_tr_size := %s; s_use_pc_ip := false; s_use_incremental := %s |}'
         % (C.cf(st['t1']), C.cf(st['t2']), C.cf(st['eta1']), C.cf(st['eta2']), C.cf(st['eta3']), st['max_trust_iters'], C.cf(st['tol']), st['max_spg_iters'],
            st['max_cumulative_spg_iters'], C.cf(0.0), C.cf(0.0), C.cf(st['tr_size']), C.cf(st['min_tr_size']), 'true' if st['use_incremental_objective'] else 'false'))
    props = C.clist(['(%s, %s, %s, %d%%nat)' % (cvec(sv), C.cf(mo), 'true' if onb else 'false', it) for sv, mo, onb, it in out['props']])
    return 'run_bc %s %s %s %s %s %s %s %s' % (cmat(case['A']), cvec(case['b']), cvec(case['c']), cvec(case['d']), cbounds(case['bounds']), props, cvec(case['x0']), s)


def convex_box_cases(ctx, count):
    """strictly convex objectives (diagonally dominant A >= I, optional quartic d >= 0) over boxes whose constrained minimiser has active, inactive
    and degenerate components; default settings"""
    r = ctx.rng('convexbox')
    out = []
    for i in range(count):
        n = [1, 2, 3, 4, 6, 8][i % 6]
        a = [[0.0] * n for _ in range(n)]
        for p in range(n):
            for q in range(p):
                a[p][q] = a[q][p] = P1.dy(r, -1, 1)
        for p in range(n):
            a[p][p] = P1.dy(r, 1, 4) + sum(abs(a[p][q]) for q in range(n) if q != p)
        b = [P1.dy(r, -6, 6) for _ in range(n)]
        d = [P1.dy(r, 0, 2) if i % 2 else 0.0 for _ in range(n)]
        x0 = [P1.dy(r, -2, 2) for _ in range(n)]
        bs, x0 = gen_box(r, x0)
        st = dict(t1=0.25, t2=1.75, eta1=1e-10, eta2=0.1, eta3=0.5, max_trust_iters=100, tol=1e-8, max_spg_iters=25, max_cumulative_spg_iters=1000,
                  tr_size=2.0, min_tr_size=1e-8, spg_use_nonmonotone=(i % 4 < 2), use_incremental_objective=False)
        out.append(dict(n=n, kind='convex-box', A=a, E=[[0.0] * n for _ in range(n)], b=b, c=[0.0] * n, d=d, pk=0, x0=x0, bounds=bs, st=st))
    return out


def box_reference(case):
    """independent reference minimiser: projected Newton with an active-set guess, verified by its own projected-gradient residual"""
    a, b, d = onp.array(case['A']), onp.array(case['b']), onp.array(case['d'])
    lo = onp.array([l for l, _ in case['bounds']])
    hi = onp.array([h for _, h in case['bounds']])
    x = onp.clip(onp.array(case['x0'], dtype=float), lo, hi)
    f = lambda v: 0.5 * v @ a @ v + b @ v + d @ v ** 4
    grad = lambda v: a @ v + b + 4 * d * v ** 3
    for _ in range(2000):
        g = grad(x)
        if onp.linalg.norm(onp.clip(x - g, lo, hi) - x) < 1e-14:
            break
        act = ((x <= lo) & (g > 0)) | ((x >= hi) & (g < 0))
        fr = ~act
        step = onp.zeros_like(x)
        if fr.any():
            hfull = a + onp.diag(12 * d * x ** 2)
            step[fr] = onp.linalg.solve(hfull[onp.ix_(fr, fr)], -g[fr])
        t, moved = 1.0, False
        while t > 1e-16:
            y = onp.clip(x + t * step, lo, hi)
            if f(y) <= f(x) + 1e-4 * (g @ (y - x)) and not onp.array_equal(y, x):
                moved = True
                break
            t *= 0.5
        if not moved:                       # projected-gradient fallback
            t = 1.0
            while t > 1e-16:
                y = onp.clip(x - t * g, lo, hi)
                if f(y) < f(x):
                    moved = True
                    break
                t *= 0.5
        if not moved:
            break
        x = y
    g = grad(x)
    return x, float(onp.linalg.norm(onp.clip(x - g, lo, hi) - x))


def convex_box_stream(ctx, mods):
    """L2 for 'for convex problems that point is the bound-constrained minimizer' (+ a re-solve history from the returned point in a tightened box)"""
    jnp, TR = mods
    n_succ = n_hist = 0
    for c in convex_box_cases(ctx, ctx.n(30, 200)):
        o = run_impl(c, mods)
        ctx.count('evaluations')
        ctx.count('convex_box_cases')
        bad = list(concl(c, o, mods))
        if o['flag']:
            n_succ += 1
            xs, rres = box_reference(c)
            if rres < 1e-10:
                a = onp.array(c['A'])
                xr = onp.array(o['x'])
                mu = 1.0                                               # A - I is diagonally dominant with non-negative diagonal
                lip = float(onp.linalg.norm(a + onp.diag(12 * onp.array(c['d']) * onp.maximum(xr, xs) ** 2), 2))
                lim = (1.0 + lip) / mu * c['st']['tol'] + 1e-9
                dist = float(onp.linalg.norm(xr - xs))
                if not dist <= lim:
                    bad.append(('not-minimiser', 'success reported on a strictly convex box problem but the returned point is %.3g away from the constrained minimiser (limit %.3g)' % (dist, lim)))
            else:
                ctx.count('convex_box_reference_unconverged')
            # history: tighten the box around the solution so that the returned point (projected) starts on faces / a vertex, solve again
            if o['x'] is not None:
                rr = ctx.rng('hist' + json.dumps(c['x0']))
                nb = []
                for xi, (lo, hi) in zip(o['x'], c['bounds']):
                    k = rr.randrange(3)
                    nb.append((max(lo, xi + 0.25), hi) if k == 0 and xi + 0.25 <= hi else (lo, min(hi, xi - 0.25)) if k == 1 and xi - 0.25 >= lo else (lo, hi))
                x1 = [min(max(xi, lo), hi) for xi, (lo, hi) in zip(o['x'], nb)]
                c2 = dict(c, x0=x1, bounds=nb, kind='convex-box-history')
                o2 = run_impl(c2, mods)
                n_hist += 1
                ctx.count('evaluations')
                for tag, b in concl(c2, o2, mods):
                    ctx.fail('conclusion', 'bound_constrained_trust_region_minimize (re-solve from a returned point on the faces of a tightened box): ' + b,
                             case=dict({k: v for k, v in c2.items()}, tag=tag, impl=dict(x=o2['x'], flag=o2['flag'], log=o2['log'], err=o2['err'], min_alpha=o2['min_alpha'])), concrete=True)
        for tag, b in bad:
            ctx.fail('conclusion', 'bound_constrained_trust_region_minimize (convex, default settings): ' + b,
                     case=dict({k: v for k, v in c.items()}, tag=tag, impl=dict(x=o['x'], flag=o['flag'], log=o['log'], err=o['err'], min_alpha=o['min_alpha'])), concrete=True)
    ctx.cov['convex_box_successes'] = n_succ
    ctx.cov['convex_box_history_resolves'] = n_hist


def gen_projection_cases(ctx, count):
    r = ctx.rng('proj')
    out = []
    for _ in range(count):
        n = r.randrange(1, 6)
        xk0 = [P1.dy(r, -2, 2) for _ in range(n)]
        bs, xk = gen_box(r, xk0)
        x = [t + r.gauss(0, 1) * 10 ** r.uniform(-2, 1) for t in xk]
        tr = 10 ** r.uniform(-3, 1)
        out.append(dict(n=n, x=x, xk=xk, bounds=bs, tr=tr))
    return out


def clip_tie(ctx):
    """fail-closed syntactic tie of the hand kernel clip01 / spg_alpha (model/M_C05_SPG.v) to the source: inside solve_spg_subproblem
    the only assignments to `alpha` must be `alpha = line_search(ds, sBs, q, qMax, settings)` followed by
    `alpha = min(1.0, max(0.0, alpha)) if sBs > 0 else 1.0`, and the update must be `z += alpha*s` (AST equality)."""
    import ast
    import os
    try:
        tree = ast.parse(open(os.path.join(C.REPO, 'optimism', 'TrustRegionSPG.py')).read())
        fn = [n for n in tree.body if isinstance(n, ast.FunctionDef) and n.name == 'solve_spg_subproblem'][0]
        d = lambda src: ast.dump(ast.parse(src).body[0])
        assigns = [ast.dump(n) for n in ast.walk(fn) if isinstance(n, ast.Assign) and any(isinstance(t, ast.Name) and t.id == 'alpha' for t in n.targets)]
        want = [d('alpha = line_search(ds, sBs, q, qMax, settings)'), d('alpha = min(1.0, max(0.0, alpha)) if sBs > 0 else 1.0')]
        augs = [ast.dump(n) for n in ast.walk(fn) if isinstance(n, ast.AugAssign) and isinstance(n.target, ast.Name) and n.target.id == 'z']
        ok = assigns == want and augs == [d('z += alpha*s')]
        msg = 'assignments to alpha: %d (expected the line search followed by the [0,1] clip); updates of z: %d' % (len(assigns), len(augs))
    except Exception as ex:
        ok, msg = False, repr(ex)
    if not ok:
        ctx.fail('translator', 'the step-length rule of solve_spg_subproblem no longer matches the hand kernel spg_alpha/clip01 of model/M_C05_SPG.v (%s)' % msg)
    ctx.cov['clip_tie'] = ok


def correspondence(ctx, model_ok):
    mods = _mods()
    jnp, TR = mods
    from scipy import optimize
    clip_tie(ctx)
    cases = [f1p_case()] + gen_cases(ctx, ctx.n(120, 1200))
    outs = []
    hist = {}
    distinct = set()
    worst = 0.0

    def bump(k):
        hist[k] = hist.get(k, 0) + 1
    for c in cases:
        o = run_impl(c, mods)
        outs.append(o)
        bump('exit:' + ('converged' if o['flag'] else ('cauchy-line-search-error' if o['err'] else 'failed')))
        bump('linesearch:' + ('nonmonotone' if c['st']['spg_use_nonmonotone'] else 'monotone'))
        for lo, hi in c['bounds']:
            bump('bound:' + ('free' if lo == -INF and hi == INF else 'lower' if hi == INF else 'upper' if lo == -INF else 'degenerate' if lo == hi else 'finite'))
        if o['props']:
            distinct.add(json.dumps([c['A'], c['b'], c['c'], c['d'], c['x0'], c['bounds'], c['st']], sort_keys=True))
        for p in [q for k, q in o['log'] if k == 'cb']:
            worst = max(worst, excess(p, c['bounds']))
        for tag, b in concl(c, o, mods):
            ctx.fail('conclusion', 'bound_constrained_trust_region_minimize: ' + b,
                     case=dict({k: v for k, v in c.items()}, tag=tag, impl=dict(x=o['x'], flag=o['flag'], log=o['log'], err=o['err'], min_alpha=o['min_alpha'])), concrete=True)
    convex_box_stream(ctx, mods)
    # ---- direct calls of project / project_onto_tr, brentq's answer logged
    pcases = gen_projection_cases(ctx, ctx.n(150, 1500))
    pouts = []
    orig_b = TR.optimize.brentq
    for c in pcases:
        tlog = []

        def logged(f, a, b, **k):
            r = orig_b(f, a, b, **k)
            tlog.append(float(r[0] if isinstance(r, tuple) else r))
            return r
        TR.optimize.brentq = logged
        try:
            bj = jnp.array([[lo, hi] for lo, hi in c['bounds']])
            p = TR.project(jnp.array(c['x']), bj)
            q = TR.project_onto_tr(jnp.array(c['x']), jnp.array(c['xk']), bj, c['tr'])
        except Exception as ex:
            ctx.fail('conclusion', 'project_onto_tr raised %r on a feasible centre' % ex, case=dict(c, kind='projection'), concrete=True)
            pouts.append(None)
            continue
        finally:
            TR.optimize.brentq = orig_b
        p, q = [float(t) for t in p], [float(t) for t in q]
        pouts.append(dict(p=p, q=q, t=tlog[0] if tlog else 0.0, root=bool(tlog)))
        if tlog:
            distinct.add(json.dumps([c['x'], c['xk'], c['bounds'], c['tr']]))
        bump('project_onto_tr:' + ('root-find' if tlog else 'inside'))
        # conclusions: in the box exactly; nearest point; idempotent; in the radius (brentq tolerance)
        for nm, v in (('project', p), ('project_onto_tr', q)):
            if excess(v, c['bounds']) > 0:
                ctx.fail('conclusion', '%s returned a point outside the box' % nm, case=dict(c, kind='projection', impl=v), concrete=True)
        if [float(t) for t in TR.project(jnp.array(p), bj)] != p:
            ctx.fail('conclusion', 'project is not idempotent', case=dict(c, kind='projection', impl=p), concrete=True)
        dq = math.sqrt(sum((a - b) ** 2 for a, b in zip(q, c['xk'])))
        if dq > c['tr'] * (1 + 1e-9) + 1e-11:
            ctx.fail('conclusion', 'project_onto_tr returned a point outside the trust region: %.17g > %.17g' % (dq, c['tr']), case=dict(c, kind='projection', impl=q), concrete=True)
        # nearest: compare with feasible competitors (clipped random points and the box-projected xk)
        dp = sum((a - b) ** 2 for a, b in zip(c['x'], p))
        rr = ctx.rng('near' + json.dumps(c['x']))
        for _ in range(4):
            y = [min(max(t + rr.gauss(0, 1), lo), hi) for t, (lo, hi) in zip(p, c['bounds'])]
            if sum((a - b) ** 2 for a, b in zip(c['x'], y)) < dp * (1 - 1e-12) - 1e-300:
                ctx.fail('conclusion', 'project is not the nearest feasible point', case=dict(c, kind='projection', impl=p), concrete=True)
    total = len(cases) + len(pcases)
    ctx.count('evaluations', total)
    ctx.count('distinct_nontrivial', len(distinct))
    ctx.count('conclusion_checks', total)
    ctx.cov['exit_histogram'] = hist
    ctx.cov['worst_bound_excess_ulp'] = worst
    ctx.sample(dict(kind='solver', n=cases[-1]['n'], bounds=cases[-1]['bounds'], flag=outs[-1]['flag'], events=[k for k, _ in outs[-1]['log']]))
    ctx.sample(dict(kind='project_onto_tr', x=pcases[0]['x'], xk=pcases[0]['xk'], tr=pcases[0]['tr'], result=(pouts[0] or {}).get('q'), root_find=(pouts[0] or {}).get('root')))
    if not model_ok:
        return
    # ---- L1: projections
    ex = []
    pc2 = [(c, o) for c, o in zip(pcases, pouts) if o is not None]
    for c, o in pc2:
        ex.append('fencs (@project float NumF %s %s) ++ fencs (@project_onto_tr float NumF %s %s %s %s %s) ++ benc (@needs_root_find float NumF %s %s %s %s)'
                  % (cvec(c['x']), cbounds(c['bounds']), cvec(c['x']), cvec(c['xk']), cbounds(c['bounds']), C.cf(c['tr']), C.cf(o['t']),
                     cvec(c['x']), cvec(c['xk']), cbounds(c['bounds']), C.cf(c['tr'])))
    res = C.coq_eval(IMPORTS, ex, 'C05p', shard=300)
    mism = unstable = 0
    for (c, o), zs in zip(pc2, res):
        n = c['n']
        fl = C.dec_floats(zs[:4 * n])
        mp, mq, mroot = fl[:n], fl[n:], bool(zs[4 * n])
        if mp != o['p']:
            mism += 1
            ctx.fail('correspondence', 'project: model %r, implementation %r' % (mp, o['p']), case=dict(c, kind='projection'))
        if mroot != o['root']:
            d = [a - b for a, b in zip(o['p'], c['xk'])]
            dd = sum(t * t for t in d)
            if abs(dd - c['tr'] ** 2) <= 1e-12 * dd:
                unstable += 1
            else:
                mism += 1
                ctx.fail('correspondence', 'project_onto_tr: model root-find=%s, implementation %s' % (mroot, o['root']), case=dict(c, kind='projection'))
        elif not P1.close_vec(mq, o['q'], 1e-12, 1e-14):
            mism += 1
            ctx.fail('correspondence', 'project_onto_tr: model %r, implementation %r' % (mq, o['q']), case=dict(c, kind='projection'))
    # ---- L1: outer loop with the logged proposals
    idx = [i for i, o in enumerate(outs) if o['err'] is None]
    res = C.coq_eval(IMPORTS, [model_expr(cases[i], outs[i]) for i in idx], 'C05', shard=60, preamble=PREAMBLE, timeout=900)
    for i, zs in zip(idx, res):
        c, o = cases[i], outs[i]
        flag, x, ev = P1.parse_model(zs, c['n'])
        mlog = [('pc' if k == 'pc' else 'cb', p) for k, p, _ in ev if k in ('cinit', 'accept', 'conv', 'small', 'pc')]
        ok, what = True, None
        if (flag, tuple(k for k, _ in mlog)) != (o['flag'], tuple(k for k, _ in o['log'])):
            ok, what = False, 'model trace %s / flag %s but implementation trace %s / flag %s' % ([k for k, _ in mlog], flag, [k for k, _ in o['log']], o['flag'])
        else:
            for (k, p), (_, q) in zip(mlog, o['log']):
                if not P1.close_vec(p, q):
                    ok, what = False, 'reported point differs: model %r, implementation %r' % (p, q)
                    break
            if ok and not P1.close_vec(x, o['x']):
                ok, what = False, 'returned point differs: model %r, implementation %r' % (x, o['x'])
        if ok:
            continue
        stable = not o['conv_margin'] < 1e-6          # the convergence test realOptimality < tol itself was a near tie
        for k in range(8 if stable else 0):
            o2 = run_impl(c, mods, onp.random.RandomState(ctx.seed % 100000 + 17 * k))
            if discrete(o2) != discrete(o) or (o2['x'] is not None and not P1.close_vec(o2['x'], o['x'], 1e-7, 1e-9)):
                stable = False
                break
        if stable:
            mism += 1
            if mism <= 12:
                ctx.fail('correspondence', 'bound_constrained_trust_region_minimize: ' + what,
                         case=dict({k: v for k, v in c.items()}, impl=dict(x=o['x'], flag=o['flag'], log=o['log'])))
        else:
            unstable += 1
    ctx.count('model_vs_impl_comparisons', len(idx) + len(pcases))
    ctx.count('model_vs_impl_mismatches', mism)
    ctx.count('unstable_near_tie_cases', unstable)


def search(ctx, reasons):
    import copy
    c2 = copy.copy(ctx)
    c2.tier = 'thorough'
    c2.failures, c2.counts, c2.cov, c2.samples, c2.notes = [], {}, {}, [], []
    c2.seed = ctx.seed + 1
    correspondence(c2, False)
    findings = [f for f in C.load_known_findings() if f['property'] == ID and f['status'] == 'open']
    f = [fl for fl in c2.failures if fl.get('concrete') and not any(matches_finding(fl, k) for k in findings)]
    return f[0] if f else None


def finding_fails(ctx, f):
    mods = _mods()
    if f.get('id') == 'F12':
        c = dict(f['witness']['case'])
        c['bounds'] = [(lo if lo is not None else -INF, hi if hi is not None else INF) for lo, hi in c['bounds']]
        o = run_impl(c, mods)
        return o['min_alpha'] < 0 and any(t == 'infeasible' for t, _ in concl(c, o, mods))
    c = f1p_case()
    o = run_impl(c, mods)
    return [t for t, _ in concl(c, o, mods)] == ['uphill-converged-exit']


def matches_finding(fl, f):
    """F1' exactly: the only complaint is an increase at the final ConvergedAt event of a run that returned flag True.
    F12 exactly: monotone (Kouri) line search, a NEGATIVE step length was returned by kouri_exact_line_search in that run, and the
    complaint is an infeasible reported iterate (or the descent/last-iterate consequences are NOT covered: those stay violations)."""
    if fl.get('kind') != 'conclusion':
        return False
    c = fl.get('case') or {}
    if f.get('id') == "F1'":
        return c.get('tag') == 'uphill-converged-exit'
    if f.get('id') == 'F12':
        return (c.get('tag') == 'infeasible' and c.get('st', {}).get('spg_use_nonmonotone') is False
                and (c.get('impl') or {}).get('min_alpha', 0.0) < 0)
    return False


def replay(ctx, path):
    rep = json.load(open(path))
    case = rep.get('failing_input')
    print('replay of', path)
    print(json.dumps(rep.get('reasons'), indent=1)[:2500])
    if not case or case.get('kind') == 'projection' or 'A' not in case:
        print('no replayable solver input recorded; broken obligations:', rep.get('broken'))
        return 1
    mods = _mods()
    case['bounds'] = [tuple(b) for b in case['bounds']]
    o = run_impl(case, mods)
    bad = concl(case, o, mods)
    print('implementation now:', bad or 'conclusion holds')
    return 1 if bad else 0
